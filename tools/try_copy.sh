#!/bin/bash
# tools/try_copy.sh <patch.diff> <Cnn>... : like try_mutant.sh but on a scratch worktree (/tmp/tryrepo), /repo stays untouched.
P=$(realpath "$1"); shift
cd "$(dirname "$0")/.."
WT=/tmp/tryrepo_$$
git -C /repo worktree remove --force $WT >/dev/null 2>&1
git -C /repo worktree add -q --detach $WT HEAD || exit 9
trap 'git -C /repo worktree remove --force $WT >/dev/null 2>&1' EXIT
git -C $WT apply "$P" || { echo "patch does not apply"; exit 8; }
export QSTRADER_ROOT=$WT PYTHONPATH=$WT
for prop in "$@"; do
  ./check "$prop" --tier "${TIER:-quick}" > /tmp/w/copy_$$_$prop.out 2>&1; rc=$?
  echo "== $prop exit=$rc"; grep -E "^(VIOLATION|  undecided|  CHECKER|  CANARY)" /tmp/w/copy_$$_$prop.out | cut -c1-260 | head -${LINES_MAX:-6}; grep "tier=" /tmp/w/copy_$$_$prop.out | cut -c1-220
done
