#!/usr/bin/env python3
"""tools/try_round.py [-j N] <letters...>: quick checks of property Cxx against every /tmp/mut/out/Cxx/<letter>/patch.diff on scratch
worktrees (no change to /repo, nothing recorded) - a first look before tools/import_round.sh."""
import os, subprocess, sys, tempfile, shutil
from concurrent.futures import ThreadPoolExecutor
V = os.path.dirname(os.path.dirname(os.path.abspath(__file__)))


def one(args):
    p, v = args
    patch = '/tmp/mut/out/%s/%s/patch.diff' % (p, v)
    if not os.path.exists(patch):
        return p, v, None, []
    wt = tempfile.mkdtemp(prefix='tryround_', dir='/tmp')
    os.rmdir(wt)
    try:
        subprocess.run(['git', '-C', '/repo', 'worktree', 'add', '-q', '--detach', wt, 'HEAD'], check=True, capture_output=True)
        if subprocess.run(['git', '-C', wt, 'apply', patch], capture_output=True).returncode:
            return p, v, 'PATCH-DOES-NOT-APPLY', []
        env = dict(os.environ, QSTRADER_ROOT=wt, PYTHONPATH=wt)
        r = subprocess.run(['./check', p, '--tier', 'quick'], cwd=V, env=env, capture_output=True, text=True)
        viol = [l.split('obligation=')[-1][:110] for l in r.stdout.splitlines() if l.startswith('VIOLATION')]
        return p, v, r.returncode, viol[:2]
    finally:
        subprocess.run(['git', '-C', '/repo', 'worktree', 'remove', '--force', wt], capture_output=True)
        shutil.rmtree(wt, ignore_errors=True)


def main():
    a = sys.argv[1:]
    j = 3
    if a[:1] == ['-j']:
        j, a = int(a[1]), a[2:]
    jobs = [('C%02d' % n, v) for n in range(1, 20) for v in a]
    with ThreadPoolExecutor(j) as ex:
        for p, v, rc, viol in ex.map(one, jobs):
            if rc is not None:
                print('%s-%s exit=%s %s' % (p, v, rc, viol), flush=True)


if __name__ == '__main__':
    main()
