#!/bin/bash
# tools/try_mutant.sh <patch.diff> <Cnn> [more props...]: apply a seeded change to /repo, run the quick checks, always revert.
P=$(realpath "$1"); shift
cd "$(dirname "$0")/.."
if [ -n "$(git -C /repo status --porcelain -- qstrader)" ]; then echo "/repo is dirty; refusing"; exit 9; fi
trap 'git -C /repo checkout -- . >/dev/null 2>&1' EXIT
git -C /repo apply "$P" || { echo "patch does not apply"; exit 8; }
for prop in "$@"; do
  PYVC_SCRATCH_EVIDENCE=1 ./check "$prop" --tier "${TIER:-quick}" > /tmp/w/mut_$prop.out 2>&1; rc=$?
  echo "== $prop exit=$rc"; grep -E "^(VIOLATION|KNOWN|  undecided|  CHECKER|  CANARY)" /tmp/w/mut_$prop.out | cut -c1-260 | head -${LINES_MAX:-8}; tail -1 /tmp/w/mut_$prop.out | grep -v "^  " | cut -c1-250
done
