#!/bin/bash
# tools/import_round.sh <variant letters...> : import every finished, not yet imported seeded change of /tmp/mut/out (serially; patches /repo and reverts)
cd "$(dirname "$0")/.."
for p in C01 C02 C03 C04 C05 C06 C07 C08 C09 C10 C11 C12 C13 C14 C15 C16 C17 C18 C19; do
  for v in "$@"; do
    d=/tmp/mut/out/$p/$v
    [ -f $d/patch.diff ] && [ -f $d/demo.py ] && [ -f $d/notes.md ] || continue
    [ -d seeded/$p-$v ] && continue
    .venv/bin/python tools/seed_import.py $d $p-$v $p 2>&1 | grep -v "^WARNING" | tail -1
  done
done
