#!/usr/bin/env python3
"""tools/reverify_seeded.py [-j N] [ids...]: re-run the quick checks recorded in seeded/<id>/meta.json against each seeded change on a
scratch worktree of /repo (QSTRADER_ROOT; /repo itself stays untouched) and report every change whose verdict differs from the record."""
import json, os, subprocess, sys, tempfile, shutil
from concurrent.futures import ThreadPoolExecutor
V = os.path.dirname(os.path.dirname(os.path.abspath(__file__)))


def one(i):
    d = os.path.join(V, 'seeded', i)
    m = json.load(open(os.path.join(d, 'meta.json')))
    wt = tempfile.mkdtemp(prefix='reverify_', dir='/tmp')
    os.rmdir(wt)
    try:
        subprocess.run(['git', '-C', '/repo', 'worktree', 'add', '-q', '--detach', wt, 'HEAD'], check=True, capture_output=True)
        if subprocess.run(['git', '-C', wt, 'apply', os.path.join(d, 'patch.diff')], capture_output=True).returncode:
            return i, 'PATCH-DOES-NOT-APPLY', {}
        env = dict(os.environ, QSTRADER_ROOT=wt, PYTHONPATH=wt)
        res = {}
        for p in m.get('quick_checks_against_change', {}):
            r = subprocess.run(['./check', p, '--tier', 'quick'], cwd=V, env=env, capture_output=True, text=True)
            res[p] = r.returncode
        caught = any(v == 1 for v in res.values())
        bad = any(v == 3 for v in res.values())
        st = 'ok' if caught == bool(m.get('caught')) and not bad else ('REGRESSION' if m.get('caught') and not caught else 'CHANGED')
        return i, st, res
    finally:
        subprocess.run(['git', '-C', '/repo', 'worktree', 'remove', '--force', wt], capture_output=True)
        shutil.rmtree(wt, ignore_errors=True)


def main():
    a = sys.argv[1:]
    j = 3
    if a[:1] == ['-j']:
        j, a = int(a[1]), a[2:]
    ids = a or sorted(os.listdir(os.path.join(V, 'seeded')))
    with ThreadPoolExecutor(j) as ex:
        for i, st, res in ex.map(one, ids):
            print(i, st, res, flush=True)


if __name__ == '__main__':
    main()
