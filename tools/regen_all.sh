#!/bin/bash
# tools/regen_all.sh [tier] : run every property's check on /repo (rewrites evidence/*.json); prints one line per property
cd "$(dirname "$0")/.."
T=${1:-quick}
for i in $(seq -w 1 19); do
  p=C$i
  ./check $p --tier $T > /tmp/w/regen_$p.out 2>&1; rc=$?
  echo "$p exit=$rc $(grep 'tier=' /tmp/w/regen_$p.out | cut -c1-200)"
  grep -E "^(VIOLATION|  undecided|  CANARY)" /tmp/w/regen_$p.out | cut -c1-220 | head -4
done
git -C /repo status --porcelain | head -3
