#!/bin/bash
# tools/refactor_sweep.sh <dir-with-R*/k/patch.diff> : applies each behaviour-preserving refactoring to a repo copy and runs the
# quick checks of the properties its files touch; any VIOLATION line or non-zero exit on such a patch is a FALSE ALARM.
# Under `vp run --with-repo` it works on the snapshot ($VP_RUN_REPO); otherwise on /repo (and restores it).
cd "$(dirname "$0")/.."
[ -f .venv/.built ] || ./setup.sh >/dev/null
REPO=${VP_RUN_REPO:-/repo}
export QSTRADER_ROOT=$REPO PYTHONPATH=$REPO
SRC=${1:-/tmp/mut/out}
declare -A PROPS=( [R1]="C01 C02 C03 C15" [R2]="C01 C02 C04 C05 C15 C18" [R3]="C09 C10 C11 C19 C08" [R4]="C14 C12 C08 C04 C07" [R5]="C16 C06 C19 C05 C17 C10 C07" )
for r in R1 R2 R3 R4 R5; do
  for k in 1 2 3 4 5; do
    P=$SRC/$r/$k/patch.diff
    [ -f "$P" ] || continue
    git -C $REPO checkout -q -- . ; git -C $REPO apply "$P" || { echo "$r/$k: patch does not apply"; continue; }
    for prop in ${PROPS[$r]}; do
      out=$(./check $prop --tier quick 2>&1); rc=$?
      v=$(echo "$out" | grep -c "^VIOLATION")
      u=$(echo "$out" | grep -c "  undecided:")
      echo "$r/$k $prop exit=$rc violations=$v undecided=$u $(echo "$out" | grep -E '^VIOLATION|  undecided:|CRASH|SURVIVED' | head -3 | cut -c1-200 | tr '\n' '|')"
    done
    git -C $REPO checkout -q -- .
  done
done
