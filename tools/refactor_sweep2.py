#!/usr/bin/env python3
"""tools/refactor_sweep2.py <dir-with-k/patch.diff>...: run the quick checks of the properties related to the files a
(behaviour-preserving) patch touches, on a scratch worktree; prints exit codes and any VIOLATION / undecided / CANARY line."""
import os, re, subprocess, sys, tempfile, shutil
from concurrent.futures import ThreadPoolExecutor
V = os.path.dirname(os.path.dirname(os.path.abspath(__file__)))
MAP = [('trading/backtest.py', 'C14 C08 C12 C13 C16 C18 C06 C01'), ('system/qts.py', 'C08 C14 C09'), ('execution/execution_handler.py', 'C04 C08 C09 C14'),
       ('execution/order.py', 'C04 C09 C18'), ('data/backtest_data_handler.py', 'C06 C07 C05 C10 C11 C16 C18'), ('data/daily_bar_csv.py', 'C06 C07 C18 C16'),
       ('asset/universe/', 'C19 C16 C09'), ('alpha_model/', 'C19 C09'), ('statistics/', 'C17'), ('signals/', 'C16 C14'), ('system/rebalance/', 'C13 C14 C08'),
       ('broker/simulated_broker.py', 'C01 C02 C04 C05 C15 C09 C14'), ('fee_model/', 'C05 C10 C11 C01'), ('exchange/', 'C04'), ('optimiser/', 'C19 C09'),
       ('broker/portfolio/', 'C01 C02 C03 C15'), ('broker/transaction/', 'C03 C02 C01'), ('order_sizer/', 'C10 C11 C09'), ('portcon/pcm.py', 'C09 C19'),
       ('simulation/', 'C12 C14')]


def one(patch):
    text = open(patch).read()
    files = re.findall(r'^\+\+\+ b/(\S+)', text, re.M)
    props = []
    for f in files:
        for pat, ps in MAP:
            if pat in f:
                props += [p for p in ps.split() if p not in props]
    wt = tempfile.mkdtemp(prefix='sweep_', dir='/tmp')
    os.rmdir(wt)
    out = []
    try:
        subprocess.run(['git', '-C', '/repo', 'worktree', 'add', '-q', '--detach', wt, 'HEAD'], check=True, capture_output=True)
        if subprocess.run(['git', '-C', wt, 'apply', patch], capture_output=True).returncode:
            return patch, ['PATCH-DOES-NOT-APPLY']
        env = dict(os.environ, QSTRADER_ROOT=wt, PYTHONPATH=wt)
        for p in props:
            r = subprocess.run(['./check', p, '--tier', 'quick'], cwd=V, env=env, capture_output=True, text=True)
            lines = [l for l in r.stdout.splitlines() if l.startswith(('VIOLATION', '  undecided', '  CANARY', '  CHECKER'))]
            out.append('%s exit=%d%s' % (p, r.returncode, ''.join('\n      ' + l[:230] for l in lines[:3])))
    finally:
        subprocess.run(['git', '-C', '/repo', 'worktree', 'remove', '--force', wt], capture_output=True)
        shutil.rmtree(wt, ignore_errors=True)
    return patch, out


def main():
    patches = []
    for d in sys.argv[1:]:
        for k in sorted(os.listdir(d)):
            p = os.path.join(d, k, 'patch.diff')
            if os.path.exists(p):
                patches.append(p)
    with ThreadPoolExecutor(3) as ex:
        for patch, out in ex.map(one, patches):
            print('##', patch, flush=True)
            for o in out:
                print('  ', o, flush=True)


if __name__ == '__main__':
    main()
