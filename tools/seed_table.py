#!/usr/bin/env python3
"""tools/seed_table.py [ids...]: markdown rows (id | what | first failing obligations) from seeded/*/meta.json + notes.md"""
import json, os, re, sys
V = os.path.dirname(os.path.dirname(os.path.abspath(__file__)))
ids = sys.argv[1:] or sorted(os.listdir(os.path.join(V, 'seeded')))
for i in ids:
    d = os.path.join(V, 'seeded', i)
    m = json.load(open(os.path.join(d, 'meta.json')))
    title = ''
    if os.path.exists(os.path.join(d, 'notes.md')):
        title = open(os.path.join(d, 'notes.md')).readline().strip().lstrip('# ')
        title = re.sub(r'^C\d\d variant \w\s*[-—–:]+\s*', '', title)
    v = []
    for p, r in m.get('quick_checks_against_change', {}).items():
        v += r.get('violations', [])
    v = [re.sub(r' no-failing-input-found$', '', x) for x in v]
    print('| %s | %s | %s |' % (i, title[:150], ('`' + '`, `'.join(v[:2]) + '`') if v else ('**not caught**' if not m.get('caught') else '')))
