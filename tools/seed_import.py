#!/usr/bin/env python3
"""Confirms a sub-agent's seeded change in a scratch worktree (tests pass, demo fails with / passes without), runs the
registered quick checks against it on /repo (apply -> check -> revert) and stores it under /verif/seeded/<id>/."""
import json
import os
import shutil
import subprocess
import sys
import time

V = os.path.dirname(os.path.dirname(os.path.abspath(__file__)))
WT = '/tmp/seed_wt'


def sh(cmd, **kw):
    return subprocess.run(cmd, shell=True, capture_output=True, text=True, **kw)


def main(src, sid, props):
    patch = os.path.join(src, 'patch.diff')
    demo = os.path.join(src, 'demo.py')
    out = os.path.join(V, 'seeded', sid)
    os.makedirs(out, exist_ok=True)
    sh('git -C /repo worktree remove --force %s' % WT)
    assert sh('git -C /repo worktree add --detach %s HEAD' % WT).returncode == 0
    meta = {'id': sid, 'breaks_property': props[0], 'checked_properties': props, 'base_commit': sh('git -C /repo rev-parse --short HEAD').stdout.strip()}
    try:
        env = dict(os.environ, PYTHONPATH=WT)
        r0 = sh('/venv/bin/python %s' % demo, cwd=WT, env=env)
        meta['demo_on_unchanged_tree'] = {'exit': r0.returncode, 'tail': (r0.stdout + r0.stderr)[-300:]}
        a = sh('git apply %s' % patch, cwd=WT)
        meta['patch_applies'] = a.returncode == 0
        if a.returncode != 0:
            a = sh('git apply -3 %s' % patch, cwd=WT)
            meta['patch_applies_3way'] = a.returncode == 0
        t = sh('/venv/bin/python -m pytest -q -p no:cacheprovider tests', cwd=WT, env=env)
        meta['test_suite_with_change'] = t.stdout.strip().splitlines()[-1] if t.stdout.strip() else t.stderr[-200:]
        r1 = sh('/venv/bin/python %s' % demo, cwd=WT, env=env)
        meta['demo_with_change'] = {'exit': r1.returncode, 'tail': (r1.stdout + r1.stderr)[-400:]}
        diff = sh('git diff', cwd=WT).stdout
        open(os.path.join(out, 'patch.diff'), 'w').write(diff)
    finally:
        sh('git -C /repo worktree remove --force %s' % WT)
    shutil.copy(demo, os.path.join(out, 'demo.py'))
    notes = os.path.join(src, 'notes.md')
    if os.path.exists(notes):
        shutil.copy(notes, os.path.join(out, 'notes.md'))
    # the registered checks against the change
    assert not sh('git -C /repo status --porcelain -- qstrader').stdout.strip(), '/repo dirty'
    res = {}
    try:
        assert sh('git -C /repo apply %s' % os.path.join(out, 'patch.diff')).returncode == 0
        for p in props:
            t0 = time.time()
            r = sh('PYVC_SCRATCH_EVIDENCE=1 ./check %s --tier quick' % p, cwd=V)
            viol = [l for l in r.stdout.splitlines() if l.startswith('VIOLATION')]
            res[p] = {'exit': r.returncode, 'seconds': round(time.time() - t0, 1), 'violations': [l.split('obligation=')[-1][:160] for l in viol][:6]}
    finally:
        sh('git -C /repo checkout -- .')
    meta['quick_checks_against_change'] = res
    meta['caught'] = any(v['exit'] == 1 for v in res.values())
    meta['confirmed'] = (meta['demo_on_unchanged_tree']['exit'] == 0 and meta['demo_with_change']['exit'] != 0 and 'passed' in meta['test_suite_with_change'] and 'failed' not in meta['test_suite_with_change'])
    meta['what_ran'] = ['git worktree add --detach /tmp/seed_wt HEAD', 'demo.py on the unchanged tree (PYTHONPATH=worktree)', 'git apply patch.diff', '/venv/bin/python -m pytest -q tests', 'demo.py with the change',
                        'git -C /repo apply patch.diff; ./check <prop> --tier quick; git -C /repo checkout -- .']
    json.dump(meta, open(os.path.join(out, 'meta.json'), 'w'), indent=1)
    print(sid, 'confirmed' if meta['confirmed'] else 'NOT-CONFIRMED', 'caught' if meta['caught'] else 'MISSED',
          {p: v['exit'] for p, v in res.items()}, meta['test_suite_with_change'][-30:])


if __name__ == '__main__':
    main(sys.argv[1], sys.argv[2], sys.argv[3:])
