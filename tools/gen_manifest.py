#!/usr/bin/env python3
"""Regenerates /verif/MANIFEST.json from the table below (kept in one place so that levels/notes stay consistent)."""
import json
import os

V = os.path.dirname(os.path.dirname(os.path.abspath(__file__)))
TECH = 'contract-based deductive verification of the real code (pyvc: the repository functions executed on z3-backed proxies, all paths, loops cut by invariants, callees by contract; obligations discharged by z3, cvc5 for unknowns; the same contracts are also run natively on random concrete inputs - a bounded run-time check that is never counted as proved)'
BND = 'bounded run-time contract check of the real pandas/numpy-bound functions against an independent pure-Python spec (stand-in, never counted as proved)'

P = {
 'C01': ('proof', 'Every cash-moving public operation of Portfolio and SimulatedBroker has a postcondition taken from the statement (exact debit/credit, zero-sum transfers, one rounded history event) and every other operation has cash/history in its unchanged frame; discharged for arbitrary states satisfying the class invariants, so the ledger equation holds after every finite interleaving (object-invariant induction). update() is proved through five cut loops with ghost cash/quantity ledgers. Account totals are preceded by an earlier query and a transfer (no stale memo); the session wiring funds ONE portfolio by a zero-sum transfer from the master account. History-dependent state outside the class invariants (undecided symbolically) is decided by the bounded API-sequence module (not counted as proved).',
         'real arithmetic for floats; builtin/numpy shims of DESIGN 2.6; portfolio methods seen by the broker through their verified contract object (PortfolioSpec); closed-world scan of writers; known findings F4-F6 are C15-side', '4 C01'),
 'C02': ('proof', 'Net quantity = sum of fills, held iff non-zero, latest price = last fill or mark, market value = SUM qty x price, equity = cash + market value: postconditions/invariants on Position, PositionHandler, Portfolio (over a symbolic region of positions) and SimulatedBroker (over portfolio contract objects), discharged for all states and all map sizes.',
         'as C01; SUM is an uninterpreted finite sum with engine-side definitional unfolding; P&L properties replaced by their L0 contract inside the L1 valuation harness', '4 C02'),
 'C03': ('proof', 'All P&L identities of the statement are postconditions of the real Position code for every real-valued state satisfying the position invariant on all control paths (any number of earlier fills by induction over the invariant); re-marking proved to change only price/clock.',
         'floats as reals (the long-random-sequences-in-floating-point part is the bounded random contract run of the thorough tier); known finding F9 (buy fill 0<q<1 dropped) reported, its obligations excluded from the discharged count', '4 C03'),
 'C04': ('proof', 'Exchange-hours predicate proved exactly (Mon-Fri, 14:30<=t<21:00); submit_order appends and changes nothing else; update(): closed => queues/cash/holdings untouched, open => every queue drained, each batched order executed exactly once in full on its own portfolio, executed batch = stable sort by direction of the drained batch (Lean lemma proj_stablePartition lifts it to per-portfolio sells-first/FIFO).',
         'queue.Queue modelled as a z3 sequence; sorted() with a two-valued key assumed to be a stable partition; ghost predicates PROJ/ALL_OWNED unfolded engine-side; quote-available precondition from the quantifier; raising paths are C15', '4 C04'),
 'C05': ('proof', 'On every path of _execute_order: one quote read at (dt, asset), ask for buys / bid for sells, stamp = broker clock, full quantity, commission = fee model applied to round(price x quantity) and actually charged; percentage model = (c+t)|x| >= 0 and symmetric, zero model = 0.',
         'round() uninterpreted with |r-x|<=1/2, integer, odd; data handler and fee model seen through contract stubs', '4 C05'),
 'C06': ('other', 'Deductive part: BacktestDataHandler (first non-NaN source in order, raising source = NaN, bid_ask = (bid, bid), mid = (bid+ask)/2, every source queried at the caller\'s dt) proved for 0-3 sources and all answers. The CSV source itself is pandas (unstack/ffill/sort_index/get_indexer): no contract within a deductive verifier\'s reach decides it. Bounded stand-in: the real CSVDailyBarDataSource/BacktestDataHandler on enumerated bar files (0-4 bars, permutations, missing cells, adjust on/off, two assets) x 31-instant lattice against an independent row-scan spec; exhaustive inside the stated bound in the thorough tier.',
         'CSV source NOT proved (bounded, four 7-day windows incl. DST switches; answers independent of query history); handler statelessness (earlier queries at any instant) and the session\'s default source (one source over every file) proved; known finding F10 (header-only CSV)', '4 C06'),
 'C07': ('other', 'Deductive part: query-time discipline - every data-handler query made by broker.update/_execute_order (and, as they come under contract, sizers/PCM/signals) is at the caller\'s dt (ghost query log). The two-run relation itself is not expressible as a function contract: bounded relational stand-in runs the real session on D and on D with the future rewritten/deleted and compares prefixes bit for bit.',
         'hyperproperty not proved; composition argument in DESIGN.md; bounded by number of markets x cuts', '4 C07'),
 'C08': ('other', 'Conjunction of functional contracts proved elsewhere (C04, C05, C09-C11, C02) plus wiring; end-to-end equality with an independent reference implementation of the documented rules is a bounded stand-in on synthetic markets.',
         'composition not machine-checked end to end; bounded reference comparison (ill-conditioned 1-ulp rounding-boundary cases excused and counted)', '4 C08'),
 'C09': ('proof', 'PCM key-set/union, zero-fill, allocation row, sizer argument, order list (ascending, target-current, no zero/duplicate orders, liquidation of unweighted holdings) as postconditions over symbolic dictionaries of any size, for every set iteration order.',
         'sorted()/set() contracts of DESIGN 2.6; sizers seen through their contract', '4 C09'),
 'C10': ('proof', 'Per-asset kernel of the sizer loop invariant: integer q >= 0, q*p + fee <= share, (q+1)*p + fee > share; rejections (negative weight, NaN price, buffer outside [0,1]); Lean lemma budget sums the per-asset bound.',
         'floor/isclose/isnan shims; fee family r|x|, 0<=r<=1; known findings F7 (r>1) and F8 (0<sum<=1e-8)', '4 C10'),
 'C11': ('proof', 'Per-asset kernel: integer q with the sign of its weight, truncation toward zero, one-currency-unit maximality, |q|p <= (1+r)|A|; leverage <= 0 and NaN price rejected; Lean lemma gross.',
         'as C10', '4 C11'),
 'C12': ('other', 'Deductive part: for an arbitrary business day the generator yields exactly [pre]? open close [post]? at 00:00/14:30/21:00/23:59 UTC of that day, strictly increasing within and across days, for all four flag combinations; end < start rejected (ValueError) exactly; the session builds its clock over [start, end] without pre/post-market events whatever the burn-in date. Calendar generation is pd.date_range(freq=BDay()): bounded stand-in against an independent datetime calendar (every start date 2015-12-15..2032-03-15 x 16 lengths x start times x flags in the thorough tier).',
         'which dates are business days is NOT proved (bounded); datetime/Timestamp construction through the civil-calendar shim of DESIGN 2.6', '4 C12'),
 'C13': ('other', 'Deductive part (loop-free): weekday accepted iff MON..FRI case-insensitively else ValueError; stamp 14:30:00 iff pre-market else 21:00:00 in all three classes; the session uses the schedule class named by `rebalance` over [start, end], unaffected by burn-in and by sessions built later. Schedules are pd.date_range/bdate_range outputs: bounded stand-in over the same calendar window, every weekday, both pre-market flags, the cross-check that every instant is emitted by the real clock (start times before and after the rebalance time of the start date), and a later session in the same process.',
         'schedule dates NOT proved (bounded)', '4 C13'),
 'C14': ('other', 'Deductive part: the real run() loop cut at an arbitrary clock event - broker.update(event time) first and once; signals iff given and market close; portfolio construction iff scheduled and not before burn-in; one equity point iff market close and not before burn-in, read after the rebalance; no early exit - for all four signals/burn-in configurations (Lean trace_filter lifts it to the run); exchange-hours predicate; ExecutionHandler/QTS wiring. Bounded stand-in on real sessions for the pandas tables (equity dates, allocation forward fill) and the end-to-end statement.',
         'pandas reindex/ffill tables bounded only', '4 C14'),
 'C15': ('proof', 'Every raise in simulated_broker.py / portfolio.py (and position.py below them): raise condition and documented exception type, and protected state (all cash, holdings incl. accounting fields and marks, pending queues, histories) equal to the pre-state as z3 array equalities from arbitrary pre-states.',
         'known findings F4, F5, F6 (genuine partial updates) are reported and excluded from the discharged count; clocks are not protected state', '4 C15'),
 'C16': ('other', 'Deductive part: universe entry rule; price buffers for all real prices and window contents (window = last N of old ++ [p], other assets/lookbacks untouched, non-positive price rejected, unseen asset starts empty, capacity N+1 for momentum/volatility and N for SMA; asset/lookback configurations enumerated); SignalsCollection.update gives each signal exactly one observation per tracked asset = mid(dt), queried at dt; cadence once per business day at the close from the run loop. Signal numerics (pandas/numpy) by the bounded stand-in.',
         'numeric signal values bounded only', '4 C16'),
 'C17': ('other', 'Deductive part: the explicit high-water-mark loop of create_drawdowns for series of any length - after the loop hwm[j] is the running maximum of observations 0..j INCLUDING the first (integer-indexed array and range-loop cut by an invariant). Everything else (returns, aggregates, CAGR/Sharpe/Sortino, the vectorised drawdown ratio, duration, the two reporters) is pandas/numpy/transcendental: bounded stand-in against pure-Python definitions on business-day curves crossing month/year/ISO-week-53 boundaries.',
         'all statistics except the high-water-mark loop are NOT proved (bounded)', '4 C17'),
 'C18': ('other', 'Order-insensitivity is built into the proofs (set iteration arbitrary, order ids opaque): batch sort key reads the direction only, order ids never compared/hashed. The data handler is proved stateless (earlier queries at any instant leave nothing behind) and the session proved to leave a given data handler and its sources untouched. Cross-run / cross-interpreter identity is a statement about CPython: bounded stand-in (repeat runs, shared data source, fresh-vs-used source, PYTHONHASHSEED sweep).',
         'cross-interpreter identity bounded only', '4 C18'),
 'C19': ('proof', 'Universe membership (inclusive entry, None excluded, static list), single-signal alpha keys = universe at dt, fixed-weight identity, equal-weight values scale/N summing to scale (Lean const_sum), for dictionaries of any size.',
         'universe seen by the alpha model through its contract stub', '4 C19'),
}

NOT_YET = {}      # property -> reason (kept empty when every property has a check)


def main():
    checks = []
    for pid in sorted(P):
        if pid in NOT_YET:
            continue
        lvl, text, note, ref = P[pid]
        checks.append({
            'property_id': pid, 'quick_cmd': './check %s --tier quick' % pid, 'thorough_cmd': './check %s --tier thorough' % pid,
            'evidence_file': 'evidence/%s.json' % pid, 'replay_cmd_template': './check replay {path}', 'engine': 'pyvc',
            'level_claimed': {'category': lvl, 'text': text, 'design_ref': 'DESIGN.md ' + ref},
            'level_note': note,
            'technique': TECH if lvl == 'proof' else (BND if lvl == 'exploration' else TECH + ' + ' + BND),
        })
    m = {
        'version': 1,
        'setup_cmd': './setup.sh --lean',
        'hooks': {'guard': 'QSTRADER_VERIF', 'enable': 'none needed: contracts are sidecar files and stubs are patched inside the checker process; /repo carries only the fix: commits listed in known_findings.json',
                  'baseline_off_cmd': 'cd /repo && /venv/bin/python -m pytest -ra -q -p no:cacheprovider --timeout=900 --continue-on-collection-errors',
                  'source_commits': [], 'add_only': True},
        'engines': [{'name': 'pyvc', 'path': 'pyvc/', 'serves_properties': sorted(p for p in P if p not in NOT_YET),
                     'kind_free_text': 'purpose-built deductive verifier for the real Python code: symbolic execution of the repository function objects on z3-backed proxies, mechanical AST rewrite for loops/comprehensions only, contracts in /verif/contracts, Lean 4 lemmas in /verif/lean, bounded stand-ins in /verif/bounded'}],
        'checks': checks,
        'not_applicable': [{'property_id': p, 'reason': r} for p, r in sorted(NOT_YET.items())],
        'notes': 'Exit codes: 0 held (KNOWN-FINDING lines for listed open findings), 1 violation, 2 undecided without fallback, 3 checker error. Known findings: known_findings.json.',
    }
    json.dump(m, open(os.path.join(V, 'MANIFEST.json'), 'w'), indent=1)
    print('wrote MANIFEST with', len(checks), 'checks')


if __name__ == '__main__':
    main()
