/-
  Code-independent lemmas over contracts (DESIGN 2.10).  Each is cited by name from the contract files where its
  conclusion is assumed after its hypotheses were discharged as obligations on the real code.
  Checked by `lean` (Lean 4 + Mathlib, narrow imports) in setup and in the thorough tier.
-/
import Mathlib.Algebra.BigOperators.Field
import Mathlib.Algebra.Order.BigOperators.Group.Finset
import Mathlib.Data.Real.Basic
import Mathlib.Tactic.FieldSimp
import Mathlib.Tactic.Ring
import Mathlib.Tactic.Linarith

open Finset BigOperators

/-- C10: per-asset budgets sum to the whole budget -/
theorem budget {α : Type} (D : Finset α) (w p q : α → ℝ) (C S : ℝ)
    (hS : S = ∑ a ∈ D, w a) (hSpos : 0 < S)
    (h : ∀ a ∈ D, q a * p a ≤ C * (w a / S)) :
    ∑ a ∈ D, q a * p a ≤ C := by
  calc ∑ a ∈ D, q a * p a ≤ ∑ a ∈ D, C * (w a / S) := Finset.sum_le_sum h
    _ = C * ((∑ a ∈ D, w a) / S) := by rw [← Finset.mul_sum, Finset.sum_div]
    _ = C := by rw [← hS]; field_simp

/-- C11: per-asset gross bounds sum to the leverage bound -/
theorem gross {α : Type} (D : Finset α) (w p q : α → ℝ) (B G : ℝ)
    (hG : G = ∑ a ∈ D, |w a|) (hGpos : 0 < G)
    (h : ∀ a ∈ D, |q a| * p a ≤ B * (|w a| / G)) :
    ∑ a ∈ D, |q a| * p a ≤ B := by
  calc ∑ a ∈ D, |q a| * p a ≤ ∑ a ∈ D, B * (|w a| / G) := Finset.sum_le_sum h
    _ = B * ((∑ a ∈ D, |w a|) / G) := by rw [← Finset.mul_sum, Finset.sum_div]
    _ = B := by rw [← hG]; field_simp

/-- C19: equal weights sum to the scale -/
theorem const_sum {α : Type} (D : Finset α) (f : α → ℝ) (v : ℝ)
    (h : ∀ a ∈ D, f a = v) : ∑ a ∈ D, f a = v * D.card := by
  rw [Finset.sum_congr rfl h, Finset.sum_const, nsmul_eq_mul]; ring

/-- a finite sum of non-negative terms is non-negative and bounds each term (used for weight normalisation) -/
theorem sum_nonneg_bounds {α : Type} (D : Finset α) (f : α → ℝ) (h : ∀ a ∈ D, 0 ≤ f a) :
    0 ≤ ∑ a ∈ D, f a ∧ ∀ a ∈ D, f a ≤ ∑ b ∈ D, f b :=
  ⟨Finset.sum_nonneg h, fun a ha => Finset.single_le_sum h ha⟩

/-- stable partition by a two-valued key (the contract of `sorted(key = direction)`) -/
def stablePartition {β : Type} (sell : β → Bool) (xs : List β) : List β :=
  xs.filter sell ++ xs.filter (fun x => !sell x)

/-- C04/C18: projecting the sorted batch onto one portfolio = sorting that portfolio's own queue -/
theorem proj_stablePartition {β : Type} (sell own : β → Bool) (xs : List β) :
    (stablePartition sell xs).filter own = stablePartition sell (xs.filter own) := by
  simp [stablePartition, List.filter_append, List.filter_filter, Bool.and_comm]

/-- C04: in a stable partition no non-sell precedes a sell -/
theorem stablePartition_sells_first {β : Type} (sell : β → Bool) (xs : List β) :
    ∃ s b : List β, stablePartition sell xs = s ++ b ∧ (∀ x ∈ s, sell x = true) ∧ (∀ x ∈ b, sell x = false) := by
  refine ⟨xs.filter sell, xs.filter (fun x => !sell x), rfl, ?_, ?_⟩
  · intro x hx; exact (List.mem_filter.mp hx).2
  · intro x hx; simpa using (List.mem_filter.mp hx).2

/-- the object-invariant argument, stated once: an invariant preserved by every step holds after any finite
    sequence of steps (C01, C02, C03, C15: "for every finite interleaving") -/
theorem ledger_induction {σ ι : Type} (step : σ → ι → σ) (Inv : σ → Prop)
    (hstep : ∀ s i, Inv s → Inv (step s i)) (s0 : σ) (h0 : Inv s0) (ops : List ι) :
    Inv (ops.foldl step s0) := by
  induction ops generalizing s0 with
  | nil => simpa using h0
  | cons i is ih => simpa using ih (step s0 i) (hstep s0 i h0)

/-- C14/C16 cadence: if each loop iteration calls f(e) exactly when c(e), the call trace is events.filter c -/
theorem trace_filter {ε : Type} (c : ε → Bool) (events : List ε) :
    (events.foldl (fun tr e => if c e then tr ++ [e] else tr) []) = events.filter c := by
  suffices h : ∀ acc : List ε, events.foldl (fun tr e => if c e then tr ++ [e] else tr) acc = acc ++ events.filter c by
    simpa using h []
  induction events with
  | nil => intro acc; simp
  | cons e es ih =>
    intro acc
    by_cases hc : c e = true
    · simp [List.foldl, hc, ih, List.filter]
    · simp [List.foldl, hc, ih, List.filter]
