#!/bin/bash
# Re-checks lean/Lemmas.lean with Lean 4 + Mathlib (offline).  A hash stamp avoids re-checking an unchanged file.
cd "$(dirname "$0")"
H=$(sha256sum Lemmas.lean | cut -d' ' -f1)
if [ -f .lean_stamp ] && [ "$(cat .lean_stamp)" = "$H" ] && [ "$1" != "--force" ]; then echo "lean lemmas: stamp ok"; exit 0; fi
export LEAN_PATH=$(ls -d /opt/veriftools/mathlib4/.lake/packages/*/.lake/build/lib/lean 2>/dev/null | tr '\n' ':')/opt/veriftools/mathlib4/.lake/build/lib/lean
T0=$(date +%s)
if lean Lemmas.lean > lean_out.txt 2>&1 && ! grep -q "error\|sorry" lean_out.txt; then
  echo "$H" > .lean_stamp; echo "lean lemmas: accepted ($(( $(date +%s) - T0 )) s)"; rm -f lean_out.txt; exit 0
else
  echo "lean lemmas: REJECTED"; cat lean_out.txt | head -40; exit 1
fi
