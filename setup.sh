#!/bin/bash
# Builds /verif/.venv: a Python 3.12 overlay on /venv (pandas, numpy, qstrader editable -> /repo)
# plus z3-solver, cvc5, jsonschema, hypothesis from the offline wheelhouse.  Idempotent, offline.
set -e
cd "$(dirname "$0")"
V=.venv
STAMP=$V/.built
if [ ! -f "$STAMP" ]; then
  rm -rf $V
  /venv/bin/python -m venv --without-pip $V
  SP=$V/lib/python3.12/site-packages
  echo "import site; site.addsitedir('/venv/lib/python3.12/site-packages')" > $SP/_base.pth
  PIP_NO_INDEX=1 /venv/bin/python -m pip install -q --no-index --find-links /opt/veriftools/wheels \
      --target $SP z3-solver cvc5 jsonschema hypothesis >/dev/null 2>&1 || \
  PIP_NO_INDEX=1 /venv/bin/python -m pip install --no-index --find-links /opt/veriftools/wheels \
      --target $SP z3-solver cvc5 jsonschema hypothesis
  $V/bin/python -c "import z3, cvc5, jsonschema, pandas, numpy, qstrader; assert qstrader.__file__.startswith('/repo/'), qstrader.__file__"
  touch $STAMP
fi
if [ "$1" = "--lean" ]; then
  ./check lean || exit 1
fi
echo "setup ok"
