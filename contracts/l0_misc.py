"""L0 contracts: fee models (C05), exchange hours (C04), universes / alpha models / optimisers (C19)."""
import z3

from pyvc.run import harness, canary
from pyvc.core import EQ, NE, LE, LT, GE, GT, AND, OR, NOT, IMPLIES, IFF, ABS, SymNum, lift, liftk
from pyvc import heap
from .common import HAS, VAL, wd_tod, num_map, OptTimes, UniverseStub, SUMOF, DOM, lemma

from qstrader.broker.fee_model.percent_fee_model import PercentFeeModel
from qstrader.broker.fee_model.zero_fee_model import ZeroFeeModel
from qstrader.exchange.simulated_exchange import SimulatedExchange
from qstrader.asset.universe.dynamic import DynamicUniverse
from qstrader.asset.universe.static import StaticUniverse
from qstrader.alpha_model.single_signal import SingleSignalAlphaModel
from qstrader.alpha_model.fixed_signals import FixedSignalsAlphaModel
from qstrader.portcon.optimiser.equal_weight import EqualWeightPortfolioOptimiser
from qstrader.portcon.optimiser.fixed_weight import FixedWeightPortfolioOptimiser


# ------------------------------------------------------------------------------------------------ fees
@harness('PercentFeeModel.calc_total_cost', props=['C05', 'C10', 'C11'], layer='L0',
         functions=['PercentFeeModel.__init__', 'PercentFeeModel._calc_commission', 'PercentFeeModel._calc_tax',
                    'PercentFeeModel.calc_total_cost'])
def percent_fee(c):
    """fee(x) = (commission_pct + tax_pct) * |x|: never negative for rates >= 0, equal for +x and -x"""
    cp = c.real('commission_pct', lambda r: r.choice([0.0, 0.001, 0.0025, 0.5, 1.0]))
    tp = c.real('tax_pct', lambda r: r.choice([0.0, 0.005, 0.0, 0.3]))
    x = c.real('consideration', lambda r: float(r.randint(-200000, 200000)))
    q = c.real('quantity', lambda r: float(r.randint(-500, 500)))
    c.assume(AND(GE(cp, 0), GE(tp, 0)))
    fm = PercentFeeModel(commission_pct=cp, tax_pct=tp)
    a = c.key('asset')
    fee = fm.calc_total_cost(a, q, x, None)
    c.ob('fee-is-rate-times-abs-consideration', EQ(fee, (cp + tp) * ABS(x)))
    c.ob('fee-nonnegative', GE(fee, 0))
    c.ob('fee-same-for-buy-and-sell', EQ(fee, fm.calc_total_cost(a, -q, -x, None)))
    c.ob('commission-part', EQ(fm._calc_commission(a, q, x), cp * ABS(x)))
    c.ob('tax-part', EQ(fm._calc_tax(a, q, x), tp * ABS(x)))
    c.ob('fee-independent-of-quantity-argument', EQ(fee, fm.calc_total_cost(a, 0, x, None)), props=['C10', 'C11', 'C05'])


canary('abs dropped from commission', PercentFeeModel, '_calc_commission', 'abs(consideration)', 'consideration')(percent_fee)
canary('tax omitted from total', PercentFeeModel, 'calc_total_cost', 'return commission + tax', 'return commission')(percent_fee)


@harness('ZeroFeeModel.calc_total_cost', props=['C05'], layer='L0',
         functions=['ZeroFeeModel._calc_commission', 'ZeroFeeModel._calc_tax', 'ZeroFeeModel.calc_total_cost'])
def zero_fee(c):
    x = c.real('consideration')
    q = c.real('quantity')
    fm = ZeroFeeModel()
    c.ob('fee-is-zero', EQ(fm.calc_total_cost(c.key('asset'), q, x, None), 0))


canary('zero fee model charges tax', ZeroFeeModel, '_calc_tax', 'return 0.0', 'return 0.01 * consideration')(zero_fee)


# -------------------------------------------------------------------------------------------- exchange
@harness('SimulatedExchange.is_open_at_datetime', props=['C04', 'C14'], layer='L0',
         functions=['SimulatedExchange.__init__', 'SimulatedExchange.is_open_at_datetime'])
def exchange_open(c):
    """open <=> Monday-Friday and 14:30 <= t < 21:00 UTC   (for timestamps expressed in UTC, as the simulation clock emits them;
       the code reads the timestamp's own wall clock, so a stamp expressed in another zone is outside this contract)"""
    ex = SimulatedExchange(c.time('start'))
    t = c.time('t', utc=True)
    if c.mode == 'conc':
        # an earlier query leaves nothing behind: in particular not one exactly 28 / 31 days before (same day number, same weekday)
        import pandas as pd
        days = c.rng.choice([31, 28, 31, 7]) if getattr(c, 'rng', None) is not None else 31
        ex.is_open_at_datetime(t - pd.Timedelta(days=days))
    r = ex.is_open_at_datetime(t)
    wd, tod = wd_tod(c, t)
    c.ob('open-iff-weekday-and-1430-to-2100', IFF(r, AND(LE(wd, 4), GE(tod, 52200), LT(tod, 75600))))


canary('close time inclusive', SimulatedExchange, 'is_open_at_datetime', 'dt.time() < self.close_dt', 'dt.time() <= self.close_dt')(exchange_open)
canary('Saturday open', SimulatedExchange, 'is_open_at_datetime', 'dt.weekday() > 4', 'dt.weekday() > 5')(exchange_open)
canary('open time exclusive', SimulatedExchange, 'is_open_at_datetime', 'self.open_dt <= dt.time()', 'self.open_dt < dt.time()')(exchange_open)


# ------------------------------------------------------------------------------------------- universes
@harness('DynamicUniverse.get_assets', props=['C19', 'C16'], also=['C18'], layer='L0',
         functions=['DynamicUniverse.__init__', 'DynamicUniverse.get_assets'])
def dynamic_universe(c):
    """a in get_assets(t)  <=>  a has an entry date (not None) and t >= entry (inclusive) - whatever the universe was asked
       before (an instant earlier OR later than t: a universe object reused by a second session rewinds)"""
    w = c.key('w')
    c.key('w2')
    c.key('w3')                      # (concrete maps hold up to three assets, in any order of entry dates)
    dates = OptTimes(c, 'asset_dates')
    u = DynamicUniverse(dates.m)
    t0 = c.time('time_of_an_earlier_query')
    t = c.time('t')
    if c.mode == 'conc' and getattr(c, 'rng', None) is not None and getattr(c, 'model', None) is None:
        # concrete runs: put t exactly ON an entry instant often (the inclusive boundary), and the earlier query after it
        entries = [v for v in dates.m.values() if v is not None and v is not __import__('pandas').NaT]
        if entries and c.rng.random() < 0.5:
            t = c.rng.choice(entries).tz_convert('UTC')
        if entries and c.rng.random() < 0.5:
            t0 = max(entries).tz_convert('UTC') + (t - t + __import__('pandas').Timedelta(days=1))
    r0 = u.get_assets(t0)
    if c.mode == 'conc':
        # the list handed out belongs to the caller (Signal.update_assets appends to it in place): what a caller does to an
        # earlier answer - even one for the same instant - does not change the next answer
        r0.append('Eq:k_foreign')
        u.get_assets(t).append('Eq:k_foreign2')
    res = u.get_assets(t)
    c.ob('member-iff-dated-and-entered-inclusive', IFF(HAS(res, w), dates.entered(w, t)), props=['C19', 'C16', 'C18'])
    if c.mode == 'conc':
        c.ob('answer-is-exactly-the-entered-assets', sorted(res) == sorted(k for k in dates.m if dates.entered(k, t)), props=['C19', 'C16', 'C18'])


canary('entry instant exclusive', DynamicUniverse, 'get_assets', 'dt >= asset_date', 'dt > asset_date')(dynamic_universe)
canary('None dates included', DynamicUniverse, 'get_assets', 'asset_date is not None and dt >= asset_date', 'asset_date is None or dt >= asset_date')(dynamic_universe)


@harness('StaticUniverse.get_assets', props=['C19'], layer='L0', functions=['StaticUniverse.__init__', 'StaticUniverse.get_assets'])
def static_universe(c):
    lst = [c.key('a1'), c.key('a2')] if c.mode == 'conc' else heap.SymIter(c._const('static.dom', heap.AKB), lambda k: heap.SymKey(k))
    u = StaticUniverse(lst)
    res = u.get_assets(c.time('t'))
    c.ob('returns-exactly-the-configured-list', res is lst)


canary('static universe returns a reversed copy', StaticUniverse, 'get_assets', 'return self.asset_list', 'return self.asset_list[::-1]')(static_universe)


# ---------------------------------------------------------------------------------------- alpha models
@harness('SingleSignalAlphaModel.__call__', props=['C19'], layer='L0',
         functions=['SingleSignalAlphaModel.__init__', 'SingleSignalAlphaModel.__call__'])
def single_signal(c):
    """weights exactly for the universe members AT dt, each equal to the configured signal"""
    w = c.key('w')
    sig = c.real('signal')
    uni = UniverseStub(c)
    am = SingleSignalAlphaModel(uni, signal=sig)
    t0, t = c.time('t_earlier_call'), c.time('t')
    am(t0)                                   # an earlier call must not influence a later one
    del uni.queries[:]
    res = am(t)
    c.ob('keys-are-universe-at-dt', IFF(HAS(res, w), uni.member(w, t)))
    c.ob('every-weight-is-the-signal', IMPLIES(HAS(res, w), EQ(VAL(res, w), sig)))
    c.ob('universe-queried-at-dt-only', AND(len(uni.queries) >= 1, *[EQ(q, t) for q in uni.queries]), props=['C19', 'C07'])


canary('single-signal alpha caches the universe of its first call', SingleSignalAlphaModel, '__call__',
       'assets = self.universe.get_assets(dt)', 'assets = getattr(self, "_assets", None) or self.universe.get_assets(dt); self._assets = assets')(single_signal)


@harness('FixedSignalsAlphaModel.__call__', props=['C19', 'C08'], layer='L0',
         functions=['FixedSignalsAlphaModel.__init__', 'FixedSignalsAlphaModel.__call__'])
def fixed_signals(c):
    c.key('w')
    wts = num_map(c, 'signal_weights')
    am = FixedSignalsAlphaModel(wts)
    c.ob('returns-the-configured-weights', am(c.time('t')) is wts)


# ------------------------------------------------------------------------------------------ optimisers
@harness('FixedWeightPortfolioOptimiser.__call__', props=['C19', 'C09', 'C08'], layer='L0',
         functions=['FixedWeightPortfolioOptimiser.__init__', 'FixedWeightPortfolioOptimiser.__call__'])
def fixed_weight_opt(c):
    c.key('w')
    wts = num_map(c, 'initial_weights')
    opt = FixedWeightPortfolioOptimiser()
    # an earlier call with other weights leaves nothing behind - also when THIS call's dictionary is empty (an alpha model
    # that goes flat) - and in concrete mode the empty dictionary is tried explicitly
    opt(c.time('t_earlier'), initial_weights=num_map(c, 'weights_of_an_earlier_call'))
    c.ob('returns-input-weights-unchanged', opt(c.time('t'), initial_weights=wts) is wts)
    if c.mode == 'conc':
        empty = {}
        c.ob('empty-weights-returned-as-given', opt(c.time('t'), initial_weights=empty) is empty)


canary('fixed-weight optimiser normalises', FixedWeightPortfolioOptimiser, '__call__', 'return initial_weights',
       'return {a: w / 2.0 for a, w in initial_weights.items()}')(fixed_weight_opt)


@harness('EqualWeightPortfolioOptimiser.__call__', props=['C19'], layer='L0',
         functions=['EqualWeightPortfolioOptimiser.__init__', 'EqualWeightPortfolioOptimiser.__call__'])
def equal_weight_opt(c):
    """keys = input keys, every value scale/N; with lemma const_sum the weights sum to scale (non-empty input)"""
    w = c.key('w')
    c.key('w2')
    wts = num_map(c, 'initial_weights', pgen=lambda r: r.random() < 0.8)
    scale = c.real('scale', lambda r: r.choice([1.0, 2.0, 0.5, 3.0]))
    if c.mode == 'sym':
        c.assume(DOM(wts) != heap.EMPTY)
        n = SymNum(z3.ToReal(heap.CARD(DOM(wts))))
    else:
        c.assume(len(wts) > 0)
        n = len(wts)
    opt = EqualWeightPortfolioOptimiser(scale=scale)
    t = c.time('t')
    other = num_map(c, 'weights_of_an_earlier_call', pgen=lambda r: r.random() < 0.5)
    c.assume(DOM(other) != heap.EMPTY if c.mode == 'sym' else len(other) > 0)
    opt(c.time('t_earlier_call'), other)      # an earlier call (another asset set) must not influence this one
    res = opt(t, wts)
    c.ob('keys-are-input-keys', IFF(HAS(res, w), HAS(wts, w)))
    c.ob('every-weight-is-scale-over-n', IMPLIES(HAS(res, w), EQ(VAL(res, w) * n, scale)))
    # second call on the same object with the same arguments gives the same answer (no state carried between calls)
    res2 = opt(t, wts)
    c.ob('repeat-call-same-weights', IMPLIES(HAS(res2, w), EQ(VAL(res2, w) * n, scale)))
    if c.mode == 'sym':
        # Lean lemma const_sum: (forall k in D, f k = v) -> SUM D f = v * |D|   (hypothesis = clause above, at skolem w)
        lemma('const_sum')
        v = VAL(res, w)
        c.assume(z3.Implies(z3.Select(DOM(res), liftk(w)),
                            heap.SUM(DOM(res), DOM_COL(res)) == lift(v) * z3.ToReal(heap.CARD(DOM(res)))))
        c.ob('weights-sum-to-scale', IMPLIES(HAS(res, w), EQ(SUMOF(c, res), scale)))
    else:
        c.ob('weights-sum-to-scale', EQ(SUMOF(c, res), scale))


def DOM_COL(m):
    if isinstance(m, heap.LazyDict):
        m = m._sym()
    return m.cols['']


canary('equal weight 1/(N+1)', EqualWeightPortfolioOptimiser, '__call__', '1.0 / float(num_assets)', '1.0 / float(num_assets + 1)')(equal_weight_opt)
canary('equal weight computed on first use only', EqualWeightPortfolioOptimiser, '__call__', 'equal_weight = 1.0 / float(num_assets)', 'equal_weight = getattr(self, "_ew", None) or 1.0 / float(num_assets); self._ew = equal_weight')(equal_weight_opt)
canary('equal weight ignores scale', EqualWeightPortfolioOptimiser, '__call__', 'self.scale * equal_weight', 'equal_weight')(equal_weight_opt)
