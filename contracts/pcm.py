"""L3 contracts: PortfolioConstructionModel (C09, C19, C18, C07) over symbolic dictionaries of any size."""
import z3

from pyvc.run import harness, canary
from pyvc import heap
from pyvc.core import (SymNum, SymBool, SymKey, SymTime, ctx, lift, liftk, R, K, B, EQ, NE, LE, LT, GE, GT, AND, OR, NOT, IMPLIES,
                       IFF, ITE, ISINT, Unmodelled)
from pyvc.heap import AKB, AKR, SymMap, SymIter, EMPTY, MapLoop, MapLoopSpec
from .common import HAS, VAL, DOM, num_map, UniverseStub

from qstrader.portcon.pcm import PortfolioConstructionModel as PCM
from qstrader.portcon.optimiser.fixed_weight import FixedWeightPortfolioOptimiser

G = 'PortfolioConstructionModel._generate_rebalance_orders#'
L_FILL_CUR, L_FILL_TGT, L_DIFF = G + 'for _#0', G + 'for _#1', G + 'for _.keys()#0'
REPORT = ('quantity', 'market_value', 'unrealised_pnl', 'realised_pnl', 'total_pnl')
PCM_FUNCS = ['PortfolioConstructionModel.__init__', 'PortfolioConstructionModel._obtain_full_asset_list',
             'PortfolioConstructionModel._create_zero_target_weight_vector', 'PortfolioConstructionModel._create_full_asset_weight_vector',
             'PortfolioConstructionModel._generate_target_portfolio', 'PortfolioConstructionModel._obtain_current_portfolio',
             'PortfolioConstructionModel._generate_rebalance_orders', 'PortfolioConstructionModel._create_zero_target_weights_vector',
             'PortfolioConstructionModel.__call__', 'Order.__init__', 'FixedWeightPortfolioOptimiser.__call__']


def _m(x):
    return x._sym() if isinstance(x, heap.LazyDict) else x


class _FillCurrent(MapLoopSpec):
    """for asset in target: if asset not in current: current[asset] = {'quantity': 0}
       closed form: current = current0 extended by the processed assets that were missing, at quantity 0"""

    def __init__(self):
        self.cur0 = None

    def havoc(self, L, env, names):
        c = ctx()
        self.cur0 = _m(env['current_portfolio']).copy()
        cols = {f: c.fresh('current.' + f, AKR) for f in set(self.cur0.cols) | {'quantity'}}
        return {'current_portfolio': SymMap(c.fresh('current.dom', AKB), cols)}

    def scal(self, L, env, done):
        cur = _m(env['current_portfolio'])
        c0 = self.cur0 if self.cur0 is not None else cur
        k = z3.Const('__k', K)
        q0 = c0.cols.get('quantity', z3.K(K, z3.RealVal(0)))
        out = [('current-keys-are-old-keys-plus-processed-targets', cur.dom == z3.Lambda([k], z3.Or(z3.Select(c0.dom, k), z3.Select(done, k)))),
               ('missing-assets-entered-at-quantity-zero', cur.cols['quantity'] == z3.Lambda([k], z3.If(z3.And(z3.Select(done, k), z3.Not(z3.Select(c0.dom, k))), z3.RealVal(0), z3.Select(q0, k))))
               if 'quantity' in cur.cols else z3.BoolVal(False)]
        return out


class _FillTarget(MapLoopSpec):
    """for asset in current: if type(asset) != str: ...   (asset ids are strings: the body never fires) - target unchanged"""

    def __init__(self):
        self.t0 = None

    def havoc(self, L, env, names):
        c = ctx()
        self.t0 = _m(env['target_portfolio']).copy()
        return {'target_portfolio': SymMap(c.fresh('target2.dom', AKB), {f: c.fresh('target2.' + f, AKR) for f in self.t0.cols})}

    def scal(self, L, env, done):
        t = _m(env['target_portfolio'])
        t0 = self.t0 if self.t0 is not None else t
        return [('target-unchanged', z3.And(t.dom == t0.dom, *[t.cols[f] == t0.cols[f] for f in t0.cols if f in t.cols]))]


class _Diff(MapLoopSpec):
    """for asset in target.keys(): rebalance[asset] = {'quantity': target - current}"""

    def havoc(self, L, env, names):
        c = ctx()
        return {'rebalance_portfolio': SymMap(c.fresh('rebalance.dom', AKB), {'quantity': c.fresh('rebalance.quantity', AKR)})}

    def scal(self, L, env, done):
        return [('rebalance-has-exactly-the-processed-assets', _m(env['rebalance_portfolio']).dom == done)]

    def pd(self, L, env, k):
        r, t, cu = _m(env['rebalance_portfolio']), _m(env['target_portfolio']), _m(env['current_portfolio'])
        if 'quantity' not in r.cols:
            return [('difference', z3.BoolVal(False))]
        return [('rebalance-quantity-is-target-minus-current',
                 z3.Select(r.cols['quantity'], k) == z3.Select(t.cols['quantity'], k) - z3.Select(cu.cols['quantity'], k))]


class _Quiet(MapLoop):
    """cut loop of an EARLIER call: invariant assumed, nothing recorded"""

    def havoc(self, env, names, state=()):
        c = ctx()
        n = len(c.obs)
        out = super().havoc(env, names, state)
        del c.obs[n:]
        return out

    def preserved(self, env):
        raise heap.Abort()


def register_loops(quiet=False):
    a, b, d = _FillCurrent(), _FillTarget(), _Diff()
    cls = _Quiet if quiet else MapLoop
    heap.LOOPSPEC[L_FILL_CUR] = lambda lid, it, env: cls(lid, it, env, a)
    heap.LOOPSPEC[L_FILL_TGT] = lambda lid, it, env: cls(lid, it, env, b)
    heap.LOOPSPEC[L_DIFF] = lambda lid, it, env: cls(lid, it, env, d)


def unregister_loops():
    for k in (L_FILL_CUR, L_FILL_TGT, L_DIFF):
        heap.LOOPSPEC.pop(k, None)


TARGETF = z3.Function('SIZER_TARGET', R, K, R)


class Stubs:
    """broker / universe / alpha / sizer contracts seen by the PCM, in both modes, with ghost call logs"""

    def __init__(self, c, with_alpha=True):
        self.c = c
        # (market values that can net to exactly zero over two or three holdings: a dollar-neutral book is still a book)
        self.held = num_map(c, 'holdings', fields=REPORT, gen=lambda r: float(r.choice([-50, 50, 10, 100, -100, 250])), pgen=lambda r: r.random() < 0.5)
        self.alpha = num_map(c, 'alpha', gen=lambda r: r.choice([0.0, 0.25, 0.5, 1.0, -0.5, 0.123456, 0.333333]), pgen=lambda r: r.random() < 0.5)
        self.uni = UniverseStub(c)
        self.sizer_calls, self.alpha_calls, self.broker_calls = [], [], []
        S = self

        class Broker:
            def get_portfolio_as_dict(self, pid):
                S.broker_calls.append(pid)
                if c.mode == 'sym':
                    return S.held.copy()          # a fresh dictionary object each call, as the real broker returns
                return {k: dict(v) for k, v in S.held.items()}

            # the rest of the broker's read interface, consistent with the holdings report (C01/C02): a PCM may consult it
            def get_portfolio_total_market_value(self, pid):
                S.broker_calls.append(pid)
                if c.mode == 'sym':
                    return SymNum(heap.SUM(DOM(S.held), _m(S.held).cols['market_value']))
                return sum(v['market_value'] for v in S.held.values())

            def get_portfolio_cash_balance(self, pid):
                S.broker_calls.append(pid)
                return c.real('portfolio_cash', lambda r: r.choice([0.0, 1000.0, 25000.5]))

            def get_portfolio_total_equity(self, pid):
                return self.get_portfolio_cash_balance(pid) + self.get_portfolio_total_market_value(pid)

        class Alpha:
            def __call__(self, dt):
                S.alpha_calls.append(dt)
                return S.alpha

        class Sizer:
            """contract of both order sizers (C10/C11): keys = weight keys, whole-number quantities, zero weight -> zero"""

            def __call__(self, dt, weights):
                S.sizer_calls.append((dt, weights))
                if c.mode == 'sym':
                    wm = _m(weights)
                    k = z3.Const('__k', K)
                    q = z3.Lambda([k], z3.If(z3.Select(wm.cols[''], k) == 0, z3.RealVal(0), TARGETF(lift(dt), k)))
                    return SymMap(wm.dom, {'quantity': q})
                return {k: {'quantity': 0 if w == 0 else int(c.ceval(TARGETF(c.tterm(dt), c.keyterm(k)), lambda r: float(r.choice([-70, -5, 0, 10, 100, 250]))))}
                        for k, w in sorted(weights.items())}
        self.broker, self.alpha_model, self.sizer = Broker(), (Alpha() if with_alpha else None), Sizer()

    def held_(self, k):
        return HAS(self.held, k)

    def heldq(self, k):
        if self.c.mode == 'sym':
            return ITE(HAS(self.held, k), VAL(self.held, k, 'quantity'), 0.0)
        return self.held[k]['quantity'] if k in self.held else 0.0

    def alpha_(self, k):
        return HAS(self.alpha, k)

    def target(self, dt, k, weight):
        if self.c.mode == 'sym':
            return ITE(EQ(weight, 0), 0.0, SymNum(TARGETF(lift(dt), liftk(k))))
        return 0 if weight == 0 else int(self.c.ceval(TARGETF(self.c.tterm(dt), self.c.keyterm(k)), lambda r: 0.0))


def order_at(c, orders, w):
    """(present, quantity, created_dt, asset) of the order for asset w in the generated list"""
    if c.mode == 'sym':
        if isinstance(orders, list):
            return (False, 0.0, None, None) if not orders else (_ for _ in ()).throw(Unmodelled('concrete order list in sym mode'))
        o = orders.gelem(liftk(w))
        return SymBool(orders.member(liftk(w))), o.quantity, o.created_dt, o.asset
    hit = [o for o in orders if o.asset == w]
    if not hit:
        return False, 0.0, None, None
    return True, hit[0].quantity, hit[0].created_dt, hit[0].asset


@harness('PortfolioConstructionModel.__call__', props=['C09', 'C19', 'C18', 'C07', 'C08'], also=['C14'], layer='L3', functions=PCM_FUNCS)
def pcm_call(c):
    """one rebalance: weights and orders for exactly held + universe(dt) + alpha keys (zero where alpha is silent); the
       recorded allocation row is that full weight vector; the sizer gets exactly it; orders = target - current, none of
       zero quantity, one per asset in ascending asset order; unweighted holdings are fully liquidated"""
    w = c.key('w')
    c.key('w2')
    S = Stubs(c)
    dt = c.time('dt')
    pcm = PCM(S.broker, 'pid', S.uni, S.sizer, FixedWeightPortfolioOptimiser(), alpha_model=S.alpha_model)
    # the alpha model's dictionary belongs to the caller (a fixed-signals model hands out the SAME object at every rebalance)
    alpha0 = (S.alpha.dom, dict(S.alpha.cols)) if c.mode == 'sym' else dict(S.alpha)
    # an EARLIER rebalance of the same model at the same instant, when the holdings were different (orders filled in
    # between), must not influence this one
    held_now = S.held
    S.held = num_map(c, 'holdings_at_an_earlier_call', fields=REPORT, gen=lambda r: float(r.choice([-50, 10, 100])), pgen=lambda r: r.random() < 0.5)
    alpha_now = S.alpha
    if c.mode == 'conc':
        # ... natively also: the alpha model said something ELSE then (it weighted assets it is silent about now), and on
        # half of the runs the holdings - hence the full asset list - were the same as now
        if c.bool('alpha_said_something_else_at_the_earlier_call'):
            S.alpha = num_map(c, 'alpha_at_an_earlier_call', gen=lambda r: r.choice([0.25, 0.5, 1.0, -0.5]), pgen=lambda r: r.random() < 0.6)
        if c.bool('same_holdings_at_the_earlier_call'):
            S.held = held_now
    if c.mode == 'sym':
        register_loops(quiet=True)
    try:
        pcm(dt, stats={'target_allocations': []})
    finally:
        unregister_loops()
    S.held = held_now
    S.alpha = alpha_now
    del S.sizer_calls[:], S.alpha_calls[:], S.broker_calls[:], S.uni.queries[:]
    stats = {'target_allocations': []}
    if c.mode == 'sym':
        register_loops()
        D = heap.keylit('Date')
        heap.add_keyterm(D)
        # no asset is called 'Date' (the allocation row uses that key for the timestamp)
        c.assume(z3.And(liftk(w) != D, z3.Not(z3.Select(DOM(S.held), D)), z3.Not(z3.Select(DOM(S.alpha), D)), z3.Not(z3.Select(S.uni.dom_at(dt), D))))
        # contract of broker.get_portfolio_as_dict (C02): a reported holding has a non-zero whole-number quantity
        hq = S.held.cols['quantity']
        heap.add_universal(lambda k: z3.Implies(z3.Select(DOM(S.held), k), z3.Select(hq, k) != 0))
    try:
        orders = pcm(dt, stats=stats)
    finally:
        unregister_loops()
    if c.mode == 'sym':
        c.ob('alpha-weights-not-modified', z3.And(S.alpha.dom == alpha0[0], *[S.alpha.cols[f] == alpha0[1][f] for f in alpha0[1]]) if set(S.alpha.cols) == set(alpha0[1]) else False,
             props=['C09', 'C18', 'C19'])
    else:
        c.ob('alpha-weights-not-modified', S.alpha == alpha0, props=['C09', 'C18', 'C19'])
        S.alpha.clear()
        S.alpha.update(alpha0)           # (judge the rest against what the alpha model really said)
    inset = OR(S.held_(w), S.uni.member(w, dt), S.alpha_(w))
    weight = ITE(S.alpha_(w), VAL(S.alpha, w), 0.0) if c.mode == 'sym' else (S.alpha[w] if w in S.alpha else 0.0)
    # --- recorded allocation
    rows = stats['target_allocations']
    ok = len(rows) == 1
    c.ob('one-allocation-row-recorded', ok, props=['C09', 'C19', 'C18', 'C07', 'C08', 'C14'])
    if ok:
        row = rows[0]
        c.ob('allocation-row-dated-dt', EQ(VAL(row, 'Date'), dt), props=['C09', 'C19', 'C18', 'C07', 'C08', 'C14'])
        c.ob('allocation-row-covers-exactly-held-universe-and-alpha-assets', IFF(HAS(row, w), inset), props=['C09', 'C19', 'C14'])
        c.ob('allocation-row-weight-is-alpha-weight-else-zero', IMPLIES(inset, EQ(VAL(row, w), weight)), props=['C09', 'C19', 'C14'])
    # --- sizer argument
    ok = len(S.sizer_calls) == 1
    c.ob('sizer-called-exactly-once', ok)
    if ok:
        sdt, sw = S.sizer_calls[0]
        c.ob('sizer-called-at-dt-with-exactly-the-full-weights', AND(EQ(sdt, dt), IFF(HAS(sw, w), inset), IMPLIES(inset, EQ(VAL(sw, w), weight))), props=['C09', 'C07', 'C08'])
    c.ob('universe-and-alpha-queried-at-dt-only', AND(*[EQ(q, dt) for q in S.uni.queries + S.alpha_calls]), props=['C07', 'C19'])
    # --- orders
    tgt = ITE(inset, S.target(dt, w, weight), 0.0) if c.mode == 'sym' else (S.target(dt, w, weight) if inset else 0)
    cur = S.heldq(w)
    present, oq, odt, oasset = order_at(c, orders, w)
    c.ob('order-exists-iff-target-differs-from-holding', IFF(present, AND(inset, NE(tgt, cur))), props=['C09'])
    if c.mode == 'sym':
        c.ob('order-quantity-is-target-minus-current', IMPLIES(present, EQ(oq, tgt - cur)), props=['C09'])
        c.ob('order-created-at-dt-for-that-asset', IMPLIES(present, AND(EQ(odt, dt), EQ(oasset, w))), props=['C09'])
        c.ob('orders-in-ascending-asset-order-one-per-asset', getattr(orders, 'order', None) == 'asc', props=['C09', 'C18'])
    else:
        if present:
            c.ob('order-quantity-is-target-minus-current', EQ(oq, tgt - cur), props=['C09'])
            c.ob('order-created-at-dt-for-that-asset', AND(odt == dt, oasset == w), props=['C09'])
        names = [o.asset for o in orders]
        c.ob('orders-in-ascending-asset-order-one-per-asset', names == sorted(set(names)), props=['C09', 'C18'])
        c.ob('no-zero-quantity-order', all(o.quantity != 0 for o in orders), props=['C09'])
    c.ob('after-the-fill-holding-equals-target', EQ(cur + (oq if c.mode == 'conc' else ITE(present, oq, 0.0)), tgt) if c.mode == 'sym' else EQ(cur + (oq if present else 0), tgt), props=['C09'])
    c.ob('unweighted-holding-is-fully-liquidated',
         IMPLIES(AND(S.held_(w), NOT(S.alpha_(w))), AND(present, EQ(oq, -1 * cur))) if c.mode == 'sym'
         else ((not (w in S.held and w not in S.alpha and cur != 0)) or (present and oq == -cur)), props=['C09'])


canary('union replaced by the universe only', PCM, '_obtain_full_asset_list',
       'set(broker_assets).union(set(universe_assets))', 'set(universe_assets)')(pcm_call)
canary('zero-quantity orders emitted', PCM, '_generate_rebalance_orders', 'if rebalance_portfolio[asset]["quantity"] != 0', 'if True')(pcm_call)
canary('current minus target', PCM, '_generate_rebalance_orders', 'order_qty = target_qty - current_qty', 'order_qty = current_qty - target_qty')(pcm_call)
canary('orders not sorted', PCM, '_generate_rebalance_orders', 'sorted(\n                rebalance_portfolio.items(), key=lambda x: x[0]\n            )', 'rebalance_portfolio.items()')(pcm_call)
canary('allocation row from optimiser weights only', PCM, '__call__', 'alloc_dict.update(full_weights)', 'alloc_dict.update(optimised_weights)')(pcm_call)
canary('sizer called with alpha weights', PCM, '__call__', 'self._generate_target_portfolio(dt, full_weights)', 'self._generate_target_portfolio(dt, optimised_weights)')(pcm_call)


@harness('PortfolioConstructionModel.__call__(no alpha model)', props=['C09', 'C19'], layer='L3', functions=PCM_FUNCS)
def pcm_call_no_alpha(c):
    """without an alpha model every universe asset gets weight zero: every holding is liquidated, nothing is bought"""
    w = c.key('w')
    S = Stubs(c, with_alpha=False)
    dt = c.time('dt')
    pcm = PCM(S.broker, 'pid', S.uni, S.sizer, FixedWeightPortfolioOptimiser(), alpha_model=None)
    if c.mode == 'sym':
        register_loops()
        hq = S.held.cols['quantity']
        heap.add_universal(lambda k: z3.Implies(z3.Select(DOM(S.held), k), z3.Select(hq, k) != 0))
    try:
        orders = pcm(dt)
    finally:
        unregister_loops()
    cur = S.heldq(w)
    present, oq, odt, oasset = order_at(c, orders, w)
    c.ob('order-exists-iff-held', IFF(present, S.held_(w)))
    if c.mode == 'sym':
        c.ob('order-liquidates-the-holding', IMPLIES(present, EQ(oq, -1 * cur)))
    elif present:
        c.ob('order-liquidates-the-holding', EQ(oq, -1 * cur))
    ok = len(S.sizer_calls) == 1
    c.ob('sizer-called-exactly-once', ok)
    if ok:
        sdt, sw = S.sizer_calls[0]
        c.ob('every-weight-is-zero', IMPLIES(HAS(sw, w), EQ(VAL(sw, w), 0)))


@harness('PortfolioConstructionModel._generate_rebalance_orders', props=['C09', 'C18'], layer='L3', functions=PCM_FUNCS)
def pcm_orders(c):
    """for ARBITRARY target and current dictionaries: one order per target asset whose target differs from the current
       holding (0 when not held), quantity target - current, none of zero quantity, ascending asset order, created at dt.
       (Assets held but absent from the target get no order here - asset ids are strings, so the second fill-in loop of the
       function is dead code; liquidation is carried by the key union in __call__, see PortfolioConstructionModel.__call__)"""
    w = c.key('w')
    c.key('w2')
    tgt = num_map(c, 'target', fields=('quantity',), gen=lambda r: float(r.choice([-30, 0, 10, 100])), pgen=lambda r: r.random() < 0.6)
    cur = num_map(c, 'current', fields=REPORT, gen=lambda r: float(r.choice([-50, 10, 100, 250])), pgen=lambda r: r.random() < 0.5)
    dt = c.time('dt')
    pcm = PCM(None, 'pid', None, None, None)          # (the real constructor: it only stores its arguments)
    if c.mode == 'sym':
        register_loops()
    try:
        orders = pcm._generate_rebalance_orders(dt, tgt, cur)
    finally:
        unregister_loops()
    t = VAL(tgt, w, 'quantity')
    cu = ITE(HAS(cur, w), VAL(cur, w, 'quantity'), 0.0) if c.mode == 'sym' else (cur[w]['quantity'] if w in cur else 0.0)
    present, oq, odt, oasset = order_at(c, orders, w)
    c.ob('order-exists-iff-targeted-and-different-from-holding', IFF(present, AND(HAS(tgt, w), NE(t, cu))))
    if c.mode == 'sym':
        c.ob('order-quantity-is-target-minus-current', IMPLIES(present, EQ(oq, t - cu)))
        c.ob('order-created-at-dt-for-that-asset', IMPLIES(present, AND(EQ(odt, dt), EQ(oasset, w))))
        c.ob('orders-in-ascending-asset-order-one-per-asset', getattr(orders, 'order', None) == 'asc', props=['C09', 'C18'])
    else:
        if present:
            c.ob('order-quantity-is-target-minus-current', EQ(oq, t - cu))
        names = [o.asset for o in orders]
        c.ob('orders-in-ascending-asset-order-one-per-asset', names == sorted(set(names)), props=['C09', 'C18'])
        c.ob('no-zero-quantity-order', all(o.quantity != 0 for o in orders))
