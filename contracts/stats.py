"""C17, deductive part: the explicit high-water-mark loop of qstrader.statistics.performance.create_drawdowns.
(Everything after the loop is pandas and stays with the bounded stand-in bounded/c17_stats.py.)"""
import z3

from pyvc.run import harness, canary
from pyvc import heap
from pyvc.core import SymNum, SymBool, Abort, ctx, lift, R, B, EQ, AND, IMPLIES
from pyvc.heap import SymArr, SymIndex, SymRange, StopHere

import qstrader.statistics.performance as perf

RET = z3.Function('OBSERVATION', z3.IntSort(), R)          # the series of (cumulative) returns
RUNMAX = z3.Function('RUNNING_MAXIMUM', z3.IntSort(), R)   # ghost: max of observations 0..j, INCLUDING the first
LOOP = 'create_drawdowns#for range(1, len(_))#0'
LOOP_HOISTED = 'create_drawdowns#for range(1, _)#0'       # the same loop with the length bound to a local first


def runmax_def(j):
    """definition of the running maximum at j (unfolded by the engine where needed)"""
    return z3.If(j == 0, RUNMAX(j) == RET(j), RUNMAX(j) == z3.If(RUNMAX(j - 1) >= RET(j), RUNMAX(j - 1), RET(j)))


class _Series:
    class _ILoc:
        def __getitem__(self, i):
            return SymNum(RET(z3.ToInt(lift(i))))

    def __init__(self, n):
        self.index, self.iloc = SymIndex(n), self._ILoc()


class HwmLoop:
    """for t in range(1, n): hwm[t] = max(hwm[t-1], returns.iloc[t])
       invariant: 1 <= t <= n and hwm[j] is the running maximum (first observation included) for every j < t"""

    def __init__(self, G, lid, it, env):
        self.G, self.n = G, lift(it.hi)
        self.lo = lift(it.lo)
        self.arr = None

    def _name(self, env, state=None):
        """the ONE array the loop carries, whatever the code calls it"""
        if self.arr is None:
            cands = [n for n in (state if state else env) if isinstance(env.get(n), SymArr)]
            if len(cands) != 1:
                raise heap.Unmodelled('high-water-mark loop: expected exactly one carried array, found %s' % (cands,))
            self.arr = cands[0]
        return self.arr

    def inv(self, hwm, t, pts):
        return [z3.And(t >= 1, z3.ToReal(t) <= self.n)] + \
               [z3.Implies(z3.And(j >= 0, j < t), z3.Select(hwm.arr, j) == RUNMAX(j)) for j in pts]

    def havoc(self, env, names, state=()):
        c, G = ctx(), self.G
        a = self._name(env, state)
        heap.check_state(LOOP, state, (a,))
        c.assume(runmax_def(z3.IntVal(0)))
        c.assume(runmax_def(G.j0))
        if not bool(SymBool(self.lo == 1)):
            raise heap.Unmodelled('loop does not start at 1')
        for f in self.inv(env[self._name(env)], z3.IntVal(1), [G.j0, z3.IntVal(0)]):
            c.ob('#hwm-loop:init', f, kind='A')
        self.t = c.fresh('t', z3.IntSort())
        new = SymArr(c.fresh('hwm', z3.ArraySort(z3.IntSort(), R)), env[self._name(env)].n)
        return tuple(new if n == a else env.get(n) for n in names)

    def more(self, env):
        c = ctx()
        for f in self.inv(env[self._name(env)], self.t, [self.G.j0, self.t - 1, z3.IntVal(0)]):
            c.assume(f)
        d = c.decide(z3.ToReal(self.t) < self.n)
        if not d:
            c.assume(z3.ToReal(self.t) == self.n)
        return d

    def next(self, env):
        ctx().assume(runmax_def(self.t))               # ghost: definition of the running maximum at t
        return SymNum(z3.ToReal(self.t))

    def preserved(self, env):
        c = ctx()
        c.ob('#hwm-loop:kernel/high-water-mark-is-running-maximum-including-first-observation',
             z3.Select(env[self._name(env)].arr, self.t) == RUNMAX(self.t), kind='P')
        for f in self.inv(env[self._name(env)], self.t + 1, [self.G.j0, z3.IntVal(0)]):
            c.ob('#hwm-loop:preserved', f, kind='A')
        raise Abort()

    def exit(self, env, names):
        self.G.hwm = env[self._name(env)]
        return tuple(env.get(n) for n in names)


@harness('create_drawdowns.high_water_mark', props=['C17'], layer='L0', functions=['create_drawdowns'])
def hwm_loop(c):
    """for series of ANY length n >= 1: after the loop hwm[j] = max(observation[0..j]) for every j - the running maximum
       includes the FIRST observation (the defect F3 fixed in 2bee392 is exactly the failure of this loop's entry condition)"""
    G = type('G', (), {})()
    n = c._const('n_observations', z3.IntSort())
    c.assume(n >= 1)
    G.j0 = c._const('j', z3.IntSort())
    G.hwm = None
    heap.LOOPSPEC[LOOP] = heap.LOOPSPEC[LOOP_HOISTED] = lambda lid, it, env: HwmLoop(G, lid, it, env)
    try:
        try:
            perf.create_drawdowns(_Series(SymNum(z3.ToReal(n))))
            reached = False
        except StopHere:
            reached = True
    finally:
        heap.LOOPSPEC.pop(LOOP, None)
        heap.LOOPSPEC.pop(LOOP_HOISTED, None)
    c.ob('loop-completes-and-hands-over-to-the-vectorised-part', reached and G.hwm is not None, kind='A')
    if G.hwm is not None:
        j = G.j0
        c.ob('high-water-mark-is-running-maximum-including-first-observation',
             IMPLIES(z3.And(j >= 0, j < n), z3.Select(G.hwm.arr, j) == RUNMAX(j)))
        c.ob('high-water-mark-at-the-first-date-is-the-first-observation', z3.Select(G.hwm.arr, 0) == RET(0))


hwm_loop.harness.conc = False
canary('high-water mark seeded with zero (the original F3 defect)', perf, 'create_drawdowns', 'hwm[0] = returns.iloc[0]', 'pass')(hwm_loop)
canary('running minimum', perf, 'create_drawdowns', 'hwm[t] = max(hwm[t - 1], returns.iloc[t])', 'hwm[t] = min(hwm[t - 1], returns.iloc[t])')(hwm_loop)
canary('compares with the observation two back', perf, 'create_drawdowns', 'hwm[t] = max(hwm[t - 1], returns.iloc[t])', 'hwm[t] = max(hwm[t - 1], returns.iloc[t - 1])')(hwm_loop)
