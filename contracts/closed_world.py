"""Closed-world obligations (C01, C02, C15, C04): the object-invariant induction ("for every finite interleaving") needs that EVERY
function of qstrader/ that writes a protected field is under contract.  A syntactic scan of the current /repo source lists the writers;
each must be named in the `functions` list of some harness.  A writer that is not (new code that moves cash, say) makes the property
UNDECIDED (exit 2) - it is not by itself a violation."""
import ast
import os

from pyvc.run import harness, HARNESSES

PROTECTED = {'cash': 'C01', 'cash_balances': 'C01', 'history': 'C01', 'open_orders': 'C04', 'portfolios': 'C01', 'positions': 'C02',
             'buy_quantity': 'C02', 'sell_quantity': 'C02', 'avg_bought': 'C03', 'avg_sold': 'C03', 'buy_commission': 'C03',
             'sell_commission': 'C03', 'current_price': 'C02'}
MUTATORS = ('append', 'put', 'get', 'pop', 'clear', 'update', 'extend', 'insert', 'remove', 'popitem', 'setdefault')


def _writers():
    import qstrader
    root = os.path.dirname(qstrader.__file__)
    out = []
    for dp, dn, fn in os.walk(root):
        for f in fn:
            if not f.endswith('.py'):
                continue
            path = os.path.join(dp, f)
            tree = ast.parse(open(path).read())
            for cls in [n for n in ast.walk(tree) if isinstance(n, ast.ClassDef)]:
                for fd in [n for n in cls.body if isinstance(n, ast.FunctionDef)]:
                    for x in ast.walk(fd):
                        field = None
                        if isinstance(x, ast.Attribute) and isinstance(x.ctx, (ast.Store, ast.Del)) and x.attr in PROTECTED:
                            field = x.attr
                        elif isinstance(x, ast.Subscript) and isinstance(x.ctx, (ast.Store, ast.Del)) and isinstance(x.value, ast.Attribute) \
                                and x.value.attr in PROTECTED:
                            field = x.value.attr
                        elif isinstance(x, ast.Call) and isinstance(x.func, ast.Attribute) and x.func.attr in MUTATORS:
                            v = x.func.value
                            while isinstance(v, ast.Subscript):
                                v = v.value
                            if isinstance(v, ast.Attribute) and v.attr in PROTECTED:
                                field = v.attr
                        if field:
                            out.append(('%s.%s' % (cls.name, fd.name), field, os.path.relpath(path, root)))
    return sorted(set(out))


@harness('closed-world', props=['C01', 'C02', 'C03', 'C04', 'C15'], layer='L2', functions=[])
def closed_world(c):
    """every writer of a protected field (cash balances, histories, queues, positions and their accounting fields) is under contract"""
    covered = set()
    for h in HARNESSES.values():
        covered.update(h.functions)
    ws = _writers()
    c.ob('scan-found-the-known-writers', len(ws) >= 15, kind='A')
    for qual, field, path in ws:
        c.ob('%s-writes-%s-and-is-under-contract' % (qual, field), qual in covered, kind='A', props=sorted({PROTECTED[field], 'C15', 'C01'}))


closed_world.harness.conc = False
