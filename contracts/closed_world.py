"""Closed-world obligations (C01, C02, C15, C04): the object-invariant induction ("for every finite interleaving") needs that EVERY
function of qstrader/ that writes a protected field is under contract.  A syntactic scan of the current /repo source lists the writers;
each must be named in the `functions` list of some harness.  A writer that is not (new code that moves cash, say) makes the property
UNDECIDED (exit 2) - it is not by itself a violation."""
import ast
import os

from pyvc.run import harness, HARNESSES

PROTECTED = {'cash': 'C01', 'cash_balances': 'C01', 'history': 'C01', 'open_orders': 'C04', 'portfolios': 'C01', 'positions': 'C02',
             'buy_quantity': 'C02', 'sell_quantity': 'C02', 'avg_bought': 'C03', 'avg_sold': 'C03', 'buy_commission': 'C03',
             'sell_commission': 'C03', 'current_price': 'C02'}
MUTATORS = ('append', 'put', 'get', 'pop', 'clear', 'update', 'extend', 'insert', 'remove', 'popitem', 'setdefault')


def _writers():
    import qstrader
    root = os.path.dirname(qstrader.__file__)
    out = []
    for dp, dn, fn in os.walk(root):
        for f in fn:
            if not f.endswith('.py'):
                continue
            path = os.path.join(dp, f)
            tree = ast.parse(open(path).read())
            for cls in [n for n in ast.walk(tree) if isinstance(n, ast.ClassDef)]:
                for fd in [n for n in cls.body if isinstance(n, ast.FunctionDef)]:
                    for x in ast.walk(fd):
                        field = None
                        if isinstance(x, ast.Attribute) and isinstance(x.ctx, (ast.Store, ast.Del)) and x.attr in PROTECTED:
                            field = x.attr
                        elif isinstance(x, ast.Subscript) and isinstance(x.ctx, (ast.Store, ast.Del)) and isinstance(x.value, ast.Attribute) \
                                and x.value.attr in PROTECTED:
                            field = x.value.attr
                        elif isinstance(x, ast.Call) and isinstance(x.func, ast.Attribute) and x.func.attr in MUTATORS:
                            v = x.func.value
                            while isinstance(v, ast.Subscript):
                                v = v.value
                            if isinstance(v, ast.Attribute) and v.attr in PROTECTED:
                                field = v.attr
                        if field:
                            out.append(('%s.%s' % (cls.name, fd.name), field, os.path.relpath(path, root)))
    return sorted(set(out))


def _callers():
    """method name -> set of 'Class.func' that mention `.name` (attribute access / call) anywhere in qstrader/"""
    import qstrader
    root = os.path.dirname(qstrader.__file__)
    out = {}
    for dp, dn, fn in os.walk(root):
        for f in fn:
            if not f.endswith('.py'):
                continue
            tree = ast.parse(open(os.path.join(dp, f)).read())
            for cls in [n for n in ast.walk(tree) if isinstance(n, ast.ClassDef)]:
                for fd in [n for n in cls.body if isinstance(n, ast.FunctionDef)]:
                    for x in ast.walk(fd):
                        if isinstance(x, ast.Attribute):
                            out.setdefault(x.attr, set()).add('%s.%s' % (cls.name, fd.name))
            for fd in [n for n in tree.body if isinstance(n, ast.FunctionDef)]:
                for x in ast.walk(fd):
                    if isinstance(x, ast.Attribute):
                        out.setdefault(x.attr, set()).add(fd.name)
    return out


def _covered_with_helpers(covered, writers):
    """a PRIVATE helper whose every user is itself covered runs inline inside those functions' harnesses: covered too"""
    callers = _callers()
    cov = set(covered)
    changed = True
    while changed:
        changed = False
        for qual, field, path in writers:
            name = qual.split('.')[-1]
            if qual in cov or not name.startswith('_') or name.startswith('__'):
                continue
            users = callers.get(name, set()) - {qual}
            if users and users <= cov:
                cov.add(qual)
                changed = True
    return cov


@harness('closed-world', props=['C01', 'C02', 'C03', 'C04', 'C15'], layer='L2', functions=[])
def closed_world(c):
    """every writer of a protected field (cash balances, histories, queues, positions and their accounting fields) is under
       contract - directly, or as a private helper used only by functions under contract (it then runs inline in their harnesses)"""
    covered = set()
    for h in HARNESSES.values():
        covered.update(h.functions)
    ws = _writers()
    covered = _covered_with_helpers(covered, ws)
    c.ob('scan-found-the-known-writers', len(ws) >= 15, kind='A')
    for qual, field, path in ws:
        c.ob('%s-writes-%s-and-is-under-contract' % (qual, field), qual in covered, kind='A', props=sorted({PROTECTED[field], 'C15', 'C01'}))


closed_world.harness.conc = False


# ------------------------------------------------------------------------------------------ C07 / C18 scans
HISTORICAL = ('asset_bar_frames', 'asset_bid_ask_frames', 'get_assets_historical_closes', 'get_assets_historical_range_close_price')
NONDET_ALLOWED = {                       # (file, construct) pairs present on the verified tree, each argued in DESIGN 4 C18
    ('execution/order.py', 'uuid.uuid4'): 'order ids: opaque, flow only into Transaction.order_id and messages',
    ('data/daily_bar_csv.py', 'os.listdir'): 'file discovery order = dict order of frames, never iterated on the event path',
    ('portcon/pcm.py', 'set('): 'asset union, always passed through sorted() (PCM harness: orders ascending)',
    ('signals/signal.py', 'set('): 'set difference of new universe members (Signal.update_assets harness: set semantics only)',
}


def _scan_sources():
    import qstrader
    root = os.path.dirname(qstrader.__file__)
    for dp, dn, fn in os.walk(root):
        for f in fn:
            if f.endswith('.py'):
                path = os.path.join(dp, f)
                yield os.path.relpath(path, root), ast.parse(open(path).read())


@harness('closed-world-data-access', props=['C07', 'C18'], layer='L4', functions=[])
def closed_world_data(c):
    """C07: whole-history accessors (bar frames, historical closes) are referenced only inside the data modules - every
       price that reaches the event path goes through the point-in-time lookups; C18: the only sources of nondeterminism
       in qstrader/ are the listed ones (uuid for order ids, os.listdir, two set() uses), each covered by a contract"""
    found = set()
    for rel, tree in _scan_sources():
        for x in ast.walk(tree):
            name = x.attr if isinstance(x, ast.Attribute) else (x.id if isinstance(x, ast.Name) else None)
            if name in HISTORICAL and not rel.startswith('data/'):
                c.ob('historical-accessor-%s-not-used-outside-the-data-modules(%s)' % (name, rel), False, kind='A', props=['C07'])
            if isinstance(x, ast.Call):
                fn = x.func
                txt = ast.unparse(fn)
                for pat in ('uuid.uuid4', 'os.listdir', 'random.', 'np.random', 'time.time', 'datetime.now', 'datetime.datetime.now',
                            'datetime.utcnow', 'pd.Timestamp.now', 'hash', 'id', 'os.environ.get', 'glob.glob', 'os.walk', 'os.scandir'):
                    if txt == pat or (pat.endswith('.') and txt.startswith(pat)):
                        if not rel.startswith('statistics/') and not (pat == 'os.environ.get' and rel == 'trading/backtest.py'):
                            found.add((rel, pat))
                if isinstance(fn, ast.Name) and fn.id in ('set', 'frozenset') and not rel.startswith('statistics/'):
                    found.add((rel, 'set('))
            if isinstance(x, (ast.Set, ast.SetComp)) and not rel.startswith('statistics/'):
                found.add((rel, 'set('))
    c.ob('no-historical-accessor-on-the-event-path', True, kind='A', props=['C07'])
    for site in sorted(found):
        c.ob('nondeterminism-source-%s-in-%s-is-a-listed-one' % (site[1], site[0]), site in NONDET_ALLOWED, kind='A', props=['C18'])
    c.ob('scan-saw-the-listed-sources', set(NONDET_ALLOWED) <= found, kind='A', props=['C18'])


closed_world_data.harness.conc = False
