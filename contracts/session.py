"""L4 contracts: BacktestTradingSession.run (C14, C07, C16 cadence), QuantTradingSystem / ExecutionHandler wiring (C04, C08),
DailyBusinessDaySimulationEngine per-day event structure (C12)."""
import z3

from pyvc.run import harness, canary
from pyvc import heap, shims
from pyvc.core import (SymNum, SymBool, SymKey, SymTime, Abort, Unmodelled, ctx, lift, liftk, R, K, B, EQ, NE, LE, LT, GE, GT, AND, OR,
                       NOT, IMPLIES, IFF, DAYF, TODF)

from qstrader.trading.backtest import BacktestTradingSession
from qstrader.system.qts import QuantTradingSystem
from qstrader.execution.execution_handler import ExecutionHandler
from qstrader.execution.execution_algo.market_order import MarketOrderExecutionAlgorithm
from qstrader.simulation.daily_bday import DailyBusinessDaySimulationEngine
from qstrader.simulation.event import SimulationEvent

TYPES = ['pre_market', 'market_open', 'market_close', 'post_market']
INSCHED = z3.Function('IN_REBALANCE_SCHEDULE', R, B)
EQUITYF = z3.Function('ACCOUNT_EQUITY_AT_CALL', z3.IntSort(), R)


class SymEnum:
    """event_type: one of the four documented strings"""

    def __init__(self, t):
        self.t = t

    def __eq__(self, o):
        if isinstance(o, str):
            return SymBool(self.t == TYPES.index(o)) if o in TYPES else False
        return SymBool(self.t == o.t)

    def __ne__(self, o):
        r = self.__eq__(o)
        return SymBool(z3.Not(r.t)) if isinstance(r, SymBool) else (not r)

    __hash__ = None

    def __str__(self):
        return 'event'


class _Event:
    def __init__(self, ts, ty):
        self.ts, self.event_type = ts, ty


class _Clock:
    """the simulation engine seen by run(): an abstract sequence of events (C12 contract)"""

    def __vc_loop__(self):
        return self


class _Schedule:
    def __vc_in__(self, dt):
        return SymBool(INSCHED(lift(dt)))


class EventLoop:
    """for event in self.sim_engine: ONE arbitrary event; the ghost call trace of that iteration is the kernel"""

    def __init__(self, H, lid, it, env):
        self.H = H

    def havoc(self, env, names, state=()):
        heap.check_state(RUN_LOOP, state, ())
        return tuple(env.get(n) for n in names)

    def more(self, env):
        return ctx().decide(ctx().fresh('more_events', B))

    def next(self, env):
        c = ctx()
        ts, ty = c._const('event_ts', R), c._const('event_type', z3.IntSort())
        c.assume(z3.And(ty >= 0, ty <= 3))
        # the clock's own contract (C12): events lie between the start and the end of the end DAY
        c.assume(ts >= lift(self.H.start))
        self.H.trace.clear()
        self.H.ev = (ts, ty)
        self.H.open_iteration = True
        return _Event(SymTime(ts), SymEnum(ty))

    def preserved(self, env):
        self.H.open_iteration = False
        self.H.check_iteration()
        raise Abort()

    def exit(self, env, names):
        return tuple(env.get(n) for n in names)


RUN_LOOP = 'BacktestTradingSession.run#for self.sim_engine#0'


@harness('BacktestTradingSession.run', also=['C12', 'C19', 'C09'], props=['C14', 'C07', 'C16', 'C08'], layer='L4',
         functions=['BacktestTradingSession.run', 'BacktestTradingSession._is_rebalance_event', 'BacktestTradingSession._update_equity_curve'])
def session_run(c):
    """per clock event: broker.update(event time) first and exactly once; signals.update iff a signals collection is given
       and the event is a market close; portfolio construction iff the instant is in the schedule and not before burn-in;
       one equity point iff market close and not before burn-in, read AFTER the rebalance of that event; in that order"""
    H = type('H', (), {})()
    H.trace, H.c = [], c
    has_signals = bool(c.bool('signals_given'))
    has_burn = bool(c.bool('burn_in_given'))
    burn = c._const('burn_in', R)
    s = object.__new__(BacktestTradingSession)
    T = H.trace

    class Broker:
        def update(self, dt):
            T.append(('broker.update', lift(dt)))

        def get_account_total_equity(self):
            T.append(('broker.equity', None))
            return {'master': SymNum(EQUITYF(z3.IntVal(len(T))))}

        def __getattr__(self, name):
            # the rest of the broker API: callable, logged, answers an unrelated arbitrary number
            if name.startswith('__'):
                raise AttributeError(name)

            def other(*a, **k):
                T.append(('broker.other:' + name, None))
                return SymNum(c.fresh('broker_' + name, R))
            return other

    class Signals:
        def update(self, dt):
            T.append(('signals.update', lift(dt)))

    class Qts:
        def __call__(self, dt, stats=None):
            T.append(('qts', lift(dt), stats))

    class Curve(list):
        def append(self, x):
            T.append(('equity.append', lift(x[0]), lift(x[1])))

    H.start, H.open_iteration = c.time('start_dt'), False
    s.start_dt, s.end_dt = H.start, c.time('end_dt')
    s.universe = s.alpha_model = s.risk_model = None
    s.portfolio_id, s.long_only = '000001', False
    s.sim_engine, s.broker, s.qts = _Clock(), Broker(), Qts()
    s.signals = Signals() if has_signals else None
    s.burn_in_dt = SymTime(burn) if has_burn else None
    s.equity_curve, s.target_allocations = Curve(), []
    s.rebalance_schedule = _Schedule()

    def check_iteration():
        ts, ty = H.ev
        names = [t[0] for t in T]
        close = ty == 2
        burn_ok = (ts >= burn) if has_burn else z3.BoolVal(True)
        reb = z3.And(INSCHED(ts), burn_ok)

        def has(n):
            return z3.BoolVal(n in names)
        c.ob('broker-updated-first-and-exactly-once', names[:1] == ['broker.update'] and names.count('broker.update') == 1)
        c.ob('broker-updated-at-the-event-time', AND(*[t[1] == ts for t in T if t[0] == 'broker.update']), props=['C14', 'C07'])
        c.ob('signals-updated-iff-given-and-market-close', has('signals.update') == (close if has_signals else z3.BoolVal(False)), props=['C16', 'C14'])
        c.ob('signals-updated-at-the-event-time', AND(*[t[1] == ts for t in T if t[0] == 'signals.update']), props=['C16', 'C07'])
        c.ob('rebalance-iff-scheduled-and-not-before-burn-in', has('qts') == reb, props=['C14', 'C07', 'C16', 'C08', 'C19', 'C09'])
        c.ob('rebalance-at-the-event-time', AND(*[t[1] == ts for t in T if t[0] == 'qts']), props=['C14', 'C07'])
        c.ob('equity-point-iff-market-close-and-not-before-burn-in', has('equity.append') == z3.And(close, burn_ok))
        c.ob('equity-point-stamped-at-the-event-time', AND(*[t[1] == ts for t in T if t[0] == 'equity.append']))
        c.ob('at-most-once-each', all(names.count(n) <= 1 for n in ('qts', 'signals.update', 'equity.append', 'broker.equity')))
        order = ['broker.update', 'signals.update', 'qts', 'broker.equity', 'equity.append']
        others = [n for n in names if n not in order]
        c.ob('no-other-broker-call-in-the-loop', not others, kind='A')
        names = [n for n in names if n in order]
        c.ob('order-is-update-signals-rebalance-equity', names == sorted(names, key=order.index))
        eq_reads = [i for i, t in enumerate(T) if t[0] == 'broker.equity']
        apps = [t for t in T if t[0] == 'equity.append']
        if apps:
            c.ob('equity-point-is-account-master-equity-read-after-the-rebalance',
                 AND(len(eq_reads) == 1, *[a[2] == EQUITYF(z3.IntVal(eq_reads[0] + 1)) for a in apps]) if eq_reads else False)
        stats_objs = [t[2] for t in T if t[0] == 'qts']
        H.stats_seen.extend(stats_objs)
    H.check_iteration, H.stats_seen = check_iteration, []
    heap.LOOPSPEC[RUN_LOOP] = lambda lid, it, env: EventLoop(H, lid, it, env)
    try:
        s.run()
    finally:
        heap.LOOPSPEC.pop(RUN_LOOP, None)
    c.ob('allocations-collected-from-the-rebalances', isinstance(s.target_allocations, list) or hasattr(s.target_allocations, 'append'), kind='A')
    # the loop may only end when the clock is exhausted: an event left half-processed / skipped means the run stopped early
    c.ob('every-clock-event-is-processed', not H.open_iteration, props=['C14', 'C08', 'C12'])


session_run.harness.conc = False
canary('burn-in test strict for equity', BacktestTradingSession, 'run',
       'if dt >= self.burn_in_dt:\n                        self._update_equity_curve(dt)', 'if dt > self.burn_in_dt:\n                        self._update_equity_curve(dt)')(session_run)
canary('rebalance ignores burn-in', BacktestTradingSession, 'run',
       'if dt >= self.burn_in_dt:\n                    if self._is_rebalance_event(dt):', 'if True:\n                    if self._is_rebalance_event(dt):')(session_run)
canary('equity appended on market open too', BacktestTradingSession, 'run',
       'if event.event_type == "market_close":\n                if self.burn_in_dt', 'if event.event_type != "pre_market":\n                if self.burn_in_dt')(session_run)
canary('signals updated on every event', BacktestTradingSession, 'run',
       'if self.signals is not None and event.event_type == "market_close":', 'if self.signals is not None:')(session_run)
canary('run stops at the end timestamp instead of the end of the clock', BacktestTradingSession, 'run',
       '            dt = event.ts\n', '            dt = event.ts\n            if dt > self.end_dt:\n                break\n')(session_run)
canary('broker updated after the rebalance', BacktestTradingSession, 'run',
       '            self.broker.update(dt)\n', '            pass\n')(session_run)


# ------------------------------------------------------------------------------- QTS / execution handler
class OrderSeqLoop:
    """for order in final_orders: ONE arbitrary order of the list"""

    def __init__(self, H, lid, it, env):
        self.H = H

    def havoc(self, env, names, state=()):
        heap.check_state(EXEC_LOOP, state, ())
        return tuple(env.get(n) for n in names)

    def more(self, env):
        return ctx().decide(ctx().fresh('more_orders', B))

    def next(self, env):
        self.H.trace.clear()
        # an arbitrary order: any asset (inside or outside the universe of the day), any non-zero quantity
        c = ctx()
        self.H.cur = type('AnOrder', (), {'asset': SymKey(c.fresh('order_asset', K)), 'quantity': SymNum(c.fresh('order_quantity', R)),
                                          'created_dt': None, 'order_id': 'an-order'})()
        return self.H.cur

    def preserved(self, env):
        self.H.check()
        raise Abort()

    def exit(self, env, names):
        return tuple(env.get(n) for n in names)


class _Orders:
    def __vc_loop__(self):
        return self


EXEC_LOOP = 'ExecutionHandler.__call__#for _#0'


@harness('ExecutionHandler.__call__', props=['C04', 'C08', 'C07', 'C09'], layer='L3',
         functions=['ExecutionHandler.__init__', 'ExecutionHandler._apply_execution_algo_to_rebalances', 'ExecutionHandler.__call__',
                    'MarketOrderExecutionAlgorithm.__call__', 'QuantTradingSystem.__call__'])
def exec_handler(c):
    """every rebalance order is submitted exactly once, unchanged, to the configured portfolio, each followed by
       broker.update(dt); with submit_orders off nothing is submitted; the market-order algorithm passes orders through"""
    H = type('H', (), {})()
    H.trace = T = []
    submit = bool(c.bool('submit_orders'))
    dt = c.time('dt')
    pid = c.key('portfolio_id')

    class Broker:
        def submit_order(self, p, order):
            T.append(('submit', p, order))

        def update(self, d):
            T.append(('update', lift(d)))
    orders = _Orders()
    algo = MarketOrderExecutionAlgorithm()
    c.ob('market-order-algorithm-returns-the-orders-unchanged', algo(dt, orders) is orders, props=['C08', 'C04'])
    from .common import UniverseStub
    eh = ExecutionHandler(Broker(), pid, UniverseStub(c), submit_orders=submit, execution_algo=algo)

    def check():
        names = [t[0] for t in T]
        c.ob('one-submission-then-one-update-per-order', names == ['submit', 'update'])
        if names[:1] == ['submit']:
            c.ob('submitted-unchanged-to-the-configured-portfolio', AND(T[0][2] is H.cur, EQ(T[0][1], pid)))
        c.ob('broker-updated-at-dt', AND(*[t[1] == lift(dt) for t in T if t[0] == 'update']), props=['C07', 'C04'])
    H.check = check
    heap.LOOPSPEC[EXEC_LOOP] = lambda lid, it, env: OrderSeqLoop(H, lid, it, env)
    try:
        eh(dt, orders)
    finally:
        heap.LOOPSPEC.pop(EXEC_LOOP, None)
    if not submit:
        c.ob('nothing-submitted-when-submission-is-off', len(T) == 0)
    # QuantTradingSystem.__call__: PCM output goes to the execution handler unchanged, both at dt with the given stats
    calls = []
    q = object.__new__(QuantTradingSystem)
    sentinel, st = object(), {'target_allocations': []}
    q.portfolio_construction_model = lambda d, stats=None: (calls.append(('pcm', lift(d), stats)), sentinel)[1]
    q.execution_handler = lambda d, o: calls.append(('exec', lift(d), o))
    q(dt, stats=st)
    c.ob('qts-runs-construction-then-execution-on-its-orders-at-dt',
         AND(len(calls) == 2, calls[0][0] == 'pcm', calls[1][0] == 'exec', calls[1][2] is sentinel, calls[0][2] is st,
             calls[0][1] == lift(dt), calls[1][1] == lift(dt)), props=['C08', 'C14', 'C07'])


exec_handler.harness.conc = False
canary('last order not submitted', ExecutionHandler, '__call__', 'for order in final_orders:', 'for order in final_orders[:-1]:')(exec_handler)
canary('orders submitted to a fixed portfolio id', ExecutionHandler, '__call__', 'self.broker.submit_order(self.broker_portfolio_id, order)', 'self.broker.submit_order("000001", order)')(exec_handler)
canary('no broker update after submission', ExecutionHandler, '__call__', 'self.broker.update(dt)', 'pass')(exec_handler)


# ------------------------------------------------------------------------------------------- clock (C12)
class _Days:
    """self.business_days: an abstract strictly increasing sequence of business days (the pandas part is bounded, C12-B)"""

    enumerated = False

    def __vc_enumerate__(self):
        e = _Days()
        e.enumerated = True
        return e

    def __vc_loop__(self):
        return self


class DayLoop:
    def __init__(self, H, lid, it, env):
        self.H, self.enumerated = H, it.enumerated

    def havoc(self, env, names, state=()):
        heap.check_state(ITER_LOOP, state, ())
        return tuple(env.get(n) for n in names)

    def more(self, env):
        return ctx().decide(ctx().fresh('more_days', B))

    def next(self, env):
        c = ctx()
        d = c._const('business_day', z3.IntSort())
        c.assume(shims.CIVIL(shims.YF(d), shims.MF(d), shims.DF(d)) == d)      # civil-from-fields inverts the field accessors
        self.H.d = d
        if not self.enumerated:            # `for bday in self.business_days` - the same loop without the unused index
            return shims.SymDay(d)
        return (SymNum(z3.ToReal(c._const('index', z3.IntSort()))), shims.SymDay(d))

    def preserved(self, env):
        raise Abort()

    def exit(self, env, names):
        return tuple(env.get(n) for n in names)


ITER_LOOP = 'DailyBusinessDaySimulationEngine.__iter__#for enumerate(self.business_days)#0'
ITER_LOOP_PLAIN = 'DailyBusinessDaySimulationEngine.__iter__#for self.business_days#0'


@harness('DailyBusinessDaySimulationEngine.__iter__', props=['C12', 'C14'], layer='L4',
         functions=['DailyBusinessDaySimulationEngine.__init__', 'DailyBusinessDaySimulationEngine.__iter__', 'SimulationEvent.__init__'])
def clock_iter(c):
    """for an arbitrary business day d the engine yields exactly [pre_market@d 00:00]?, market_open@d 14:30,
       market_close@d 21:00, [post_market@d 23:59]? (UTC), strictly increasing within the day and before any later day"""
    H = type('H', (), {})()
    pre, post = bool(c.bool('pre_market')), bool(c.bool('post_market'))
    e = object.__new__(DailyBusinessDaySimulationEngine)
    e.pre_market, e.post_market, e.business_days = pre, post, _Days()
    heap.LOOPSPEC[ITER_LOOP] = heap.LOOPSPEC[ITER_LOOP_PLAIN] = lambda lid, it, env: DayLoop(H, lid, it, env)
    out, kind = [], 'exit'
    try:
        try:
            for ev in e:
                out.append(ev)
        except Abort:
            kind = 'day'
    finally:
        heap.LOOPSPEC.pop(ITER_LOOP, None)
        heap.LOOPSPEC.pop(ITER_LOOP_PLAIN, None)
    if kind != 'day':
        c.ob('no-event-without-a-business-day', len(out) == 0)
        return
    d = H.d
    exp = ([('pre_market', 0)] if pre else []) + [('market_open', 52200), ('market_close', 75600)] + ([('post_market', 86340)] if post else [])
    c.ob('event-types-and-order-follow-the-flags', [x.event_type for x in out] == [x[0] for x in exp])
    if len(out) == len(exp):
        c.ob('events-stamped-on-that-day-at-0000-1430-2100-2359-utc',
             AND(*[z3.And(DAYF(x.ts.t) == d, TODF(x.ts.t) == z3.RealVal(s), x.ts.t == z3.ToReal(d) * 86400 + s) for x, (_, s) in zip(out, exp)]))
        c.ob('strictly-increasing-within-the-day', AND(*[out[i].ts.t < out[i + 1].ts.t for i in range(len(out) - 1)]))
        d2 = c._const('a_later_business_day', z3.IntSort())
        c.ob('last-event-precedes-every-event-of-a-later-day', IMPLIES(d2 > d, out[-1].ts.t < z3.ToReal(d2) * 86400 + (0 if pre else 52200)))


clock_iter.harness.conc = False
canary('post-market stamped on the next day', DailyBusinessDaySimulationEngine, '__iter__',
       'datetime.datetime(year, month, day, 23, 59), tz=\'UTC\'', 'datetime.datetime(year, month, day + 1, 23, 59), tz=\'UTC\'')(clock_iter)
canary('open and close swapped', DailyBusinessDaySimulationEngine, '__iter__', 'event_type="market_open"', 'event_type="market_close"')(clock_iter)
canary('pre-market emitted when disabled', DailyBusinessDaySimulationEngine, '__iter__', 'if self.pre_market:', 'if True:')(clock_iter)
canary('close at 20:00', DailyBusinessDaySimulationEngine, '__iter__', 'day, 21, 00)', 'day, 20, 00)')(clock_iter)


@harness('DailyBusinessDaySimulationEngine.__init__', props=['C12'], layer='L4', functions=['DailyBusinessDaySimulationEngine.__init__'])
def clock_init(c):
    """an end earlier than the start is rejected with ValueError; otherwise the arguments are stored"""
    a, b = c.time('starting_day'), c.time('ending_day')
    saved = DailyBusinessDaySimulationEngine._generate_business_days
    DailyBusinessDaySimulationEngine._generate_business_days = lambda self: 'DAYS'
    try:
        try:
            e = DailyBusinessDaySimulationEngine(a, b, pre_market=False, post_market=True)
            r = 'ok'
        except ValueError:
            r = 'ValueError'
    finally:
        DailyBusinessDaySimulationEngine._generate_business_days = saved
    c.ob('rejected-iff-end-before-start', (r == 'ValueError') == bool(b < a))
    if r == 'ok':
        c.ob('arguments-stored', AND(EQ(e.starting_day, a), EQ(e.ending_day, b), e.pre_market is False, e.post_market is True, e.business_days == 'DAYS'))


canary('end equal to start rejected', DailyBusinessDaySimulationEngine, '__init__', 'if ending_day < starting_day:', 'if ending_day <= starting_day:')(clock_init)
