"""L0 contracts: qstrader.broker.portfolio.position.Position (C03, C02) and Transaction.

Pre-states range over EVERY state satisfying the class invariant PosInv (DESIGN App. A) - i.e. every sign pattern
reachable after any number of fills, no bound on the number of fills (object-invariant induction)."""
from pyvc.run import harness, canary
from pyvc.core import EQ, NE, LE, LT, GE, GT, AND, OR, NOT, IMPLIES, ITE, ABS, ctx

from qstrader.broker.portfolio.position import Position
from qstrader.broker.transaction.transaction import Transaction

POS_FUNCS = ['Position.__init__', 'Position.open_from_transaction', 'Position._check_set_dt', 'Position.direction',
             'Position.market_value', 'Position.avg_price', 'Position.net_quantity', 'Position.total_bought',
             'Position.total_sold', 'Position.net_total', 'Position.commission', 'Position.net_incl_commission',
             'Position.realised_pnl', 'Position.unrealised_pnl', 'Position.total_pnl', 'Position.update_current_price',
             'Position._transact_buy', 'Position._transact_sell', 'Position.transact', 'Transaction.__init__']


def sym_position(c, asset='A', pfx=''):
    """an arbitrary Position satisfying PosInv, built through the real constructor"""
    bq, sq = c.real(pfx + 'buy_quantity', lambda r: float(r.choice([0, 0, 1, 2, 5, 10, 100, 2.5]))), \
        c.real(pfx + 'sell_quantity', lambda r: float(r.choice([0, 0, 1, 3, 5, 10, 40, 0.5])))
    ab = c.real(pfx + 'avg_bought', lambda r: round(r.uniform(0.5, 300), r.choice([0, 2, 4])))
    as_ = c.real(pfx + 'avg_sold', lambda r: round(r.uniform(0.5, 300), r.choice([0, 2, 4])))
    bc = c.real(pfx + 'buy_commission', lambda r: round(r.uniform(0, 30), r.choice([0, 2, 4])))
    sc = c.real(pfx + 'sell_commission', lambda r: round(r.uniform(0, 30), r.choice([0, 2, 4])))
    cp = c.real(pfx + 'current_price', lambda r: round(r.uniform(0.5, 300), 2))
    t0 = c.time(pfx + 'current_dt')
    if c.mode == 'conc':
        # make the sampled state satisfy "empty side has zero average and commission"
        if bq == 0:
            ab = bc = 0.0
            c.values[pfx + 'avg_bought'] = c.values[pfx + 'buy_commission'] = 0.0
        if sq == 0:
            as_ = sc = 0.0
            c.values[pfx + 'avg_sold'] = c.values[pfx + 'sell_commission'] = 0.0
    c.assume(AND(GE(bq, 0), GE(sq, 0), GT(cp, 0),
                 IMPLIES(EQ(bq, 0), AND(EQ(ab, 0), EQ(bc, 0))), IMPLIES(EQ(sq, 0), AND(EQ(as_, 0), EQ(sc, 0))),
                 IMPLIES(GT(bq, 0), GT(ab, 0)), IMPLIES(GT(sq, 0), GT(as_, 0))))
    pos = Position(asset, cp, t0, bq, sq, ab, as_, bc, sc)
    pre = dict(bq=bq, sq=sq, ab=ab, as_=as_, bc=bc, sc=sc, cp=cp, t0=t0, Gb=ab * bq, Gs=as_ * sq)
    return pos, pre


def pnl_clauses(c, pos, Gb, Gs, bcomm, scomm, tag):
    """C03 clauses at one observation of a position whose fills have the given ledger (from the statement)."""
    bq, sq, cp = pos.buy_quantity, pos.sell_quantity, pos.current_price
    net = bq - sq
    mv = pos.market_value
    total, real, unreal = pos.total_pnl, pos.realised_pnl, pos.unrealised_pnl
    scale = ABS(Gb) + ABS(Gs) + ABS(mv) + ABS(bcomm) + ABS(scomm) if c.mode == 'conc' else 0.0
    c.ob(tag + 'net-quantity-is-buy-minus-sell', EQ(pos.net_quantity, net))
    c.ob(tag + 'market-value-is-price-times-net', EQ(mv, cp * net, scale))
    c.ob(tag + 'total-is-realised-plus-unrealised', EQ(total, real + unreal, scale))
    c.ob(tag + 'total-is-mv-minus-cashflow-minus-commission', EQ(total, mv - (Gb - Gs) - (bcomm + scomm), scale))
    # average cost including the OPEN side's commission
    if net > 0:
        avg = (Gb + bcomm) / bq
    elif net < 0:
        avg = (Gs - scomm) / sq
    else:
        avg = 0.0
    c.ob(tag + 'unrealised-is-price-minus-avgcost-times-net', EQ(unreal, (cp - avg) * net, scale))
    return dict(total=total, real=real, unreal=unreal, mv=mv, net=net)


@harness('Position.transact', props=['C03', 'C02'], layer='L0', functions=POS_FUNCS)
def position_transact(c):
    """Any position state, one more fill (q, p, commission), then every P&L figure against the fill ledger."""
    pos, s = sym_position(c)
    q = c.real('q', lambda r: float(r.choice([-150, -100, -40, -5, -1, -0.5, 1, 2, 7, 60, 100, 150, 2.5])))
    p = c.real('p', lambda r: round(r.uniform(0.5, 300), r.choice([0, 2, 3])))
    k = c.real('commission', lambda r: round(r.uniform(0, 25), r.choice([0, 2, 4])))
    t = c.time('txn_dt')
    c.assume(AND(NE(q, 0), GT(p, 0), GE(t, s['t0'])))
    # observe before (any cached figure must not survive the fill)
    pnl_clauses(c, pos, s['Gb'], s['Gs'], s['bc'], s['sc'], 'before/')
    frac = AND(GT(q, 0), LT(q, 1))
    region = 'fractional-buy-below-one-share'
    is_frac = bool(q > 0) and bool(q < 1)
    txn = Transaction('A', q, t, p, 'oid', commission=k)
    pos.transact(txn)
    buy = bool(q > 0)
    Gb2 = s['Gb'] + q * p if buy else s['Gb']
    Gs2 = s['Gs'] if buy else s['Gs'] - q * p
    bc2 = s['bc'] + k if buy else s['bc']
    sc2 = s['sc'] if buy else s['sc'] + k
    scale = ABS(Gb2) + ABS(Gs2) if c.mode == 'conc' else 0.0
    if is_frac:
        # input region 0 < q < 1 (a fraction of a share bought): one statement-level clause, kept apart so that the
        # finding is identified by its input region
        c.ob('[%s]/total-is-mv-minus-cashflow-minus-commission' % region,
             EQ(pos.total_pnl, pos.market_value - (Gb2 - Gs2) - (bc2 + sc2), scale), props=['C03'], region=region)
        return
    c.ob('net-quantity-adds-fill', EQ(pos.net_quantity, s['bq'] - s['sq'] + q))
    c.ob('avg-bought-times-qty-is-buy-consideration', EQ(pos.avg_bought * pos.buy_quantity, Gb2, scale))
    c.ob('avg-sold-times-qty-is-sell-consideration', EQ(pos.avg_sold * pos.sell_quantity, Gs2, scale))
    c.ob('commissions-accumulate-per-side', AND(EQ(pos.buy_commission, bc2), EQ(pos.sell_commission, sc2)))
    c.ob('price-is-fill-price', EQ(pos.current_price, p))
    c.ob('clock-is-fill-time', EQ(pos.current_dt, t))
    c.ob('quantities-stay-nonnegative', AND(GE(pos.buy_quantity, 0), GE(pos.sell_quantity, 0)), kind='A')
    pnl_clauses(c, pos, Gb2, Gs2, bc2, sc2, 'after/')


canary('commission pro-rated by the wrong side', Position, 'realised_pnl',
       '((self.sell_quantity / self.buy_quantity) * self.buy_commission)',
       '((self.buy_quantity / self.sell_quantity) * self.buy_commission)')(position_transact)
canary('average cost ignores new fill quantity', Position, '_transact_buy',
       ') / (self.buy_quantity + quantity)', ') / (self.buy_quantity + 1)')(position_transact)
canary('sell commission booked on buy side', Position, '_transact_sell',
       'self.sell_commission += commission', 'self.buy_commission += commission')(position_transact)


@harness('Position.update_current_price', props=['C03', 'C02'], layer='L0', functions=POS_FUNCS)
def position_mark(c):
    """Re-marking changes the price (and clock) only: realised P&L and quantities are untouched."""
    pos, s = sym_position(c)
    c.assume(NE(s['bq'], s['sq']))
    before = pnl_clauses(c, pos, s['Gb'], s['Gs'], s['bc'], s['sc'], 'before/')
    m = c.real('mark', lambda r: round(r.uniform(-5, 300), 2))
    t = c.time('mark_dt')
    untimed = bool(c.bool('mark_without_timestamp'))          # (the timestamp of a mark is optional)
    try:
        if untimed:
            pos.update_current_price(m)
        else:
            pos.update_current_price(m, t)
    except ValueError:
        c.ob('raises-only-if-nonpositive-or-earlier', OR(LE(m, 0), False if untimed else LT(t, s['t0'])))
        c.ob('unchanged-on-raise', AND(EQ(pos.current_price, s['cp']), EQ(pos.buy_quantity, s['bq']),
                                       EQ(pos.sell_quantity, s['sq']), EQ(pos.avg_bought, s['ab']),
                                       EQ(pos.avg_sold, s['as_']), EQ(pos.buy_commission, s['bc']),
                                       EQ(pos.sell_commission, s['sc'])), props=['C15', 'C03'])
        return
    c.ob('accepted-only-if-positive-and-not-earlier', AND(GT(m, 0), True if untimed else GE(t, s['t0'])))
    c.ob('price-is-mark', EQ(pos.current_price, m))
    c.ob('clock-is-mark-time', EQ(pos.current_dt, s['t0'] if untimed else t), kind='A')
    c.ob('quantities-averages-commissions-unchanged',
         AND(EQ(pos.buy_quantity, s['bq']), EQ(pos.sell_quantity, s['sq']), EQ(pos.avg_bought, s['ab']),
             EQ(pos.avg_sold, s['as_']), EQ(pos.buy_commission, s['bc']), EQ(pos.sell_commission, s['sc'])))
    after = pnl_clauses(c, pos, s['Gb'], s['Gs'], s['bc'], s['sc'], 'after/')
    scale = ABS(s['Gb']) + ABS(s['Gs']) if c.mode == 'conc' else 0.0
    c.ob('realised-unchanged-by-mark', EQ(after['real'], before['real'], scale))


canary('mark also resets the bought average', Position, 'update_current_price',
       'self.current_price = market_price', 'self.current_price = market_price; self.avg_bought = market_price')(position_mark)
canary('zero mark accepted', Position, 'update_current_price', 'market_price <= 0.0', 'market_price < 0.0')(position_mark)


@harness('Position.open_from_transaction', props=['C03', 'C02'], layer='L0', functions=POS_FUNCS)
def position_open(c):
    """Opening establishes PosInv with the fill as the whole ledger."""
    q = c.real('q', lambda r: float(r.choice([-150, -40, -1, -0.5, 0.5, 1, 7, 100])))
    p = c.real('p', lambda r: r.choice([0.0, round(r.uniform(0.5, 300), 2), round(r.uniform(0.5, 300), 2)]))
    k = c.real('commission', lambda r: round(r.uniform(0, 25), 2))
    t = c.time('txn_dt')
    c.assume(AND(NE(q, 0), GE(p, 0)))              # (an opening fill may be at price zero: nothing checks it)
    pos = Position.open_from_transaction(Transaction('A', q, t, p, 'oid', commission=k))
    buy = bool(q > 0)
    c.ob('sides', AND(EQ(pos.buy_quantity, q if buy else 0), EQ(pos.sell_quantity, 0 if buy else -q)))
    c.ob('averages', AND(EQ(pos.avg_bought, p if buy else 0), EQ(pos.avg_sold, 0 if buy else p)))
    c.ob('commissions', AND(EQ(pos.buy_commission, k if buy else 0), EQ(pos.sell_commission, 0 if buy else k)))
    c.ob('price-clock-asset', AND(EQ(pos.current_price, p), EQ(pos.current_dt, t), pos.asset == 'A'))
    c.ob('net-quantity-is-fill', EQ(pos.net_quantity, q))
    Gb, Gs = (q * p, 0.0) if buy else (0.0, -q * p)
    pnl_clauses(c, pos, Gb, Gs, k if buy else 0.0, 0.0 if buy else k, 'opened/')


canary('short opened with positive sell side sign lost', Position, 'open_from_transaction',
       'sell_quantity = -1.0 * transaction.quantity', 'sell_quantity = transaction.quantity')(position_open)
