"""L1 contracts: PositionHandler and Portfolio over a REGION of positions (C01, C02, C03, C15).

`PortfolioSpec` is the contract object of the Portfolio class: an abstract state (cash, clock, held, qty, price,
position clocks, appended events) with one functional contract per public method (raise condition -> documented
exception type and protected state unchanged; otherwise the state update demanded by the property statements).
The SAME object is (1) what the real methods are verified against here and (2) the stub that SimulatedBroker is
verified over at L2 (contracts/broker.py)."""
import collections

import z3

from pyvc.run import harness, canary
from pyvc import heap
from pyvc.core import (EQ, NE, LE, LT, GE, GT, AND, OR, NOT, IMPLIES, IFF, ITE, ABS, ROUND2, ISINT, SymNum, SymTime,
                       SymKey, SymBool, Unmodelled, lift, liftk, tobool, ctx, R, K, B)
from pyvc.heap import AKB, AKR, Region, add_universal, add_keyterm
from .common import HAS, VAL, lemma

from qstrader.broker.portfolio.portfolio import Portfolio
from qstrader.broker.portfolio.position_handler import PositionHandler
from qstrader.broker.portfolio.position import Position
from qstrader.broker.portfolio.portfolio_event import PortfolioEvent
from qstrader.broker.transaction.transaction import Transaction

POSF = collections.OrderedDict([('buy_quantity', 'num'), ('sell_quantity', 'num'), ('avg_bought', 'num'),
                                ('avg_sold', 'num'), ('buy_commission', 'num'), ('sell_commission', 'num'),
                                ('current_price', 'num'), ('current_dt', 'time')])
ACCT = ['buy_quantity', 'sell_quantity', 'avg_bought', 'avg_sold', 'buy_commission', 'sell_commission']

PF_FUNCS = ['Portfolio.__init__', 'Portfolio._initialise_portfolio_with_cash', 'Portfolio.total_market_value',
            'Portfolio.total_equity', 'Portfolio.total_unrealised_pnl', 'Portfolio.total_realised_pnl', 'Portfolio.total_pnl',
            'Portfolio.subscribe_funds', 'Portfolio.withdraw_funds', 'Portfolio.transact_asset', 'Portfolio.portfolio_to_dict',
            'Portfolio.update_market_value_of_asset', 'PositionHandler.__init__', 'PositionHandler.transact_position',
            'PositionHandler.total_market_value', 'PositionHandler.total_unrealised_pnl', 'PositionHandler.total_realised_pnl',
            'PositionHandler.total_pnl', 'PortfolioEvent.__init__', 'PortfolioEvent.create_subscription',
            'PortfolioEvent.create_withdrawal', 'Position.open_from_transaction', 'Position.transact',
            'Position.update_current_price', 'Position._check_set_dt', 'Transaction.__init__']

Event = collections.namedtuple('Event', 'type dt debit credit balance')


# =================================================================================== the contract object
class PortfolioSpec:
    """Abstract portfolio (DESIGN App. A, PortfolioView).  Fields are terms (sym) or Python values (conc):
         cash, clock : numbers;   held : key -> bool;  qty, price, pclk : key -> number  (given as accessor objects)
       Mutators follow the PROPERTY statements (C01, C02, C15), not the code's statement order."""

    def __init__(self, mode, cash, clock, held, qty, price, pclk):
        self.mode = mode
        self.cash, self.clock = cash, clock
        self.held, self.qty, self.price, self.pclk = held, qty, price, pclk      # KeyFn objects
        self.events = []

    # ---- documented refusals: condition -> exception type ; protected state unchanged ----------------
    def _refuse(self, cond, exc):
        """contract of a refusal: raises `exc`, protected state (cash, holdings, history) unchanged, clocks unspecified"""
        if cond:
            raise exc('refused (contract)')

    def subscribe_funds(self, dt, amount):
        self._refuse(OR_(dt < self.clock, amount < 0.0), ValueError)
        self.clock = dt
        self.cash = self.cash + amount
        self.events.append(Event('subscription', dt, 0.0, ROUND2(amount), ROUND2(self.cash)))

    def withdraw_funds(self, dt, amount):
        self._refuse(OR_(dt < self.clock, amount < 0, amount > self.cash), ValueError)
        self.clock = dt
        self.cash = self.cash - amount
        self.events.append(Event('withdrawal', dt, ROUND2(amount), 0.0, ROUND2(self.cash)))

    def transact_asset(self, asset, quantity, dt, price, commission):
        """one fill: cash -= price*quantity + commission (exactly once); holdings += quantity; mark = fill price"""
        if self.mode == 'sym':
            self._refuse(OR_(dt < self.clock, AND_(self.held(asset), dt < self.pclk(asset))), ValueError)
        else:
            self._refuse(dt < self.clock or (bool(self.held(asset)) and dt < self.pclk(asset)), ValueError)
        self.clock = dt
        total = price * quantity + commission
        newq = self.qty(asset) + quantity
        self.qty = self.qty.store(asset, newq)
        self.held = self.held.store(asset, newq != 0)
        self.price = self.price.store(asset, price)
        self.pclk = self.pclk.store(asset, dt)
        self.cash = self.cash - total
        if quantity > 0:
            self.events.append(Event('asset_transaction', dt, ROUND2(total), 0.0, ROUND2(self.cash)))
        else:
            self.events.append(Event('asset_transaction', dt, 0.0, -1.0 * ROUND2(total), ROUND2(self.cash)))

    def update_market_value_of_asset(self, asset, price, dt):
        """a mark: only the price (and the position clock) of a HELD asset changes; not held -> nothing happens"""
        if not self.held(asset):
            return
        self._refuse(OR_(price < 0.0, dt < self.clock, dt < self.pclk(asset), price <= 0.0), ValueError)
        self.price = self.price.store(asset, price)
        self.pclk = self.pclk.store(asset, dt)


def OR_(*xs):
    """disjunction that forks at most once (a single decision on the whole condition)"""
    if any(isinstance(x, (SymBool, z3.ExprRef)) for x in xs):
        return SymBool(z3.Or(*[tobool(x) for x in xs]))
    return any(bool(x) for x in xs)


def AND_(*xs):
    if any(isinstance(x, (SymBool, z3.ExprRef)) for x in xs):
        return SymBool(z3.And(*[tobool(x) for x in xs]))
    return all(bool(x) for x in xs)


class KeyFn:
    """key -> value function in both modes: z3 array (sym) or dict with default (conc)"""

    def __init__(self, mode, store, default=0.0, boolean=False):
        self.mode, self.s, self.default, self.boolean = mode, store, default, boolean

    def __call__(self, k):
        if self.mode == 'sym':
            t = z3.Select(self.s, liftk(k))
            return SymBool(t) if self.boolean else SymNum(t)
        return self.s.get(k, self.default)

    def store(self, k, v):
        if self.mode == 'sym':
            return KeyFn('sym', z3.Store(self.s, liftk(k), tobool(v) if self.boolean else lift(v)), self.default, self.boolean)
        d = dict(self.s)
        d[k] = bool(v) if self.boolean else v
        return KeyFn('conc', d, self.default, self.boolean)


# ============================================================================ concrete <-> abstract (L1)
class Positions:
    """the positions dictionary of one portfolio in both modes + field access for clauses"""

    def __init__(self, c, name='pos'):
        self.c, self.name = c, name
        if c.mode == 'sym':
            self.d = Region(Position, name, POSF, keyfield='asset')
            r = self.d
            # PosInv for every position kept by the handler (instantiated by the engine at every key of interest)
            add_universal(lambda k, r=r: z3.Implies(z3.Select(r.dom, k), self._posinv(lambda f: z3.Select(r.f[f], k))))
        else:
            import pandas as pd
            self.d = collections.OrderedDict()
            for k in c.conc_keys():
                kt = c.keyterm(k)
                if c.ceval(z3.Select(z3.Const(name + '.dom', AKB), kt), lambda r: r.random() < 0.6, bool):
                    g = {}
                    side = c.rng.choice(['long', 'short', 'both']) if c.rng else None
                    for f in POSF:
                        gen = {'buy_quantity': lambda r: float(r.choice([0, 10, 100, 150])) if side != 'short' else 0.0,
                               'sell_quantity': lambda r: float(r.choice([0, 5, 40, 60])) if side != 'long' else 0.0,
                               'avg_bought': lambda r: round(r.uniform(1, 200), 2), 'avg_sold': lambda r: round(r.uniform(1, 200), 2),
                               'buy_commission': lambda r: round(r.uniform(0, 9), 2), 'sell_commission': lambda r: round(r.uniform(0, 9), 2),
                               'current_price': lambda r: round(r.uniform(1, 200), 2),
                               'current_dt': lambda r: 1577836800 + r.randint(0, 40) * 21600}[f]
                        g[f] = c.ceval(z3.Select(z3.Const('%s.%s' % (name, f), AKR), kt), gen)
                    if g['buy_quantity'] == 0:
                        g['avg_bought'] = g['buy_commission'] = 0.0
                    if g['sell_quantity'] == 0:
                        g['avg_sold'] = g['sell_commission'] = 0.0
                    c.assume(self._posinv_conc(g))
                    self.d[k] = Position(k, g['current_price'], pd.Timestamp(float(g['current_dt']), unit='s', tz='UTC'),
                                         g['buy_quantity'], g['sell_quantity'], g['avg_bought'], g['avg_sold'],
                                         g['buy_commission'], g['sell_commission'])

    @staticmethod
    def _posinv(g):
        bq, sq = g('buy_quantity'), g('sell_quantity')
        return z3.And(bq >= 0, sq >= 0, bq != sq, g('current_price') > 0,
                      g('buy_commission') >= 0, g('sell_commission') >= 0,
                      z3.Implies(bq == 0, z3.And(g('avg_bought') == 0, g('buy_commission') == 0)),
                      z3.Implies(sq == 0, z3.And(g('avg_sold') == 0, g('sell_commission') == 0)),
                      z3.Implies(bq > 0, g('avg_bought') > 0), z3.Implies(sq > 0, g('avg_sold') > 0))

    @staticmethod
    def _posinv_conc(g):
        return (g['buy_quantity'] >= 0 and g['sell_quantity'] >= 0 and g['buy_quantity'] != g['sell_quantity']
                and g['current_price'] > 0)

    def snapshot(self):
        if self.c.mode == 'sym':
            dom, f = self.d.snapshot()
            return Snap('sym', dom, f)
        return Snap('conc', None, {k: {f: getattr(p, f) for f in POSF} for k, p in self.d.items()})

    def handler(self):
        # built by the real constructor, then given an arbitrary book: state the class invariant does not know of (an
        # attribute added to __init__) is not arbitrary here, so whatever depends on it is undecided rather than proved
        ph = PositionHandler()
        _known_state(ph, {'positions'}, 'PositionHandler')
        ph.positions = self.d
        return ph


class Snap:
    """immutable snapshot of a positions dictionary: held(k), field(f, k), derived qty/price"""

    def __init__(self, mode, dom, f):
        self.mode, self.dom, self.f = mode, dom, f

    def held(self, k):
        if self.mode == 'sym':
            return z3.Select(self.dom, liftk(k))
        return k in self.f

    def field(self, f, k):
        if self.mode == 'sym':
            t = z3.Select(self.f[f], liftk(k))
            return SymTime(t) if POSF[f] == 'time' else SymNum(t)
        return self.f[k][f] if k in self.f else 0.0

    def qty(self, k):
        if self.mode == 'sym':
            return ITE(self.held(k), self.field('buy_quantity', k) - self.field('sell_quantity', k), 0.0)
        return (self.f[k]['buy_quantity'] - self.f[k]['sell_quantity']) if k in self.f else 0.0

    def same_position(self, other, k, fields=None):
        """position k is bit-for-bit as in `other` (presence and every accounting field)"""
        fs = fields or list(POSF)
        if self.mode == 'sym':
            return z3.And(self.held(k) == other.held(k),
                          z3.Implies(self.held(k), z3.And(*[lift(self.field(f, k)) == lift(other.field(f, k)) for f in fs])))
        if (k in self.f) != (k in other.f):
            return False
        return k not in self.f or all(EQ(self.f[k][f], other.f[k][f]) for f in fs)

    def to_spec_fns(self):
        if self.mode == 'sym':
            k = z3.Const('__k', K)
            qty = z3.Lambda([k], z3.If(z3.Select(self.dom, k), z3.Select(self.f['buy_quantity'], k) - z3.Select(self.f['sell_quantity'], k), 0))
            return (KeyFn('sym', self.dom, boolean=True), KeyFn('sym', qty), KeyFn('sym', self.f['current_price']),
                    KeyFn('sym', self.f['current_dt']))
        return (KeyFn('conc', {k: True for k in self.f}, False, True),
                KeyFn('conc', {k: v['buy_quantity'] - v['sell_quantity'] for k, v in self.f.items()}),
                KeyFn('conc', {k: v['current_price'] for k, v in self.f.items()}),
                KeyFn('conc', {k: v['current_dt'] for k, v in self.f.items()}))


def _known_state(obj, known, what):
    extra = sorted(set(vars(obj)) - set(known))
    if extra and ctx() is not None and ctx().mode == 'sym':
        raise Unmodelled('%s carries state outside its class invariant: %s' % (what, ', '.join(extra)))


PF_STATE = {'start_dt', 'current_dt', 'starting_cash', 'currency', 'portfolio_id', 'name', 'pos_handler', 'history', 'logger', 'cash'}


def make_portfolio(c, name='pf'):
    """an arbitrary Portfolio satisfying PfInv: the real object from the real constructor, then arbitrary content"""
    P = Positions(c, name + '.pos')
    clock = c.time(name + '.clock')
    with heap._quiet():
        pf = Portfolio(clock, starting_cash=0.0, currency='USD', portfolio_id='pid', name='n')
    _known_state(pf, PF_STATE, 'Portfolio')
    pf.cash = c.real(name + '.cash', lambda r: round(r.uniform(-5000, 200000), 2))
    pf.current_dt = clock
    pf.pos_handler = P.handler()
    pf.history = []
    return pf, P


def abstract(c, pf, snap):
    held, qty, price, pclk = snap.to_spec_fns()
    return PortfolioSpec(c.mode, pf.cash, pf.current_dt, held, qty, price, pclk)


def events_equal(c, real_events, spec_events):
    if len(real_events) != len(spec_events):
        return False
    out = []
    for r, s in zip(real_events, spec_events):
        out.append(AND(r.type == s.type, EQ(r.dt, s.dt), EQ(r.debit, s.debit), EQ(r.credit, s.credit), EQ(r.balance, s.balance)))
    return AND(*out) if out else True


def run_both(c, real_call, spec_call):
    """outcome of the real method and of its contract on the same pre-state"""
    try:
        real_call()
        ro = 'ok'
    except (ValueError, KeyError, TypeError) as e:
        ro = type(e).__name__
    try:
        spec_call()
        so = 'ok'
    except (ValueError, KeyError, TypeError) as e:
        so = type(e).__name__
    return ro, so


def protected_unchanged(c, pf, P, pre_cash, snap0, keys, tag, props=('C15',)):
    """C15: cash, every holding (presence and all accounting fields incl. mark price) and the history are as before"""
    snap1 = P.snapshot()
    c.ob(tag + 'cash-unchanged', EQ(pf.cash, pre_cash), props=sorted(set(props) | {'C01'}))
    c.ob(tag + 'history-unchanged', len(pf.history) == 0, props=sorted(set(props) | {'C01'}))
    for nm, k in keys:
        c.ob(tag + 'holdings-unchanged(%s)' % nm, snap1.same_position(snap0, k, ACCT + ['current_price']), props=list(props))


# ========================================================================================= harnesses
@harness('Portfolio.subscribe_funds', props=['C01', 'C15'], layer='L1', functions=PF_FUNCS)
def pf_subscribe(c):
    """credit: cash += amount, one 'subscription' event (credit and balance rounded to cents), holdings untouched;
       negative amount / earlier timestamp -> ValueError and nothing changes"""
    w = c.key('w')
    pf, P = make_portfolio(c)
    cash0, snap0 = pf.cash, P.snapshot()
    spec = abstract(c, pf, snap0)
    dt, amount = c.time('dt'), c.real('amount', lambda r: round(r.uniform(-50, 5000), r.choice([0, 2, 3])))
    ro, so = run_both(c, lambda: pf.subscribe_funds(dt, amount), lambda: spec.subscribe_funds(dt, amount))
    c.ob('refused-iff-negative-or-earlier/type-ValueError', ro == so)
    if ro != 'ok':
        protected_unchanged(c, pf, P, cash0, snap0, [('w', w)], 'unchanged-on-raise/')
        return
    c.ob('cash-credited-exactly', EQ(pf.cash, cash0 + amount), props=['C01'])
    c.ob('clock-advanced', EQ(pf.current_dt, dt), kind='A')
    c.ob('history-one-subscription-event-rounded', events_equal(c, pf.history, spec.events), props=['C01'])
    c.ob('holdings-untouched', P.snapshot().same_position(snap0, w), props=['C01', 'C02'])


canary('subscription credited twice', Portfolio, 'subscribe_funds', 'self.cash += amount', 'self.cash += amount + amount')(pf_subscribe)
canary('subscription event carries a wrong balance', Portfolio, 'subscribe_funds',
       'create_subscription(self.current_dt, amount, self.cash)', 'create_subscription(self.current_dt, amount, self.cash + 0.01)')(pf_subscribe)
canary('credit before the negative-amount check', Portfolio, 'subscribe_funds',
       'self.current_dt = dt\n', 'self.current_dt = dt\n        self.cash += amount; self.cash -= amount; self.history.append(None) if amount < 0 else None\n')(pf_subscribe)


@harness('Portfolio.withdraw_funds', props=['C01', 'C15'], layer='L1', functions=PF_FUNCS)
def pf_withdraw(c):
    """debit: cash -= amount, one 'withdrawal' event; negative / more than cash / earlier -> ValueError, nothing changes"""
    w = c.key('w')
    pf, P = make_portfolio(c)
    cash0, snap0 = pf.cash, P.snapshot()
    spec = abstract(c, pf, snap0)
    dt, amount = c.time('dt'), c.real('amount', lambda r: round(r.uniform(-50, 250000), r.choice([0, 2, 3])))
    ro, so = run_both(c, lambda: pf.withdraw_funds(dt, amount), lambda: spec.withdraw_funds(dt, amount))
    c.ob('refused-iff-negative-or-overdraft-or-earlier/type-ValueError', ro == so)
    if ro != 'ok':
        protected_unchanged(c, pf, P, cash0, snap0, [('w', w)], 'unchanged-on-raise/')
        return
    c.ob('cash-debited-exactly', EQ(pf.cash, cash0 - amount), props=['C01'])
    c.ob('no-overdraft', GE(pf.cash, 0) if c.mode == 'conc' else IMPLIES(GE(cash0, 0), GE(pf.cash, 0)), props=['C01'])
    c.ob('history-one-withdrawal-event-rounded', events_equal(c, pf.history, spec.events), props=['C01'])
    c.ob('holdings-untouched', P.snapshot().same_position(snap0, w), props=['C01', 'C02'])


canary('overdraft check uses >=', Portfolio, 'withdraw_funds', 'if amount > self.cash:', 'if amount >= self.cash:')(pf_withdraw)
canary('withdrawal rounds the cash itself', Portfolio, 'withdraw_funds', 'self.cash -= amount', 'self.cash = round(self.cash - amount, 2)')(pf_withdraw)


@harness('Portfolio.transact_asset', props=['C01', 'C02', 'C03', 'C15'], also=['C05'], layer='L1', functions=PF_FUNCS)
def pf_transact(c):
    """one fill through Portfolio -> PositionHandler -> Position (inline): cash, holdings, mark, history, frame;
       timestamp earlier than the clock -> ValueError and nothing changes"""
    a, w = c.key('a'), c.key('w')
    pf, P = make_portfolio(c)
    cash0, snap0 = pf.cash, P.snapshot()
    spec = abstract(c, pf, snap0)
    # whole-share fills: |q| >= 1 (covers every non-zero integer quantity; integrality itself is not needed)
    q = c.real('q', lambda r: float(r.choice([-150, -100, -60, -40, -10, -1, 1, 5, 10, 40, 50, 100, 150])))
    p = c.real('p', lambda r: round(r.uniform(0.5, 250), r.choice([0, 2, 3])))
    k = c.real('commission', lambda r: round(r.uniform(0, 20), r.choice([0, 2, 4])))
    dt = c.time('dt')
    c.assume(AND(OR(GE(q, 1), LE(q, -1)), GT(p, 0), GE(k, 0), NE(a, w)))
    txn = Transaction(a, q, dt, p, 'oid', commission=k)
    ro, so = run_both(c, lambda: pf.transact_asset(txn), lambda: spec.transact_asset(a, q, dt, p, k))
    site = {}
    if ro != 'ok' and ro == so:
        # which refusal?  (identifies the raise site for known-findings matching)
        early = bool(dt < spec_pre_clock(c))
        site = {'raise_site': 'Portfolio.transact_asset:dt-before-portfolio-clock' if early else 'Position._check_set_dt:dt-before-position-clock'}
    c.ob('refused-iff-earlier-than-clock/type-ValueError', ro == so)
    if ro != 'ok':
        tag = 'unchanged-on-raise@%s/' % site.get('raise_site', ro)
        snap1 = P.snapshot()
        c.ob(tag + 'cash-unchanged', EQ(pf.cash, cash0), props=['C15'], **site)
        c.ob(tag + 'history-unchanged', len(pf.history) == 0, props=['C15'], **site)
        c.ob(tag + 'holdings-unchanged(a)', snap1.same_position(snap0, a, ACCT + ['current_price']), props=['C15', 'C02'], **site)
        c.ob(tag + 'holdings-unchanged(w)', snap1.same_position(snap0, w, ACCT + ['current_price']), props=['C15', 'C02'], **site)
        return
    snap1 = P.snapshot()
    total = p * q + k
    c.ob('cash-debited-once-by-price-times-qty-plus-commission', EQ(pf.cash, cash0 - total), props=['C01', 'C05'])
    c.ob('cash-is-not-rounded', EQ(pf.cash, spec.cash), props=['C01'])
    c.ob('history-one-fill-event-rounded-amount-and-balance', events_equal(c, pf.history, spec.events), props=['C01'])
    c.ob('quantity-adds-fill', EQ(snap1.qty(a), snap0.qty(a) + q), props=['C02'])
    c.ob('held-iff-net-nonzero', IFF(snap1.held(a), NE(snap1.qty(a), 0)), props=['C02'])
    c.ob('mark-is-fill-price', IMPLIES(snap1.held(a), EQ(snap1.field('current_price', a), p)), props=['C02'])
    c.ob('position-clock-is-fill-time', IMPLIES(snap1.held(a), EQ(snap1.field('current_dt', a), dt)), kind='A')
    c.ob('frame-other-assets-untouched', snap1.same_position(snap0, w), props=['C02', 'C01'])
    c.ob('clock-advanced', EQ(pf.current_dt, dt), kind='A')
    if c.mode == 'sym':
        c.ob('PosInv-preserved', IMPLIES(snap1.held(a), Positions._posinv(lambda f: lift(snap1.field(f, a)))), kind='A')
    # the refinement of the contract object used by L2
    c.ob('contract-refined/held-qty-price', AND(IFF(snap1.held(a), tobool_(spec.held(a))), EQ(snap1.qty(a), spec.qty(a)),
                                                 IMPLIES(snap1.held(a), EQ(snap1.field('current_price', a), spec.price(a)))), kind='A',
         props=['C02', 'C03', 'C04', 'C15'])         # (holdings side of the refinement; the cash side is the C01 clauses above)
    # C03 at portfolio level: a position that is (still) open reconciles to its own ledger
    if bool(snap1.held(a)) if c.mode == 'conc' else bool(SymBool(snap1.held(a))):
        pos = pf.pos_handler.positions[a]
        held0 = snap0.held(a)
        Gb0 = snap0.field('avg_bought', a) * snap0.field('buy_quantity', a)
        Gs0 = snap0.field('avg_sold', a) * snap0.field('sell_quantity', a)
        z = 0.0
        Gb0, Gs0 = ITE(held0, Gb0, z), ITE(held0, Gs0, z)
        bc0, sc0 = ITE(held0, snap0.field('buy_commission', a), z), ITE(held0, snap0.field('sell_commission', a), z)
        buy = bool(q > 0)
        Gb1, Gs1 = (Gb0 + q * p, Gs0) if buy else (Gb0, Gs0 - q * p)
        bc1, sc1 = (bc0 + k, sc0) if buy else (bc0, sc0 + k)
        scale = ABS(Gb1) + ABS(Gs1) if c.mode == 'conc' else 0.0
        c.ob('pnl/total-is-mv-minus-cashflow-minus-commission',
             EQ(pos.total_pnl, pos.market_value - (Gb1 - Gs1) - (bc1 + sc1), scale), props=['C03'])
        c.ob('pnl/total-is-realised-plus-unrealised', EQ(pos.total_pnl, pos.realised_pnl + pos.unrealised_pnl, scale), props=['C03'])


def tobool_(x):
    return x.t if isinstance(x, SymBool) else x


def spec_pre_clock(c):
    return c.time('pf.clock')


canary('commission not charged on sells', Portfolio, 'transact_asset',
       'txn_total_cost = txn_share_cost + txn.commission', 'txn_total_cost = txn_share_cost + (txn.commission if txn.quantity > 0 else 0.0)')(pf_transact)
canary('cash rounded to cents after a fill', Portfolio, 'transact_asset', 'self.cash -= txn_total_cost', 'self.cash = round(self.cash - txn_total_cost, 2)')(pf_transact)
canary('sell credit sign lost', Portfolio, 'transact_asset', 'credit=-1.0 * round(txn_total_cost, 2)', 'credit=round(txn_total_cost, 2)')(pf_transact)
canary('position deleted when buy side is empty', PositionHandler, 'transact_position',
       'if self.positions[asset].net_quantity == 0:', 'if self.positions[asset].buy_quantity == 0:')(pf_transact)
canary('flip through zero re-opens from the whole fill', PositionHandler, 'transact_position',
       'self.positions[asset].transact(transaction)',
       'self.positions[asset].transact(transaction) if (self.positions[asset].net_quantity + transaction.quantity) * self.positions[asset].net_quantity >= 0 else self.positions.__setitem__(asset, Position.open_from_transaction(transaction))')(pf_transact)


@harness('Portfolio.update_market_value_of_asset', props=['C02', 'C01', 'C15'], layer='L1', functions=PF_FUNCS)
def pf_mark(c):
    """a mark changes only the price of the marked held asset; negative price / earlier time -> ValueError, no change"""
    a, w = c.key('a'), c.key('w')
    pf, P = make_portfolio(c)
    cash0, snap0 = pf.cash, P.snapshot()
    spec = abstract(c, pf, snap0)
    m = c.real('mark', lambda r: round(r.uniform(-3, 250), 2))
    dt = c.time('dt')
    c.assume(NE(a, w))
    zero_mark = 'zero-price-mark'
    ro, so = run_both(c, lambda: pf.update_market_value_of_asset(a, m, dt), lambda: spec.update_market_value_of_asset(a, m, dt))
    c.ob('refused-iff-negative-or-earlier/type-ValueError', ro == so)
    snap1 = P.snapshot()
    c.ob('cash-and-history-untouched', AND(EQ(pf.cash, cash0), len(pf.history) == 0), props=['C01', 'C15'])
    c.ob('frame-other-assets-untouched', snap1.same_position(snap0, w), props=['C02', 'C15'])
    if ro != 'ok':
        c.ob('unchanged-on-raise/holdings-unchanged(a)', snap1.same_position(snap0, a, ACCT + ['current_price']), props=['C15'])
        # a NEGATIVE mark (the refusal the statement names) is turned away by the portfolio before the holding is touched at all:
        # not even the holding's last-mark time moves (a later valid mark would otherwise be refused as stale)
        c.ob('unchanged-on-raise/negative-mark-leaves-the-last-mark-time(a)',
             IMPLIES(AND(LT(m, 0), snap0.held(a)), EQ(snap1.field('current_dt', a), snap0.field('current_dt', a))), props=['C15'])
        return
    c.ob('quantities-and-accounting-untouched', snap1.same_position(snap0, a, ACCT), props=['C02', 'C03'])
    c.ob('held-asset-marked-at-price', IMPLIES(snap0.held(a), EQ(snap1.field('current_price', a), m)), props=['C02'])
    c.ob('portfolio-clock-untouched', EQ(pf.current_dt, c.time('pf.clock')), kind='A')


canary('mark earlier than the portfolio clock applied', Portfolio, 'update_market_value_of_asset', 'if current_dt < self.current_dt:', 'if False:')(pf_mark)
canary('mark changes the quantity', Position, 'update_current_price', 'self.current_price = market_price',
       'self.current_price = market_price; self.buy_quantity += 0 if market_price > 1 else 1')(pf_mark)


class _ToDictLoop(heap.MapLoopSpec):
    """for asset, pos in positions.items(): holdings[asset] = {figures of pos}
       invariant: holdings has exactly the processed assets, each with the position's own figures"""
    FIELDS = ['quantity', 'market_value', 'unrealised_pnl', 'realised_pnl', 'total_pnl']

    def __init__(self, region):
        self.r = region

    def havoc(self, L, env, names):
        c = ctx()
        return {'holdings': heap.SymMap(c.fresh('holdings.dom', AKB), {f: c.fresh('holdings.' + f, AKR) for f in self.FIELDS})}

    def _h(self, env):
        h = env['holdings']
        return h._sym() if isinstance(h, heap.LazyDict) else h

    def scal(self, L, env, done):
        return [('holdings-has-exactly-the-processed-assets', self._h(env).dom == done)]

    def pd(self, L, env, k):
        h = self._h(env)
        fig = position_figures(self.r, k)
        return [('holdings[%s]-is-the-position-figure' % f,
                 z3.Select(h.cols[f], k) == lift(fig[f]) if f in h.cols else z3.BoolVal(False)) for f in self.FIELDS]


def _todict_kernel(self, L, env, k):
    # the PCM (C09) reads holdings through this report: every held asset is listed with its net quantity
    return [(n, f, {'props': ['C02', 'C01', 'C03', 'C09']} if n.startswith('holdings[quantity]') else {}) for n, f in self.pd(L, env, k)]


_ToDictLoop.kernel = _todict_kernel

_PNLF = {n: z3.Function('POSITION_' + n.upper(), *([R] * 7 + [R])) for n in ('unrealised_pnl', 'realised_pnl', 'total_pnl')}


class pnl_by_contract:
    """Modular step: inside L1 valuation the three P&L properties of Position are replaced by their contract as seen
    from outside - pure functions of the position's seven accounting fields (their formulas are verified at L0)."""

    def __enter__(self):
        self.saved = {n: Position.__dict__[n] for n in _PNLF}
        for n, F in _PNLF.items():
            def getter(self, F=F):
                return SymNum(F(*[lift(getattr(self, f)) for f in ACCT + ['current_price']]))
            setattr(Position, n, property(getter))
        return self

    def __exit__(self, *a):
        for n, v in self.saved.items():
            setattr(Position, n, v)


def position_figures(region, k):
    """the five reported figures of position k (P&L figures by contract, see pnl_by_contract)"""
    v = region.view(k)
    return {'quantity': v.net_quantity, 'market_value': v.market_value, 'unrealised_pnl': v.unrealised_pnl,
            'realised_pnl': v.realised_pnl, 'total_pnl': v.total_pnl}


TODICT_LOOP = 'Portfolio.portfolio_to_dict#for self.pos_handler.positions.items()#0'


@harness('Portfolio.valuation', props=['C02', 'C01', 'C03'], also=['C09'], layer='L1', functions=PF_FUNCS)
def pf_values(c):
    """market value = SUM over held assets of quantity x latest price; equity = cash + market value; holdings report
       has exactly the held assets with their net quantity; the P&L totals are SUMs of the per-position figures"""
    w = c.key('w')
    c.key('w2')
    pf, P = make_portfolio(c)
    cash0, snap0 = pf.cash, P.snapshot()
    if c.mode == 'sym':
        spec = _ToDictLoop(P.d)
        heap.LOOPSPEC[TODICT_LOOP] = lambda lid, it, env: heap.MapLoop(lid, it, env, spec)
        with pnl_by_contract():
            _pf_values_body(c, pf, P, cash0, snap0, w)
    else:
        _pf_values_body(c, pf, P, cash0, snap0, w)


def _pf_values_body(c, pf, P, cash0, snap0, w):
    mv, eq = pf.total_market_value, pf.total_equity
    d = pf.portfolio_to_dict()
    snap1 = P.snapshot()
    c.ob('getters-change-nothing', AND(EQ(pf.cash, cash0), len(pf.history) == 0, snap1.same_position(snap0, w)), props=['C01', 'C02', 'C15'])
    c.ob('equity-is-cash-plus-market-value', EQ(eq, mv + cash0), props=['C02'])
    c.ob('report-has-exactly-the-held-assets', IFF(HAS(d, w), snap0.held(w)), props=['C02'])
    c.ob('report-quantity-is-net-of-fills', IMPLIES(snap0.held(w), EQ(VAL(d, w, 'quantity'), snap0.qty(w))), props=['C02'])
    c.ob('report-market-value-is-price-times-quantity',
         IMPLIES(snap0.held(w), EQ(VAL(d, w, 'market_value'), snap0.field('current_price', w) * snap0.qty(w))), props=['C02'])
    if c.mode == 'sym':
        k = z3.Const('__k', K)
        r = P.d
        want = heap.SUM(snap0.dom, z3.Lambda([k], z3.Select(snap0.f['current_price'], k) * (z3.Select(snap0.f['buy_quantity'], k) - z3.Select(snap0.f['sell_quantity'], k))))
        c.ob('market-value-is-sum-of-price-times-net-quantity', lift(mv) == want, props=['C02'])
        fw = position_figures(r, liftk(w))
        c.ob('report-pnl-figures-are-the-position-figures',
             IMPLIES(snap0.held(w), AND(EQ(VAL(d, w, 'total_pnl'), fw['total_pnl']),
                                        EQ(VAL(d, w, 'unrealised_pnl'), fw['unrealised_pnl']),
                                        EQ(VAL(d, w, 'realised_pnl'), fw['realised_pnl']))), props=['C03'])
        tp = heap.SUM(snap0.dom, z3.Lambda([k], lift(position_figures(r, k)['total_pnl'])))
        c.ob('portfolio-total-pnl-is-sum-of-position-pnl', lift(pf.total_pnl) == tp, props=['C03'])
        up = heap.SUM(snap0.dom, z3.Lambda([k], lift(position_figures(r, k)['unrealised_pnl'])))
        c.ob('portfolio-unrealised-pnl-is-sum', lift(pf.total_unrealised_pnl) == up, props=['C03'])
        rp = heap.SUM(snap0.dom, z3.Lambda([k], lift(position_figures(r, k)['realised_pnl'])))
        c.ob('portfolio-realised-pnl-is-sum', lift(pf.total_realised_pnl) == rp, props=['C03'])
    else:
        want = sum(v['current_price'] * (v['buy_quantity'] - v['sell_quantity']) for v in snap0.f.values())
        c.ob('market-value-is-sum-of-price-times-net-quantity', EQ(mv, want, abs(want)), props=['C02'])
        c.ob('portfolio-total-pnl-is-sum-of-position-pnl', EQ(pf.total_pnl, sum(p.total_pnl for p in P.d.values())), props=['C03'])


canary('equity omits cash', Portfolio, 'total_equity', 'return self.total_market_value + self.cash', 'return self.total_market_value')(pf_values)
canary('report quantity is the buy side', Portfolio, 'portfolio_to_dict', '"quantity": pos.net_quantity', '"quantity": pos.buy_quantity')(pf_values)
canary('market value from buy side only', PositionHandler, 'total_market_value', 'pos.market_value', 'pos.current_price * pos.buy_quantity')(pf_values)


@harness('Portfolio.__init__', props=['C01', 'C02'], layer='L1', functions=PF_FUNCS)
def pf_init(c):
    """a new portfolio: cash = starting cash, one subscription event iff starting cash > 0, no holdings"""
    t = c.time('start')
    sc = c.real('starting_cash', lambda r: r.choice([0.0, 0.0, 1000.0, 2500.555]))
    c.assume(GE(sc, 0))
    pf = Portfolio(t, starting_cash=sc, portfolio_id='pid')
    c.ob('cash-is-starting-cash', EQ(pf.cash, sc))
    want = [Event('subscription', t, 0.0, ROUND2(sc), ROUND2(sc))] if bool(sc > 0) else []
    c.ob('history-starts-with-the-initial-subscription-only', events_equal(c, pf.history, want))
    c.ob('no-holdings', len(pf.pos_handler.positions) == 0, props=['C02'])
    c.ob('clock-is-start', EQ(pf.current_dt, t), kind='A')
    c.ob('market-value-zero-equity-is-cash', AND(EQ(pf.total_market_value, 0), EQ(pf.total_equity, sc)), props=['C02'])
