"""Concrete twin of contracts/world.py: a REAL SimulatedBroker (real Portfolio, Position, queue.Queue, Order objects)
built from a counter-model or from a random generator, with the same accessor API, so that the broker clauses are
evaluated natively on the unmodified code (replay / bounded run-time check of the same contracts)."""
import copy
import queue

import z3

from pyvc.core import Reject, EQ, AND, K, R, B
from . import world as SW
from .portfolio import Event

CURRENCIES = SW.CURRENCIES


def _ts(x):
    import pandas as pd
    return pd.Timestamp(float(x), unit='s', tz='UTC')


def _tsec(t):
    return float(t.timestamp())


class RealWorld:
    mode = 'conc'

    def __init__(self, c, pids, assets, name='br'):
        from qstrader.broker.simulated_broker import SimulatedBroker
        from qstrader.broker.portfolio.portfolio import Portfolio
        from qstrader.broker.portfolio.position import Position
        from qstrader.broker.fee_model.fee_model import FeeModel
        from qstrader.execution.order import Order
        self.c, self.name = c, name
        self.pids, self.assets = list(dict.fromkeys(pids)), list(dict.fromkeys(assets))
        self.fills, self.queries, self.fee_calls, self.marks = [], [], [], []
        W = self
        now = c.time('br.now')
        start = c.time('br.start')

        class DH:
            def _q(self, kind, F, N, dt, asset, gen):
                W.queries.append((kind, dt, asset))
                t, a = c.tterm(dt), c.keyterm(asset) if asset in c.keyorder else z3.IntVal(-1)
                if c.ceval(N(t, a), lambda r: False, bool):
                    return float('nan')
                return c.ceval(F(t, a), gen)

            def get_asset_latest_bid_ask_price(self, dt, asset):
                W.queries.append(('bid_ask', dt, asset))
                t, a = c.tterm(dt), c.keyterm(asset)
                bid = float('nan') if c.ceval(SW.BIDNAN(t, a), lambda r: False, bool) else c.ceval(SW.BIDF(t, a), lambda r: round(r.uniform(5, 200), 2))
                ask = float('nan') if c.ceval(SW.ASKNAN(t, a), lambda r: False, bool) else c.ceval(SW.ASKF(t, a), lambda r: round(bid * r.choice([1.0, 1.01, 1.002]), 2) if bid == bid else 1.0)
                return (bid, ask)

            def get_asset_latest_mid_price(self, dt, asset):
                W.queries.append(('mid', dt, asset))
                t, a = c.tterm(dt), c.keyterm(asset)
                if c.ceval(SW.MIDNAN(t, a), lambda r: False, bool):
                    return float('nan')
                return c.ceval(SW.MIDF(t, a), lambda r: round(r.uniform(5, 200), 2) if r.random() < 0.97 else -1.0)

        class EX:
            def is_open_at_datetime(self, dt):
                return bool(c.ceval(SW.OPENF(c.tterm(dt)), lambda r: r.random() < 0.6, bool))

        class Fee(FeeModel):
            def _calc_commission(self, *a, **k):
                return 0.0

            def _calc_tax(self, *a, **k):
                return 0.0

            def calc_total_cost(self, asset, quantity, consideration, broker=None):
                W.fee_calls.append((asset, quantity, consideration))
                return c.ceval(SW.FEEF(c.keyterm(asset), z3.RealVal(repr(float(quantity))), z3.RealVal(repr(float(consideration)))),
                               lambda r: round(0.0015 * abs(consideration), 6))

        b = SimulatedBroker(start, EX(), DH(), account_id='acct', fee_model=Fee())
        b.current_dt = now
        for cur in CURRENCIES:
            b.cash_balances[cur] = c.real('%s.master.%s' % (name, cur), lambda r: round(r.uniform(0, 50000), 2))
        A = lambda n, s: z3.Const('%s.%s' % (name, n), s)
        for p in self.pids:
            pt = c.keyterm(p)
            exists = c.ceval(z3.Select(A('pdom', SW.AKB), pt), lambda r: r.random() < 0.8, bool)
            hasq = c.ceval(z3.Select(A('qdom', SW.AKB), pt), lambda r: exists, bool)
            if exists != hasq:
                raise Reject('BrInv: portfolio without queue')
            if not exists:
                continue
            clk = c.ceval(z3.Select(A('clock', SW.AKR), pt), lambda r: _tsec(now) - r.choice([0, 0, 3600, 86400, -3600]))
            pf = Portfolio(_ts(clk), portfolio_id=p)
            pf.cash = c.ceval(z3.Select(A('cash', SW.AKR), pt), lambda r: round(r.uniform(-1000, 90000), 2))
            for a in self.assets:
                at = c.keyterm(a)
                held = c.ceval(z3.Select(z3.Select(A('held', SW.AKAB), pt), at), lambda r: r.random() < 0.5, bool)
                q = c.ceval(z3.Select(z3.Select(A('qty', SW.AKA), pt), at), lambda r: float(r.choice([-60, -5, 10, 100, 250])))
                if held != (q != 0):
                    raise Reject('PfInv: held <=> qty != 0')
                if not held:
                    continue
                price = c.ceval(z3.Select(z3.Select(A('price', SW.AKA), pt), at), lambda r: round(r.uniform(5, 200), 2))
                pclk = c.ceval(z3.Select(z3.Select(A('pclk', SW.AKA), pt), at), lambda r: clk - r.choice([0, 0, 3600, -1800]))
                if price <= 0:
                    raise Reject('PfInv: positive mark')
                pos = Position(a, price, _ts(pclk), q if q > 0 else 0.0, -q if q < 0 else 0.0, price if q > 0 else 0.0,
                               price if q < 0 else 0.0, 0.0, 0.0)
                pf.pos_handler.positions[a] = pos
            b.portfolios[p] = pf
            qu = queue.Queue()
            qterm = z3.Select(A('queue', SW.AKS), pt)
            n = c.ceval(z3.Length(qterm), lambda r: r.choice([0, 0, 1, 2, 3]), int)
            for i in range(int(n)):
                o = qterm[i]
                oq = c.ceval(SW.O_QTY(o), lambda r: float(r.choice([-50, -10, -3, 5, 20, 70])))
                oa_i = c.ceval(SW.O_ASSET(o), lambda r: c.keyorder[r.choice(self.assets)], int)
                oa = next((k for k, v in c.keyorder.items() if v == oa_i and k in self.assets), None)
                if getattr(c, 'model', None) is not None and self.assets:
                    # replay of a counter-model: asset and size of a queued order the refutation does not depend on are left open by
                    # the solver (model completion gives 0 / an undeclared key); any order satisfying BrInv completes the input - the
                    # native run on the real broker, not the model, is what a reported violation rests on
                    if oa is None:
                        oa = self.assets[0]
                        c.values['term:' + str(SW.O_ASSET(o))] = c.keyorder[oa]
                    if oq == 0:
                        oq = 1.0
                        c.values['term:' + str(SW.O_QTY(o))] = oq
                if oa is None or oq == 0:
                    raise Reject('order on an undeclared asset')
                qu.put(Order(_ts(clk), oa, oq))
            b.open_orders[p] = qu
        # ghost logs through instance-level wrappers (no library edit)
        for p, pf in b.portfolios.items():
            self._tap(p, pf)
        self.b = b
        self._orig_create = None
        self.pre = self.snapshot()

    def _tap(self, p, pf):
        W = self
        orig_t, orig_m = pf.transact_asset, pf.update_market_value_of_asset

        def transact(txn):
            orig_t(txn)
            W.fills.append(dict(p=p, asset=txn.asset, quantity=txn.quantity, dt=txn.dt, price=txn.price, commission=txn.commission))

        def mark(asset, price, dt):
            orig_m(asset, price, dt)
            W.marks.append((p, asset, price, dt))
        pf.transact_asset, pf.update_market_value_of_asset = transact, mark

    def broker(self):
        return self.b

    def freeze_pre(self):
        self.pre = self.snapshot()

    def add_focus(self, p):
        pass

    def queue_inv(self, p):
        pass

    def inst(self, p, a):
        pass

    # ------------------------------------------------------------------------------------ snapshot
    def snapshot(self):
        b = self.b
        s = {'master': dict(b.cash_balances), 'pf': {}}
        for p, pf in b.portfolios.items():
            s['pf'][p] = {'cash': pf.cash, 'clock': pf.current_dt, 'n_events': len(pf.history),
                          'pos': {a: {f: getattr(x, f) for f in ('buy_quantity', 'sell_quantity', 'avg_bought', 'avg_sold',
                                                               'buy_commission', 'sell_commission', 'current_price', 'current_dt')}
                                  for a, x in pf.pos_handler.positions.items()},
                          'pending': [(o.asset, o.quantity, o.order_id) for o in list(b.open_orders[p].queue)] if p in b.open_orders else None}
        s['queues'] = set(b.open_orders)
        return s

    def _cur(self):
        return self.snapshot()

    # ------------------------------------------------------------------------------------ accessors
    def _s(self, snap):
        return snap if snap is not None else self._cur()

    def exists(self, p, snap=None):
        return p in self._s(snap)['pf']

    def has_queue(self, p):
        return p in self.b.open_orders

    def cash(self, p, snap=None):
        s = self._s(snap)['pf']
        return s[p]['cash'] if p in s else 0.0

    def master_cur(self, cur, snap=None):
        return self._s(snap)['master'][cur]

    @property
    def master(self):
        return self.b.cash_balances

    def held_(self, p, a, snap=None):
        s = self._s(snap)['pf']
        return p in s and a in s[p]['pos']

    def qty_(self, p, a, snap=None):
        s = self._s(snap)['pf']
        if p in s and a in s[p]['pos']:
            x = s[p]['pos'][a]
            return x['buy_quantity'] - x['sell_quantity']
        return 0.0

    def price_(self, p, a, snap=None):
        s = self._s(snap)['pf']
        return s[p]['pos'][a]['current_price'] if p in s and a in s[p]['pos'] else 0.0

    def clock_(self, p, snap=None):
        return self._s(snap)['pf'][p]['clock']

    def pclk_(self, p, a, snap=None):
        return self._s(snap)['pf'][p]['pos'][a]['current_dt']

    def no_holdings(self, p):
        return not self._cur()['pf'][p]['pos']

    def pending(self, p, snap=None):
        s = self._s(snap)['pf']
        return s[p]['pending'] if p in s else None

    def pending_empty(self, p):
        return self.pending(p) == []

    def pending_same(self, p, snap):
        return self.pending(p) == self.pending(p, snap)

    def pending_is_pre_plus(self, p, snap, order_fields):
        q, asset = order_fields
        cur, pre = self.pending(p), self.pending(p, snap)
        return cur is not None and pre is not None and cur[:-1] == pre and len(cur) == len(pre) + 1 and cur[-1][0] == asset and cur[-1][1] == q

    def portfolio_same(self, p, snap, parts=('cash', 'holdings', 'marks', 'pending', 'exists')):
        cur, pre = self._cur()['pf'].get(p), snap['pf'].get(p)
        if (cur is None) != (pre is None):
            return 'exists' not in parts
        if cur is None:
            return True
        ok = True
        if 'cash' in parts:
            ok = ok and cur['cash'] == pre['cash']
        if 'holdings' in parts:
            ok = ok and set(cur['pos']) == set(pre['pos']) and all(
                all(cur['pos'][a][f] == pre['pos'][a][f] for f in cur['pos'][a] if f not in ('current_price', 'current_dt')) for a in cur['pos'])
        if 'marks' in parts:
            ok = ok and all(cur['pos'][a]['current_price'] == pre['pos'][a]['current_price'] for a in cur['pos'] if a in pre['pos'])
        if 'pending' in parts:
            ok = ok and cur['pending'] == pre['pending']
        return ok

    def all_same(self, snap, parts=('portfolios', 'cash', 'holdings', 'marks', 'pending', 'master', 'history')):
        cur = self._cur()
        ok = True
        if 'master' in parts:
            ok = ok and cur['master'] == snap['master']
        if 'portfolios' in parts:
            ok = ok and set(cur['pf']) == set(snap['pf']) and cur['queues'] == snap['queues']
        m = {'cash': 'cash', 'holdings': 'holdings', 'marks': 'marks', 'pending': 'pending'}
        for part in parts:
            if part in m:
                ok = ok and all(self.portfolio_same(p, snap, (m[part],)) for p in set(cur['pf']) | set(snap['pf']))
        if 'history' in parts:
            ok = ok and all(cur['pf'][p]['n_events'] == snap['pf'][p]['n_events'] for p in cur['pf'] if p in snap['pf'])
        return ok

    def same(self, snap, fields=None):
        return self.all_same(snap, ('portfolios', 'cash', 'holdings', 'marks', 'pending'))

    def master_same(self, snap):
        return self._cur()['master'] == snap['master']

    def new_events(self, snap=None):
        snap = snap or self.pre
        out = []
        for p, pf in self.b.portfolios.items():
            n0 = snap['pf'][p]['n_events'] if p in snap['pf'] else 0
            for e in pf.history[n0:]:
                out.append((p, Event(e.type, e.dt, e.debit, e.credit, e.balance)))
        return out

    @property
    def events(self):
        return self.new_events()

    def tmv(self, p, snap=None):
        s = self._s(snap)['pf']
        if p not in s:
            return 0.0
        return sum(x['current_price'] * (x['buy_quantity'] - x['sell_quantity']) for x in s[p]['pos'].values())

    def equity(self, p, snap=None):
        return self.tmv(p, snap) + self.cash(p, snap)

    def sum_over_portfolios(self, fig, snap=None):
        return sum(fig(p, snap) for p in self._s(snap)['pf'])


def protected_unchanged_conc(W, snap):
    return [('master-cash', W.all_same(snap, ('master',))), ('portfolio-cash', W.all_same(snap, ('cash',))),
            ('holdings', W.all_same(snap, ('holdings',))), ('marks', W.all_same(snap, ('marks',))),
            ('pending-orders', W.all_same(snap, ('pending',))), ('portfolio-set', W.all_same(snap, ('portfolios',))),
            ('history', W.all_same(snap, ('history',)))]
