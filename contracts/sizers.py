"""L3 contracts: order sizers (C10, C11; sizing part of C08).  Unbounded weight dictionaries; the loop is cut by a
pointwise invariant whose kernel IS the per-asset clause of the property statement."""
import z3

from pyvc.run import harness, canary
from pyvc import heap
from pyvc.core import (SymNum, SymBool, SymKey, ctx, lift, liftk, R, K, B, EQ, NE, LE, LT, GE, GT, AND, OR, NOT, IMPLIES, IFF, ITE,
                       ABS, FLOOR, TRUNC, ISINT, Unmodelled)
from pyvc.heap import AKB, AKR, SymMap, add_universal, EMPTY
from .common import HAS, VAL, DOM, num_map, lemma

from qstrader.portcon.order_sizer.dollar_weighted import DollarWeightedCashBufferedOrderSizer as DW
from qstrader.portcon.order_sizer.long_short import LongShortLeveragedOrderSizer as LS
from qstrader.broker.fee_model.percent_fee_model import PercentFeeModel

PRICEF = z3.Function('ASK_PRICE', R, K, R)
PNANF = z3.Function('ASK_IS_NAN', R, K, B)
EPS = 1e-8


class _Broker:
    def __init__(self, E, fee_model, log):
        self.E, self.fee_model, self.log = E, fee_model, log

    def get_portfolio_total_equity(self, pid):
        self.log.append(pid)
        return self.E


class _DH:
    def __init__(self, c, log):
        self.c, self.log = c, log

    def get_asset_latest_ask_price(self, dt, asset):
        c = self.c
        self.log.append((dt, asset))
        if c.mode == 'sym':
            return SymNum(PRICEF(lift(dt), liftk(asset)), PNANF(lift(dt), liftk(asset)))
        t = c.tterm(dt)
        if c.ceval(PNANF(t, c.keyterm(asset)), lambda r: r.random() < c.values.get('_nan_rate', 0.0), bool):
            return float('nan')
        return c.ceval(PRICEF(t, c.keyterm(asset)), lambda r: round(r.uniform(0.6, 400), 2))


def setup(c, cls, param, pname):
    cp = c.real('commission_pct', lambda r: r.choice([0.0, 0.0, 0.001, 0.0025, 0.3, 0.7]))
    tp = c.real('tax_pct', lambda r: r.choice([0.0, 0.005, 0.0, 0.6]))
    E = c.real('equity', lambda r: round(r.uniform(1000, 2e6), 2))
    c.assume(AND(GE(cp, 0), LE(cp, 1), GE(tp, 0), LE(tp, 1), GT(E, 0)))
    qlog, dlog = [], []
    broker = _Broker(E, PercentFeeModel(commission_pct=cp, tax_pct=tp), qlog)
    dh = _DH(c, dlog)
    sizer = cls(broker, 'pid', dh, **{pname: param})
    return sizer, E, cp + tp, dlog


def price_of(c, dt, k):
    if c.mode == 'sym':
        return SymNum(PRICEF(lift(dt), liftk(k)))
    return c.ceval(PRICEF(c.tterm(dt), c.keyterm(k)), lambda r: round(r.uniform(0.6, 400), 2))


class _SizerLoop(heap.MapLoopSpec):
    """for asset, weight in sorted(normalised_weights.items()): target_portfolio[asset] = {'quantity': q(asset)}
       invariant: target has exactly the processed assets; each processed asset satisfies the per-asset clause"""

    def __init__(self, clause, dt, kclause=None):
        self.clause, self.dt, self.kclause = clause, dt, kclause

    def havoc(self, L, env, names):
        c = ctx()
        return {'target_portfolio': SymMap(c.fresh('target.dom', AKB), {'quantity': c.fresh('target.quantity', AKR)})}

    def _t(self, env):
        t = env['target_portfolio']
        return t._sym() if isinstance(t, heap.LazyDict) else t

    def scal(self, L, env, done):
        return [('target-has-exactly-the-processed-assets', self._t(env).dom == done)]

    def _q(self, env, k):
        t = self._t(env)
        return SymNum(z3.Select(t.cols['quantity'], k) if 'quantity' in t.cols else z3.RealVal(0))

    # The per-asset fact is kept OPAQUE in the invariant (an uninterpreted predicate of the asset and its quantity) and
    # revealed - by an instance of its definition - only at the kernel key and where a final clause needs it, so that
    # the path conditions of all structural obligations stay free of the heavy arithmetic.
    def definition(self, q, k):
        items = self.clause(q, SymKey(k))
        return z3.And(z3.Not(PNANF(lift(self.dt), k)), *[(f.t if isinstance(f, SymBool) else f) for _, f in items])

    def reveal(self, q, k):
        with heap._quiet():
            return SIZED(k, lift(q)) == self.definition(q, k)

    def pd(self, L, env, k):
        return [('processed-asset-is-sized-as-documented', SIZED(k, lift(self._q(env, k))))]

    def kernel(self, L, env, k):
        q = self._q(env, k)
        if self.kclause is None:
            items = self.clause(q, SymKey(k))
        else:
            items = self.kclause(q, SymKey(k), env)
        out = [(it[0], it[1].t if isinstance(it[1], SymBool) else it[1]) + tuple(it[2:]) for it in items]
        out.append(('price-was-available', z3.Not(PNANF(lift(self.dt), k))))
        ctx().assume(self.reveal(q, k))          # definition instance at the kernel key
        # (with a staged kernel, the documented functional equality - the body of the definition - is the conclusion
        #  of its obligation 'quantity-is-the-documented-function-of-allocation-fee-and-price')
        return out


SIZED = z3.Function('SIZED_AS_DOCUMENTED', K, R, B)


def _weights(c, signed):
    c.key('w2')
    gen = (lambda r: r.choice([0.0, 0.0, 0.25, 0.5, 1.0, 2.0, 3e-9])) if not signed else \
          (lambda r: r.choice([0.0, -0.5, 0.25, 0.5, -1.0, 2.0, -3e-9]))
    return num_map(c, 'weights', gen=gen, pgen=lambda r: r.random() < 0.75)


def _sum(c, wts, f=lambda x: x):
    if c.mode == 'sym':
        k = z3.Const('__k', K)
        return SymNum(heap.SUM(DOM(wts), z3.Lambda([k], lift(f(SymNum(z3.Select(wts.cols[''], k)))))))
    return sum(f(v) for v in wts.values())


# =============================================================================================== C10
DW_LOOP = 'DollarWeightedCashBufferedOrderSizer.__call__#for sorted(_.items())#0'


@harness('DollarWeightedCashBufferedOrderSizer.__call__', props=['C10'], also=['C09', 'C08', 'C07'], layer='L3',
         functions=['DollarWeightedCashBufferedOrderSizer.__init__', 'DollarWeightedCashBufferedOrderSizer._check_set_cash_buffer',
                    'DollarWeightedCashBufferedOrderSizer._obtain_broker_portfolio_total_equity',
                    'DollarWeightedCashBufferedOrderSizer._normalise_weights', 'DollarWeightedCashBufferedOrderSizer.__call__',
                    'PercentFeeModel.calc_total_cost'])
def dw_call(c):
    """per asset: q is a whole number >= 0 with q*p + fee(A) <= A < (q+1)*p + fee(A), A = (1-b)*E*w/sum(w);
       all-zero weights -> all-zero target; negative weight -> ValueError; keys = weight keys; prices read at dt"""
    w = c.key('w')
    b = c.real('buffer', lambda r: r.choice([0.0, 0.05, 0.5, 1.0, 1.0 / 3, 0.123456, 4e-5, 0.99996]))
    c.assume(AND(GE(b, 0), LE(b, 1)))
    sizer, E, r, dlog = setup(c, DW, b, 'cash_buffer_percentage')
    wts = _weights(c, signed=True)
    dt = c.time('dt')
    S = _sum(c, wts)
    if c.mode == 'sym':
        # precondition: every weighted asset has a positive, available price at dt (the NaN case is dw_rejections)
        add_universal(lambda k: z3.Implies(z3.Select(DOM(wts), k), z3.And(z3.Not(PNANF(lift(dt), k)), PRICEF(lift(dt), k) > 0)))
        # Lean sum_nonneg_bounds: non-negative weights have a non-negative sum that bounds each of them
        lemma('sum_nonneg_bounds')
    # input regions of the quantifier that are reported separately (known findings F7, F8)
    if r > 1:
        c.region = 'total-fee-rate-above-one'
    C = (1.0 - b) * E

    def share(k):
        return C * (VAL(wts, k) / S)

    def clause(q, k, S_pos=True):
        A = share(k)
        p = price_of(c, dt, k)
        return [('quantity-is-a-nonnegative-whole-number', AND(ISINT(q), GE(q, 0))),
                ('cost-plus-estimated-fee-within-the-normalised-share', LE(q * p + r * A, A)),
                ('one-more-share-would-exceed-it', GT((q + 1) * p + r * A, A))]

    def clause_zero(q, k):
        return [('all-zero-weights-give-zero-quantity', EQ(q, 0))]

    state = {}

    def kernel(q, k):
        return state['clause'](q, k)
    if c.mode == 'sym':
        spec = _SizerLoop(kernel, dt)
        heap.LOOPSPEC[DW_LOOP] = lambda lid, it, env: heap.MapLoop(lid, it, env, spec)
        nonneg = lambda k: z3.Implies(z3.Select(DOM(wts), k), z3.Select(wts.cols[''], k) >= 0)
        # which regime?  decided on the SPEC side (sum of the given weights), independent of the code's own test
        state['clause'] = clause
    try:
        try:
            res = _run_sizer(c, sizer, dt, wts, state, S, clause, clause_zero)
            out = 'ok'
        except ValueError:
            out, res = 'ValueError', None
    finally:
        heap.LOOPSPEC.pop(DW_LOOP, None)
    neg = VAL(wts, w) if c.mode == 'sym' else None
    if out != 'ok':
        if c.mode == 'sym':
            c.ob('raises-only-if-some-weight-is-negative', state.get('neg_witness') is not None)
        else:
            c.ob('raises-only-if-some-weight-is-negative', any(v < 0 for v in wts.values()) or any(x != x for x in [price_of(c, dt, k) for k in wts]))
        return
    if c.mode == 'conc':
        c.ob('negative-weight-rejected', all(v >= 0 for v in wts.values()))
        reg = c.region
        if not reg and 0 < S <= EPS:
            c.region = 'weight-sum-within-1e-8-of-zero'
        for k in wts:
            for n, f in (clause_zero(VAL(res, k, 'quantity'), k) if S == 0 else clause(VAL(res, k, 'quantity'), k)):
                c.ob('#for sorted(_.items())#0:kernel/' + n, f)
        c.region = reg
        c.ob('target-has-exactly-the-weighted-assets', set(res) == set(wts), props=['C10', 'C09'])
        if S > EPS:
            total = sum(VAL(res, k, 'quantity') * price_of(c, dt, k) for k in wts)
            c.ob('whole-target-costs-at-most-buffered-equity', LE(total, C))
        c.ob('prices-read-at-dt', all(q[0] == dt for q in dlog), props=['C07'])
        return
    c.assume(spec.reveal(VAL(res, w, 'quantity'), liftk(w)))      # definition instance at the witness
    c.ob('negative-weight-rejected', IMPLIES(HAS(wts, w), GE(VAL(wts, w), 0)))
    c.ob('target-has-exactly-the-weighted-assets', IFF(HAS(res, w), HAS(wts, w)), props=['C10', 'C09'])
    if not c.region:
        c.ob('zero-weight-gives-zero-quantity', IMPLIES(AND(HAS(wts, w), EQ(VAL(wts, w), 0)), EQ(VAL(res, w, 'quantity'), 0)), props=['C10', 'C09'])
    c.ob('prices-read-at-dt', AND(*[EQ(q[0], dt) for q in dlog]), props=['C07'])
    if state.get('regime') == 'normalised':
        # Lean budget: (forall a in D, q a * p a <= C * (w a / S)), S = sum w > 0  =>  sum q*p <= C
        lemma('budget')
        qv = VAL(res, w, 'quantity')
        c.ob('budget-lemma-hypothesis/per-asset-cost-within-share', IMPLIES(HAS(wts, w), LE(qv * price_of(c, dt, w), share(w))), kind='A')
        k = z3.Const('__k', K)
        tot = heap.SUM(DOM(res), z3.Lambda([k], z3.Select(DOM_COL(res, 'quantity'), k) * PRICEF(lift(dt), k)))
        c.assume(tot <= lift(C))
        c.ob('whole-target-costs-at-most-buffered-equity', tot <= lift(C))


def tobool_(f):
    return f.t if isinstance(f, SymBool) else f


def DOM_COL(m, f):
    if isinstance(m, heap.LazyDict):
        m = m._sym()
    return m.cols[f]


def _earlier_call(c, sizer, lid, dt, nonneg):
    """some earlier call of the same sizer object on an arbitrary other (valid) weight vector; its own correctness is not
    the point here (it is the same obligation at another input) - only that it leaves nothing behind"""
    t0 = c.time('dt_of_an_earlier_call')
    if c.mode == 'conc':
        gen = (lambda r: r.choice([0.25, 0.5, 1.0, 2.0])) if nonneg else (lambda r: r.choice([-0.5, 0.25, 0.5, -1.0, 2.0]))
        other = num_map(c, 'weights_of_an_earlier_call', gen=gen, pgen=lambda r: r.random() < 0.6)
        try:
            sizer(t0, other)
        except ValueError:
            pass
        return
    other = SymMap.fresh('weights_of_an_earlier_call')
    dom, col = other.dom, other.cols['']
    add_universal(lambda k: z3.Implies(z3.Select(dom, k), z3.And(z3.Not(PNANF(lift(t0), k)), PRICEF(lift(t0), k) > 0)))
    if nonneg:
        add_universal(lambda k: z3.Implies(z3.Select(dom, k), z3.Select(col, k) >= 0))
    spec0 = _SizerLoop(lambda q, k: [], t0)
    spec0.kernel = lambda L, env, k: []          # (no obligations from the earlier call)
    heap.LOOPSPEC[lid] = lambda l, it, env: _QuietLoop(l, it, env, spec0)
    try:
        try:
            sizer(t0, other)
        except ValueError:
            raise heap.Abort()
    finally:
        heap.LOOPSPEC.pop(lid, None)


class _QuietLoop(heap.MapLoop):
    """the cut loop of the earlier call: its invariant is assumed, none of its obligations is recorded"""

    def havoc(self, env, names, state=()):
        c = ctx()
        n = len(c.obs)
        out = super().havoc(env, names, state)
        del c.obs[n:]
        return out

    def preserved(self, env):
        raise heap.Abort()


def _run_sizer(c, sizer, dt, wts, state, S, clause, clause_zero):
    if c.mode == 'conc':
        return sizer(dt, wts)
    # spec-side case split on the given weights (from the statement): empty / some negative / sum zero / sum positive
    dom, col = DOM(wts), wts.cols['']
    if c.decide(dom == EMPTY):
        res = sizer(dt, wts)
        c.ob('empty-weights-give-empty-target', isinstance(res, dict) and len(res) == 0 if not hasattr(res, 'dom') else DOM(res) == EMPTY)
        raise heap.Abort()
    negw = c.fresh('neg_w', K)
    if c.decide(z3.And(z3.Select(dom, negw), z3.Select(col, negw) < 0)):
        heap.add_keyterm(negw)
        state['neg_witness'] = negw
        res = sizer(dt, wts)
        c.ob('negative-weight-rejected', False)
        raise heap.Abort()
    add_universal(lambda k: z3.Implies(z3.Select(dom, k), z3.Select(col, k) >= 0))
    # Lean sum_nonneg_bounds instantiated by the engine at every key of interest
    c.assume(lift(S) >= 0)
    add_universal(lambda k: z3.Implies(z3.Select(dom, k), z3.Select(col, k) <= lift(S)))
    if c.decide(lift(S) == 0):
        state['clause'], state['regime'] = clause_zero, 'zero'
    elif c.decide(lift(S) > z3.RealVal('1/100000000')):
        state['clause'], state['regime'] = clause, 'normalised'
    else:
        state['clause'], state['regime'] = clause, 'tiny'
        if not c.region:
            c.region = 'weight-sum-within-1e-8-of-zero'
    return sizer(dt, wts)


canary('buffer added instead of subtracted', DW, '__call__', '1.0 - self.cash_buffer_percentage', '1.0 + self.cash_buffer_percentage')(dw_call)
canary('quantity from the pre-cost amount', DW, '__call__', 'np.floor(after_cost_dollar_weight / asset_price)', 'np.floor(pre_cost_dollar_weight / asset_price)')(dw_call)
canary('round instead of floor', DW, '__call__', 'np.floor(', 'round(')(dw_call)
canary('normalisation dropped', DW, '_normalise_weights', 'asset: (weight / weight_sum)', 'asset: weight')(dw_call)
canary('negative-weight check after the zero-sum early exit', DW, '_normalise_weights',
       'if any([weight < 0.0 for weight in weights.values()]):', 'if sum(weight for weight in weights.values()) != 0 and any([weight < 0.0 for weight in weights.values()]):')(dw_call)


@harness('DollarWeightedCashBufferedOrderSizer.rejections', props=['C10'], layer='L3',
         functions=['DollarWeightedCashBufferedOrderSizer.__init__', 'DollarWeightedCashBufferedOrderSizer._check_set_cash_buffer',
                    'DollarWeightedCashBufferedOrderSizer.__call__'])
def dw_rejections(c):
    """buffer outside [0,1] -> ValueError at construction; an unavailable (NaN) price for a weighted asset -> ValueError"""
    n = c.key('nan_asset')
    b = c.real('buffer', lambda r: r.choice([-0.1, 0.0, 0.5, 1.0, 1.01, -0.00004, 1.00004]))
    try:
        sizer, E, r, dlog = setup(c, DW, b, 'cash_buffer_percentage')
        built = True
    except ValueError:
        built = False
    c.ob('buffer-accepted-iff-within-0-and-1', built == bool(AND_(GE(b, 0), LE(b, 1))))
    if not built:
        return
    c.ob('buffer-stored-unchanged', EQ(sizer.cash_buffer_percentage, b), kind='A')
    c.values['_nan_rate'] = 0.5
    wts = _weights(c, signed=False)
    dt = c.time('dt')
    if c.mode == 'sym':
        dom, col = DOM(wts), wts.cols['']
        add_universal(lambda k: z3.Implies(z3.Select(dom, k), z3.Select(col, k) >= 0))
        c.assume(z3.And(z3.Select(dom, liftk(n)), PNANF(lift(dt), liftk(n))))
        spec = _SizerLoop(lambda q, k: [], dt)
        heap.LOOPSPEC[DW_LOOP] = lambda lid, it, env: heap.MapLoop(lid, it, env, spec)
        add_universal(lambda k: z3.Implies(z3.And(z3.Select(dom, k), z3.Not(PNANF(lift(dt), k))), PRICEF(lift(dt), k) > 0))
        try:
            try:
                res = sizer(dt, wts)
                out = 'ok'
            except ValueError:
                out = 'ValueError'
        finally:
            heap.LOOPSPEC.pop(DW_LOOP, None)
        if out == 'ok':
            c.assume(spec.reveal(VAL(res, n, 'quantity'), liftk(n)))      # definition instance at the asset without a price
        c.ob('nan-price-rejected-with-ValueError', out == 'ValueError')
    else:
        c.assume(all(v >= 0 for v in wts.values()))
        has_nan = any(price_of_raw(c, dlog, sizer, dt, k) for k in wts)
        try:
            sizer(dt, wts)
            out = 'ok'
        except ValueError:
            out = 'ValueError'
        c.ob('nan-price-rejected-with-ValueError', (out == 'ValueError') == has_nan)


def price_of_raw(c, dlog, sizer, dt, k):
    v = sizer.data_handler.get_asset_latest_ask_price(dt, k)
    return v != v


def AND_(*xs):
    r = AND(*xs)
    return SymBool(r) if isinstance(r, z3.ExprRef) else r


canary('buffer upper bound not checked', DW, '_check_set_cash_buffer', 'or cash_buffer_percentage > 1.0', 'or cash_buffer_percentage > 2.0')(dw_rejections)
# (removing the NaN check is NOT a canary: int(nan) raises ValueError natively, so the rejection survives)


# =============================================================================================== C11
def _isunbound(x):
    return x is None or x is heap.UNBOUND


def ls_property(q, wk, A, D, p, r):
    """the per-asset clauses of the C11 statement"""
    return [('quantity-is-a-whole-number', ISINT(q)),
            ('quantity-carries-the-sign-of-its-weight', AND(IMPLIES(GT(wk, 0), GE(q, 0)), IMPLIES(LT(wk, 0), LE(q, 0)), IMPLIES(EQ(wk, 0), EQ(q, 0)))),
            ('truncated-toward-zero-within-the-after-fee-allocation', LE(ABS(q) * p, ABS(D))),
            ('largest-affordable-to-within-one-currency-unit', GT((ABS(q) + 1) * p, ABS(D) - 1)),
            ('gross-cost-within-the-allocation-plus-fee', LE(ABS(q) * p, (1 + r) * ABS(A)))]


@harness('LongShort.arithmetic', props=['C11'], layer='L3', functions=[])
def ls_arithmetic(c):
    """code-independent: for all reals A (allocation, sign of the weight), p > 0, 0 <= r <= 1, the documented function
       q = trunc(trunc0(D)/p), D = A - r|A| satisfies every per-asset clause of C11"""
    A, p = c.real('A', lambda r: round(r.uniform(-1e6, 1e6), 3)), c.real('p', lambda r: round(r.uniform(0.5, 500), 2))
    r = c.real('r', lambda x: x.choice([0.0, 0.001, 0.3, 1.0, 1.3]))
    wk = c.real('weight', lambda x: x.choice([-1.0, 0.0, 0.5]))
    c.assume(AND(GT(p, 0), GE(r, 0), IFF(GT(wk, 0), GT(A, 0)), IFF(LT(wk, 0), LT(A, 0))))
    if r > 1:
        c.region = 'total-fee-rate-above-one'
    D = A - r * ABS(A)
    q = TRUNC(TRUNC(D) / p)
    for n, f in ls_property(q, wk, A, D, p, r):
        c.ob(n, f)


LS_LOOP = 'LongShortLeveragedOrderSizer.__call__#for sorted(_.items())#0'


@harness('LongShortLeveragedOrderSizer.__call__', props=['C11'], also=['C09', 'C08', 'C07'], layer='L3',
         functions=['LongShortLeveragedOrderSizer.__init__', 'LongShortLeveragedOrderSizer._check_set_gross_leverage',
                    'LongShortLeveragedOrderSizer._obtain_broker_portfolio_total_equity',
                    'LongShortLeveragedOrderSizer._normalise_weights', 'LongShortLeveragedOrderSizer.__call__',
                    'PercentFeeModel.calc_total_cost'])
def ls_call(c):
    """per asset, with A = E*L*w/sum|w| and D = A - fee(|A|): q is a whole number carrying the sign of w (or zero),
       |q|*p <= |D| (truncation toward zero) and (|q|+1)*p > |D| - 1 (largest affordable to within one currency unit),
       |q|*p <= |A|; all-zero weights -> all-zero target; keys = weight keys; prices read at dt"""
    w = c.key('w')
    L = c.real('leverage', lambda r: r.choice([0.5, 1.0, 1.5, 2.0, 5.0]))
    c.assume(GT(L, 0))
    sizer, E, r, dlog = setup(c, LS, L, 'gross_leverage')
    wts = _weights(c, signed=True)
    dt = c.time('dt')
    G = _sum(c, wts, ABS)
    if c.mode == 'conc' and G > 0:
        # weights normalised by hand from rounded figures: gross exposure a few parts per million off the leverage (not equal to
        # it), low-priced assets - rescaling is still due, and a shortcut 'already at the target' over-allocates by E*L*ppm
        # ... and weight vectors of a very small scale (gross exposure 1e-7 .. 1e-5, above the 1e-8 guard): the proportions count
        tiny = c.real('weights_scaled_down_by', lambda r: r.choice([0, 0, 0, 0, 1.37e-7, 3.3e-6]))
        if tiny:
            wts = {k: v * tiny for k, v in wts.items()}
            G = _sum(c, wts, ABS)
        ppm = c.real('weights_rescaled_to_ppm_off_the_leverage', lambda r: r.choice([0, 0, 0, 3, -6, 8, 9])) if not tiny else 0
        if ppm:
            f = L * (1 + ppm * 1e-6) / G
            wts = {k: v * f for k, v in wts.items()}
            G = _sum(c, wts, ABS)
            for k in wts:
                c.ceval(PRICEF(c.tterm(dt), c.keyterm(k)), lambda r: r.choice([0.25, 0.5, 1.0, 1.25]))
    if c.mode == 'sym':
        add_universal(lambda k: z3.Implies(z3.Select(DOM(wts), k), z3.And(z3.Not(PNANF(lift(dt), k)), PRICEF(lift(dt), k) > 0)))
    if r > 1:
        c.region = 'total-fee-rate-above-one'

    ALLOCF = z3.Function('ALLOCATION', K, R)       # opaque name of A(k) = E*L*w(k)/gross; revealed at the kernel key only

    def alloc_def(k):
        return E * L * (VAL(wts, k) / G)

    def alloc(k):
        if c.mode == 'sym':
            return SymNum(ALLOCF(liftk(k)))
        return alloc_def(k)

    def specq(k):
        """the documented sizing function (C08): q = trunc(trunc0(A - fee(|A|)) / p)"""
        A = alloc(k)
        return TRUNC(TRUNC(A - r * ABS(A)) / price_of(c, dt, k))

    def clause(q, k):
        if c.mode == 'sym':
            return [('quantity-is-the-documented-function-of-allocation-fee-and-price', EQ(q, specq(k)))]
        A = alloc(k)
        return ls_property(q, VAL(wts, k), A, A - r * ABS(A), price_of(c, dt, k), r)

    def kclause(q, k, env):
        # staged: each intermediate of the loop body equals the corresponding sub-term of the documented function
        A = alloc(k)
        reveal = EQ(A, alloc_def(k))
        wk = VAL(wts, k)
        names = ('pre_cost_dollar_weight', 'after_cost_dollar_weight', 'asset_price', 'asset_quantity')
        if any(_isunbound(env.get(n)) or not isinstance(env.get(n), (SymNum, int, float)) for n in names):
            # the loop body was refactored: no staging, the functional equality is asked for directly
            return [('quantity-is-the-documented-function-of-allocation-fee-and-price', z3.Implies(reveal, EQ(q, specq(k))))]
        pre, after, price, qty = (env[n] for n in names)
        e1, e2, e3 = EQ(pre, A), EQ(after, A - r * ABS(A)), EQ(price, price_of(c, dt, k))
        tr = env.get('truncated_after_cost_dollar_weight')
        staged = []
        if isinstance(tr, SymNum):
            e4a = EQ(tr, TRUNC(after))
            e4 = z3.And(e4a, EQ(qty, TRUNC(tr / price)))
            # generalised over the amount: the code's truncation equals trunc0 for EVERY real x (no hypothesis needed)
            from pyvc.core import generalise
            e4a_g, hyps = generalise(c, lift(after), e4a, 'amount_generalised')
            staged = [('code/amount-truncated-toward-zero-to-a-whole-currency-unit', e4a_g, {'nopc': True, 'hyps': hyps}),
                      ('code/quantity-is-trunc-of-truncated-amount-over-price', EQ(qty, TRUNC(tr / price)))]
        else:
            e4 = EQ(qty, TRUNC(TRUNC(after) / price))
            staged = [('code/quantity-is-trunc-of-truncated-amount-over-price', e4)]
        return [('code/pre-cost-amount-is-E*L*w-over-gross', z3.Implies(reveal, e1)),
                ('allocation-has-the-sign-of-the-weight', z3.Implies(reveal, z3.And((lift(wk) > 0) == (lift(A) > 0), (lift(wk) < 0) == (lift(A) < 0)))),
                ('code/after-cost-amount-is-allocation-minus-fee', z3.Implies(e1, e2)),
                ('code/price-is-the-ask-at-dt', e3)] + staged + [
                ('quantity-is-the-documented-function-of-allocation-fee-and-price',
                 z3.Implies(z3.And(e2, e3, e4, EQ(q, qty)), EQ(q, specq(k)))),
                ('code/target-stores-that-quantity', EQ(q, qty))]

    def clause_zero(q, k):
        return [('all-zero-weights-give-zero-quantity', EQ(q, 0))]

    state = {'clause': clause}
    if c.mode == 'sym':
        spec = _SizerLoop(lambda q, k: state['clause'](q, k), dt, lambda q, k, env: state['kclause'](q, k, env))
        state['kclause'] = kclause
        heap.LOOPSPEC[LS_LOOP] = lambda lid, it, env: heap.MapLoop(lid, it, env, spec)
        dom, col = DOM(wts), wts.cols['']
        absw = lambda k: z3.If(z3.Select(col, k) >= 0, z3.Select(col, k), -z3.Select(col, k))
        if c.decide(dom == EMPTY):
            res = sizer(dt, wts)
            c.ob('empty-weights-give-empty-target', isinstance(res, dict) and len(res) == 0 if not hasattr(res, 'dom') else DOM(res) == EMPTY)
            return
        # Lean sum_nonneg_bounds on |w|
        lemma('sum_nonneg_bounds')
        c.assume(lift(G) >= 0)
        add_universal(lambda k: z3.Implies(z3.Select(dom, k), absw(k) <= lift(G)))
        if c.decide(lift(G) == 0):
            state['clause'], state['regime'] = clause_zero, 'zero'
            state['kclause'] = lambda q, k, env: clause_zero(q, k)
        elif c.decide(lift(G) > z3.RealVal('1/100000000')):
            state['regime'] = 'normalised'
        else:
            state['regime'] = 'tiny'
            if not c.region:
                c.region = 'gross-exposure-within-1e-8-of-zero'
    try:
        try:
            res = sizer(dt, wts)
            out = 'ok'
        except ValueError:
            out, res = 'ValueError', None
    finally:
        heap.LOOPSPEC.pop(LS_LOOP, None)
    c.ob('sizes-every-valid-input-without-error', out == 'ok')
    if out != 'ok':
        return
    if c.mode == 'conc':
        reg = c.region
        if not reg and 0 < G <= EPS:
            c.region = 'gross-exposure-within-1e-8-of-zero'
        for k in wts:
            for n, f in (clause_zero(VAL(res, k, 'quantity'), k) if G == 0 else clause(VAL(res, k, 'quantity'), k)):
                c.ob('#for sorted(_.items())#0:kernel/' + n, f)
        c.region = reg
        c.ob('target-has-exactly-the-weighted-assets', set(res) == set(wts), props=['C11', 'C09'])
        if G > EPS and r <= 1:
            total = sum(abs(VAL(res, k, 'quantity')) * price_of(c, dt, k) for k in wts)
            c.ob('gross-target-within-leverage-times-equity', LE(total, L * E * (1 + r)))
        c.ob('prices-read-at-dt', all(q[0] == dt for q in dlog), props=['C07'])
        return
    c.assume(spec.reveal(VAL(res, w, 'quantity'), liftk(w)))      # definition instance at the witness
    c.ob('target-has-exactly-the-weighted-assets', IFF(HAS(res, w), HAS(wts, w)), props=['C11', 'C09'])
    c.ob('prices-read-at-dt', AND(*[EQ(q[0], dt) for q in dlog]), props=['C07'])
    if not c.region:
        c.ob('zero-weight-gives-zero-quantity', IMPLIES(AND(HAS(wts, w), EQ(VAL(wts, w), 0)), EQ(VAL(res, w, 'quantity'), 0)), props=['C11', 'C09'],
             extra=[EQ(alloc(w), alloc_def(w))] if state.get('regime') != 'zero' else [])
    if state.get('regime') == 'normalised' and not c.region:
        # Lean gross: (forall a in D, |q a| * p a <= B * (|w a| / G)), G = sum |w| > 0  =>  sum |q|*p <= B,  B = L*E
        lemma('gross')
        qv = VAL(res, w, 'quantity')
        c.ob('gross-lemma-hypothesis/per-asset-cost-within-allocation',
             IMPLIES(HAS(wts, w), LE(ABS(qv) * price_of(c, dt, w), (L * E * (1 + r)) * (ABS(VAL(wts, w)) / G))), kind='A',
             extra=[EQ(alloc(w), alloc_def(w))] + [tobool_(f) for n_, f in ls_property(qv, VAL(wts, w), alloc(w), alloc(w) - r * ABS(alloc(w)), price_of(c, dt, w), r)
                                                   if n_ == 'gross-cost-within-the-allocation-plus-fee'])
        k = z3.Const('__k', K)
        qc = DOM_COL(res, 'quantity')
        tot = heap.SUM(DOM(res), z3.Lambda([k], z3.If(z3.Select(qc, k) >= 0, z3.Select(qc, k), -z3.Select(qc, k)) * PRICEF(lift(dt), k)))
        c.assume(tot <= lift(L * E * (1 + r)))
        c.ob('gross-target-within-leverage-times-equity', tot <= lift(L * E * (1 + r)))


canary('floor on the short side', LS, '__call__', 'else np.ceil(after_cost_dollar_weight)', 'else np.floor(after_cost_dollar_weight)')(ls_call)
canary('leverage applied twice', LS, '_normalise_weights', 'gross_ratio = self.gross_leverage / gross_exposure', 'gross_ratio = self.gross_leverage * self.gross_leverage / gross_exposure')(ls_call)
canary('net instead of gross exposure', LS, '_normalise_weights', 'np.abs(weight) for weight', 'weight for weight')(ls_call)
canary('sign lost', LS, '__call__', 'pre_cost_dollar_weight = total_equity * weight', 'pre_cost_dollar_weight = total_equity * abs(weight)')(ls_call)


@harness('LongShortLeveragedOrderSizer.rejections', props=['C11'], layer='L3',
         functions=['LongShortLeveragedOrderSizer.__init__', 'LongShortLeveragedOrderSizer._check_set_gross_leverage',
                    'LongShortLeveragedOrderSizer.__call__'])
def ls_rejections(c):
    """non-positive leverage -> ValueError at construction; an unavailable (NaN) price -> ValueError"""
    n = c.key('nan_asset')
    L = c.real('leverage', lambda r: r.choice([-1.0, 0.0, 0.01, 1.0, 2.0]))
    try:
        sizer, E, r, dlog = setup(c, LS, L, 'gross_leverage')
        built = True
    except ValueError:
        built = False
    c.ob('leverage-accepted-iff-positive', built == bool(AND_(GT(L, 0))))
    if not built:
        return
    c.ob('leverage-stored-unchanged', EQ(sizer.gross_leverage, L), kind='A')
    c.values['_nan_rate'] = 0.5
    wts = _weights(c, signed=True)
    dt = c.time('dt')
    if c.mode == 'sym':
        dom, col = DOM(wts), wts.cols['']
        c.assume(z3.And(z3.Select(dom, liftk(n)), PNANF(lift(dt), liftk(n))))
        spec = _SizerLoop(lambda q, k: [], dt)
        heap.LOOPSPEC[LS_LOOP] = lambda lid, it, env: heap.MapLoop(lid, it, env, spec)
        add_universal(lambda k: z3.Implies(z3.And(z3.Select(dom, k), z3.Not(PNANF(lift(dt), k))), PRICEF(lift(dt), k) > 0))
        try:
            try:
                res = sizer(dt, wts)
                out = 'ok'
            except ValueError:
                out = 'ValueError'
        finally:
            heap.LOOPSPEC.pop(LS_LOOP, None)
        if out == 'ok':
            c.assume(spec.reveal(VAL(res, n, 'quantity'), liftk(n)))      # definition instance at the asset without a price
        c.ob('nan-price-rejected-with-ValueError', out == 'ValueError')
    else:
        has_nan = any(price_of_raw(c, dlog, sizer, dt, k) for k in wts)
        try:
            sizer(dt, wts)
            out = 'ok'
        except ValueError:
            out = 'ValueError'
        c.ob('nan-price-rejected-with-ValueError', (out == 'ValueError') == has_nan)


canary('leverage check allows zero', LS, '_check_set_gross_leverage', 'gross_leverage <= 0.0', 'gross_leverage < 0.0')(ls_rejections)


# ------------------------------------------------------------------------------------- statelessness
def _stateless(c, cls, pname, lid, nonneg):
    """an earlier sizing with OTHER weights on the same sizer object leaves nothing behind: the target of the next call
       has exactly the keys of ITS weight vector (structure only; the per-asset arithmetic is the main harness)"""
    w = c.key('w')
    param = c.real(pname, lambda r: r.choice([0.05, 0.5, 1.0]))
    c.assume(AND(GT(param, 0), LE(param, 1)))
    sizer, E, r, dlog = setup(c, cls, param, pname)
    dt = c.time('dt')
    _earlier_call(c, sizer, lid, dt, nonneg)
    wts = _weights(c, signed=not nonneg)
    if c.mode == 'sym':
        dom, col = DOM(wts), wts.cols['']
        add_universal(lambda k: z3.Implies(z3.Select(dom, k), z3.And(z3.Not(PNANF(lift(dt), k)), PRICEF(lift(dt), k) > 0)))
        if nonneg:
            add_universal(lambda k: z3.Implies(z3.Select(dom, k), z3.Select(col, k) >= 0))
        spec = _SizerLoop(lambda q, k: [], dt)
        heap.LOOPSPEC[lid] = lambda l, it, env: heap.MapLoop(l, it, env, spec)
    else:
        if nonneg:
            c.assume(all(v >= 0 for v in wts.values()))
    try:
        try:
            res = sizer(dt, wts)
        except ValueError:
            return
    finally:
        heap.LOOPSPEC.pop(lid, None)
    c.ob('target-has-exactly-the-keys-of-this-call', IFF(HAS(res, w), HAS(wts, w)) if c.mode == 'sym' else set(res) == set(wts))
    if c.mode == 'conc':
        # run-time form of statelessness: a FRESH sizer object gives the same target for the same arguments
        fresh = setup(c, cls, param, pname)[0]
        try:
            ref = fresh(dt, dict(wts))
        except ValueError:
            ref = None
        c.ob('target-equals-that-of-a-fresh-sizer', ref is not None and set(res) == set(ref)
             and all(res[k]['quantity'] == ref[k]['quantity'] for k in ref))


@harness('DollarWeightedCashBufferedOrderSizer.stateless', props=['C10'], also=['C09'], layer='L3',
         functions=['DollarWeightedCashBufferedOrderSizer.__init__', 'DollarWeightedCashBufferedOrderSizer.__call__'])
def dw_stateless(c):
    """long-only sizer: an earlier call does not influence the next target"""
    _stateless(c, DW, 'cash_buffer_percentage', DW_LOOP, True)


@harness('LongShortLeveragedOrderSizer.stateless', props=['C11'], also=['C09'], layer='L3',
         functions=['LongShortLeveragedOrderSizer.__init__', 'LongShortLeveragedOrderSizer.__call__'])
def ls_stateless(c):
    """long/short sizer: an earlier call does not influence the next target"""
    _stateless(c, LS, 'gross_leverage', LS_LOOP, False)


canary('target dictionary kept on the sizer object', DW, '__call__', 'target_portfolio = {}', 'target_portfolio = self.__dict__.setdefault("_kept_target", {})')(dw_stateless)
canary('target dictionary kept on the sizer object (long/short)', LS, '__call__', 'target_portfolio = {}', 'target_portfolio = self.__dict__.setdefault("_kept_target", {})')(ls_stateless)
