"""L2 contracts: SimulatedBroker (C01, C02, C04, C05, C15, C18) over the world of contracts/world.py."""
import z3

from pyvc.run import harness, canary
from pyvc import heap
from pyvc.core import (SymNum, SymBool, SymKey, SymTime, Unmodelled, Abort, ctx, lift, liftk, tobool, R, K, B,
                       EQ, AND, OR, NOT, IMPLIES, IFF, GE, GT, LE, LT, NE, ITE, ROUND0, R0F)
from pyvc.heap import AKB, AKR, EMPTY, SymIter, SymMap
from .realworld import RealWorld, protected_unchanged_conc
from .world import (World, protected_unchanged, OrderRef, OrdersList, SortedOrders, O, SO, NOSEQ, O_QTY, O_ASSET, O_DIR,
                    OWNER, ALLOWNED, PROJ, SP, BIDF, ASKF, BIDNAN, ASKNAN, MIDF, MIDNAN, OPENF, FEEF, CURRENCIES, order_inv,
                    AKA, AKAB, AKS, FIELDS)
from .common import HAS, VAL, lemma

from qstrader.broker.simulated_broker import SimulatedBroker
from qstrader.execution.order import Order

BR_FUNCS = ['SimulatedBroker.__init__', 'SimulatedBroker._set_base_currency', 'SimulatedBroker._set_initial_funds',
            'SimulatedBroker._set_fee_model', 'SimulatedBroker._set_cash_balances', 'SimulatedBroker._set_initial_portfolios',
            'SimulatedBroker._set_initial_open_orders', 'SimulatedBroker.subscribe_funds_to_account',
            'SimulatedBroker.withdraw_funds_from_account', 'SimulatedBroker.get_account_cash_balance',
            'SimulatedBroker.get_account_total_market_value', 'SimulatedBroker.get_account_total_equity',
            'SimulatedBroker.create_portfolio', 'SimulatedBroker.list_all_portfolios',
            'SimulatedBroker.subscribe_funds_to_portfolio', 'SimulatedBroker.withdraw_funds_from_portfolio',
            'SimulatedBroker.get_portfolio_cash_balance', 'SimulatedBroker.get_portfolio_total_market_value',
            'SimulatedBroker.get_portfolio_total_equity', 'SimulatedBroker.get_portfolio_as_dict',
            'SimulatedBroker._execute_order', 'SimulatedBroker.submit_order', 'SimulatedBroker.update',
            'Order.__init__', 'Order._set_or_generate_order_id', 'Transaction.__init__']


def outcome(fn):
    try:
        return 'ok', fn()
    except (ValueError, KeyError, TypeError) as e:
        return type(e).__name__, None


def expected(cases):
    """documented refusals: first matching (condition, exception type) in order, else 'ok'"""
    for cond, name in cases:
        if cond:
            return name
    return 'ok'


def refusal_clauses(c, W, snap, tag='unchanged-on-raise/', props=('C15',), **meta):
    fn = protected_unchanged if W.mode == 'sym' else protected_unchanged_conc
    for n, f in fn(W, snap):
        c.ob(tag + n, f, props=list(props), **meta)


def world(c, pids=(), assets=()):
    """an arbitrary broker state satisfying BrInv (sym) / a real broker built from the model or at random (conc)"""
    if c.mode == 'sym':
        W = World(c)
        b = W.broker()
        W.freeze_pre()
    else:
        W = RealWorld(c, pids, assets)
        b = W.b
    return W, b


def B_(x):
    return SymBool(x) if isinstance(x, z3.ExprRef) else x


ALLBUT_MASTER = ('portfolios', 'cash', 'holdings', 'marks', 'pending', 'history')


def _amount(c, W, pid=None):
    m = W.master_cur('USD') if c.mode == 'conc' else 0
    pc = W.cash(pid) if (c.mode == 'conc' and pid is not None) else 0
    return c.real('amount', lambda r: r.choice([-3.0, 0.0, 12.5, 250.0, m, m + 0.01, pc, pc + 0.01, 1e7]))


# ================================================================================== master account
@harness('SimulatedBroker.subscribe_funds_to_account', props=['C01', 'C15'], layer='L2', functions=BR_FUNCS)
def br_subscribe_account(c):
    """master account credit: USD balance += amount, nothing else changes; negative -> ValueError, nothing changes"""
    pid, a = c.key('w'), c.key('a')
    W, b = world(c, [pid], [a])
    amount = _amount(c, W)
    r, _ = outcome(lambda: b.subscribe_funds_to_account(amount))
    c.ob('refused-iff-negative/type-ValueError', r == expected([(amount < 0.0, 'ValueError')]))
    if r != 'ok':
        return refusal_clauses(c, W, W.pre)
    c.ob('master-credited-exactly', EQ(W.master_cur('USD'), W.master_cur('USD', W.pre) + amount), props=['C01'])
    c.ob('other-currencies-untouched', AND(*[EQ(W.master_cur(k), W.master_cur(k, W.pre)) for k in CURRENCIES if k != 'USD']), props=['C01'])
    c.ob('portfolios-orders-history-untouched', W.all_same(W.pre, ALLBUT_MASTER), props=['C01'])


canary('account subscription credited to every currency', SimulatedBroker, 'subscribe_funds_to_account',
       'self.cash_balances[self.base_currency] += amount', 'self.cash_balances[self.base_currency] += amount; self.cash_balances["EUR"] += amount')(br_subscribe_account)


@harness('SimulatedBroker.withdraw_funds_from_account', props=['C01', 'C15'], layer='L2', functions=BR_FUNCS)
def br_withdraw_account(c):
    """master account debit; negative or more than the balance -> ValueError, nothing changes"""
    pid, a = c.key('w'), c.key('a')
    W, b = world(c, [pid], [a])
    amount = _amount(c, W)
    r, _ = outcome(lambda: b.withdraw_funds_from_account(amount))
    c.ob('refused-iff-negative-or-overdraft/type-ValueError',
         r == expected([(amount < 0, 'ValueError'), (amount > W.master_cur('USD', W.pre), 'ValueError')]))
    if r != 'ok':
        return refusal_clauses(c, W, W.pre)
    c.ob('master-debited-exactly', EQ(W.master_cur('USD'), W.master_cur('USD', W.pre) - amount), props=['C01'])
    c.ob('other-currencies-untouched', AND(*[EQ(W.master_cur(k), W.master_cur(k, W.pre)) for k in CURRENCIES if k != 'USD']), props=['C01'])
    c.ob('portfolios-orders-history-untouched', W.all_same(W.pre, ALLBUT_MASTER), props=['C01'])


canary('account overdraft check removed', SimulatedBroker, 'withdraw_funds_from_account',
       'if amount > self.cash_balances[self.base_currency]:', 'if False:')(br_withdraw_account)


@harness('SimulatedBroker.get_account_cash_balance', props=['C01', 'C15'], layer='L2', functions=BR_FUNCS)
def br_account_cash(c):
    pid, a = c.key('w'), c.key('a')
    W, b = world(c, [pid], [a])
    r, v = outcome(lambda: b.get_account_cash_balance())
    c.ob('all-balances-returned', AND(r == 'ok', v is b.cash_balances))
    for cur in CURRENCIES:
        r, v = outcome(lambda: b.get_account_cash_balance(cur))
        c.ob('balance-of-%s' % cur, AND(r == 'ok', EQ(v, W.master_cur(cur, W.pre))))
    r, v = outcome(lambda: b.get_account_cash_balance('XXX'))
    c.ob('unsupported-currency-refused/type-ValueError', r == 'ValueError', props=['C15'])
    c.ob('getter-changes-nothing', W.all_same(W.pre))


# ==================================================================================== create portfolio
@harness('SimulatedBroker.create_portfolio', props=['C01', 'C02', 'C04', 'C15'], layer='L2', functions=BR_FUNCS)
def br_create_portfolio(c):
    """duplicate id -> ValueError, nothing changes; else a new EMPTY portfolio (no cash, no holdings, no pending order,
       no history) dated at the broker clock; every other portfolio and the master account untouched"""
    pid, w, a = c.key('pid'), c.key('w'), c.key('a')
    c.assume(NE(pid, w))
    W, b = world(c, [pid, w], [a])
    r, _ = outcome(lambda: b.create_portfolio(pid, name='n'))
    c.ob('refused-iff-duplicate-id/type-ValueError', r == expected([(B_(W.exists(pid, W.pre)), 'ValueError')]))
    if r != 'ok':
        return refusal_clauses(c, W, W.pre)
    c.ob('new-portfolio-exists-with-queue', AND(W.exists(pid), W.has_queue(pid)))
    c.ob('new-portfolio-has-zero-cash', EQ(W.cash(pid), 0), props=['C01'])
    c.ob('new-portfolio-has-no-holdings', W.no_holdings(pid), props=['C02'])
    c.ob('new-portfolio-has-no-pending-order', W.pending_empty(pid), props=['C04'])
    c.ob('new-portfolio-history-empty', len(W.new_events()) == 0, props=['C01'])
    c.ob('new-portfolio-clock-is-broker-clock', EQ(W.clock_(pid), b.current_dt), kind='A')
    c.ob('master-untouched', W.all_same(W.pre, ('master',)), props=['C01'])
    c.ob('other-portfolios-untouched', W.portfolio_same(w, W.pre), props=['C01', 'C02', 'C04'])
    if c.mode == 'sym':
        c.ob('BrInv-preserved/queues-and-portfolios-same-ids', W.qdom == W.pdom, kind='A')
    else:
        c.ob('BrInv-preserved/queues-and-portfolios-same-ids', set(b.portfolios) == set(b.open_orders), kind='A')


canary('duplicate portfolio silently replaced', SimulatedBroker, 'create_portfolio',
       'if portfolio_id_str in self.portfolios.keys():', 'if False:')(br_create_portfolio)
canary('new portfolio gets no order queue', SimulatedBroker, 'create_portfolio',
       'self.open_orders[portfolio_id_str] = queue.Queue()', 'pass')(br_create_portfolio)


# ================================================================================ transfers master <-> portfolio
@harness('SimulatedBroker.subscribe_funds_to_portfolio', props=['C01', 'C15'], layer='L2', functions=BR_FUNCS)
def br_subscribe_portfolio(c):
    """zero-sum transfer master -> portfolio; refusals: negative (ValueError), unknown id (KeyError), more than the
       master balance (ValueError), broker clock earlier than the portfolio's (ValueError) - nothing changes"""
    pid, w, a = c.key('pid'), c.key('w'), c.key('a')
    c.assume(NE(pid, w))
    W, b = world(c, [pid, w], [a])
    amount = _amount(c, W)
    r, _ = outcome(lambda: b.subscribe_funds_to_portfolio(pid, amount))
    known = B_(W.exists(pid, W.pre))
    c.ob('refusals-and-their-types',
         r == expected([(amount < 0.0, 'ValueError'), (not known, 'KeyError'),
                        (amount > W.master_cur('USD', W.pre), 'ValueError'), (known and b.current_dt < W.clock_(pid, W.pre), 'ValueError')]))
    if r != 'ok':
        return refusal_clauses(c, W, W.pre)
    transfer_clauses(c, W, b, pid, w, amount, +1)


def transfer_clauses(c, W, b, pid, w, amount, sign):
    from pyvc.core import ROUND2
    c.ob('portfolio-cash-moves-by-amount', EQ(W.cash(pid), W.cash(pid, W.pre) + sign * amount), props=['C01'])
    c.ob('transfer-is-zero-sum', EQ(W.master_cur('USD') + W.cash(pid), W.master_cur('USD', W.pre) + W.cash(pid, W.pre)), props=['C01'])
    c.ob('other-currencies-untouched', AND(*[EQ(W.master_cur(k), W.master_cur(k, W.pre)) for k in CURRENCIES if k != 'USD']), props=['C01'])
    c.ob('other-portfolios-untouched', W.portfolio_same(w, W.pre), props=['C01'])
    c.ob('holdings-and-orders-untouched', W.all_same(W.pre, ('portfolios', 'holdings', 'marks', 'pending')), props=['C01', 'C02', 'C04'])
    evs = W.new_events()
    ok = len(evs) == 1
    if ok:
        p, e = evs[0]
        ok = AND(EQ(p if isinstance(p, str) else SymKey(p), pid), e.type == ('subscription' if sign > 0 else 'withdrawal'),
                 EQ(e.dt, b.current_dt), EQ(e.credit if sign > 0 else e.debit, ROUND2(amount)),
                 EQ(e.debit if sign > 0 else e.credit, 0), EQ(e.balance, ROUND2(W.cash(pid))))
    c.ob('history-one-event-for-that-portfolio-rounded-to-cents', ok, props=['C01'])


canary('portfolio funded without debiting the master account', SimulatedBroker, 'subscribe_funds_to_portfolio',
       'self.cash_balances[self.base_currency] -= amount', 'pass')(br_subscribe_portfolio)
canary('master overdraft check uses >=', SimulatedBroker, 'subscribe_funds_to_portfolio',
       'if amount > self.cash_balances[self.base_currency]:', 'if amount >= self.cash_balances[self.base_currency]:')(br_subscribe_portfolio)
canary('master debited before the portfolio accepts', SimulatedBroker, 'subscribe_funds_to_portfolio',
       'self.portfolios[portfolio_id].subscribe_funds(self.current_dt, amount)\n        self.cash_balances[self.base_currency] -= amount',
       'self.cash_balances[self.base_currency] -= amount\n        self.portfolios[portfolio_id].subscribe_funds(self.current_dt, amount)')(br_subscribe_portfolio)


@harness('SimulatedBroker.withdraw_funds_from_portfolio', props=['C01', 'C15'], layer='L2', functions=BR_FUNCS)
def br_withdraw_portfolio(c):
    """zero-sum transfer portfolio -> master; refusals as for subscription, overdraft measured on the portfolio's cash"""
    pid, w, a = c.key('pid'), c.key('w'), c.key('a')
    c.assume(NE(pid, w))
    W, b = world(c, [pid, w], [a])
    amount = _amount(c, W, pid if (c.mode == 'conc' and W.exists(pid)) else None)
    r, _ = outcome(lambda: b.withdraw_funds_from_portfolio(pid, amount))
    known = B_(W.exists(pid, W.pre))
    c.ob('refusals-and-their-types',
         r == expected([(amount < 0.0, 'ValueError'), (not known, 'KeyError'),
                        (known and amount > W.cash(pid, W.pre), 'ValueError'), (known and b.current_dt < W.clock_(pid, W.pre), 'ValueError')]))
    if c.mode == 'conc':
        _other_base_currency(c)
        _id_that_only_looks_like_a_known_one(c)
    if r != 'ok':
        return refusal_clauses(c, W, W.pre)
    transfer_clauses(c, W, b, pid, w, amount, -1)


def _other_base_currency(c):
    """(native only) a broker whose base currency is NOT the first of the supported list: transfers in both directions are
       zero-sum in the BASE currency, the other currencies' master balances stay at zero, a new portfolio is denominated in it"""
    import pandas as pd
    from qstrader.broker.simulated_broker import SimulatedBroker
    from qstrader.broker.fee_model.zero_fee_model import ZeroFeeModel
    t0 = pd.Timestamp('2020-01-06 14:30:00', tz='UTC')
    for cur in ('GBP', 'EUR'):
        b = SimulatedBroker(t0, None, None, base_currency=cur, initial_funds=1000.0, fee_model=ZeroFeeModel())
        b.create_portfolio('p1', 'first')
        b.subscribe_funds_to_portfolio('p1', 600.0)
        b.withdraw_funds_from_portfolio('p1', 250.0)
        others = [k for k in b.cash_balances if k != cur]
        c.ob('base-currency-%s/transfers-zero-sum-in-the-base-currency-others-stay-zero' % cur,
             AND(EQ(b.cash_balances[cur], 650.0), EQ(b.portfolios['p1'].cash, 350.0), all(b.cash_balances[k] == 0.0 for k in others),
                 b.portfolios['p1'].currency == cur), props=['C01'])


def _id_that_only_looks_like_a_known_one(c):
    """(native only) portfolio ids are strings: the integer 1234 (or numpy's) is NOT the id '1234' - such a request is refused as an
       unknown portfolio and changes nothing"""
    import numpy as np
    import pandas as pd
    from qstrader.broker.simulated_broker import SimulatedBroker
    from qstrader.broker.fee_model.zero_fee_model import ZeroFeeModel
    from qstrader.execution.order import Order
    t0 = pd.Timestamp('2020-01-06 14:30:00', tz='UTC')
    for bad in (1234, np.int64(1234)):
        b = SimulatedBroker(t0, None, None, initial_funds=1000.0, fee_model=ZeroFeeModel())
        b.create_portfolio('1234', 'numeric-looking id')
        b.subscribe_funds_to_portfolio('1234', 600.0)
        before = (dict(b.cash_balances), b.portfolios['1234'].cash, len(b.portfolios['1234'].history), b.open_orders['1234'].qsize())
        got = [outcome(lambda: b.subscribe_funds_to_portfolio(bad, 10.0))[0], outcome(lambda: b.withdraw_funds_from_portfolio(bad, 10.0))[0],
               outcome(lambda: b.submit_order(bad, Order(t0, 'EQ:A', 5)))[0]]
        after = (dict(b.cash_balances), b.portfolios['1234'].cash, len(b.portfolios['1234'].history), b.open_orders['1234'].qsize())
        c.ob('id-%s-1234-is-not-the-id-1234/refused-as-unknown-nothing-changes' % type(bad).__name__,
             AND(got == ['KeyError', 'KeyError', 'KeyError'], before == after), props=['C15', 'C01'])


def _zero_priced_side_of_a_quote(c):
    """(native only) a quote whose USED side is exactly 0.0 (a worthless warrant bid, a crossed quote) is a price like any other for
       an opening fill: the sell is priced at the bid, the buy at the ask, whatever the other side says"""
    import pandas as pd
    from qstrader.broker.simulated_broker import SimulatedBroker
    from qstrader.broker.fee_model.percent_fee_model import PercentFeeModel
    from qstrader.execution.order import Order
    t0 = pd.Timestamp('2020-01-06 14:30:00', tz='UTC')
    for qty, quote, want in ((-64, (0.0, 16.0), 0.0), (30, (12.5, 0.0), 0.0), (-7, (3.25, 0.0), 3.25), (9, (0.0, 4.5), 4.5)):
        class DH:
            def get_asset_latest_bid_ask_price(self, dt, asset):
                return quote

            def get_asset_latest_mid_price(self, dt, asset):
                return (quote[0] + quote[1]) / 2.0
        b = SimulatedBroker(t0, None, DH(), initial_funds=100000.0, fee_model=PercentFeeModel(commission_pct=0.001, tax_pct=0.0005))
        b.create_portfolio('p1', 'x')
        b.subscribe_funds_to_portfolio('p1', 100000.0)
        seen = []
        pf = b.portfolios['p1']
        real = pf.transact_asset
        pf.transact_asset = lambda txn: (seen.append(txn), real(txn))[1]
        r, _ = outcome(lambda: b._execute_order(t0, 'p1', Order(t0, 'EQ:A', qty)))
        fee = 0.0015 * abs(round(want * qty))
        c.ob('quote-%s-%s-quantity-%d/filled-at-the-side-of-the-order-with-the-fee-on-that-consideration' % (quote[0], quote[1], qty),
             AND(r == 'ok', len(seen) == 1, *[AND(EQ(x.price, want), EQ(x.commission, fee), EQ(x.quantity, qty)) for x in seen[:1]],
                 EQ(pf.cash, 100000.0 - want * qty - fee)), props=['C05'])


def _order_of_nothing_is_executed_once(c):
    """(native only) an order of quantity exactly 0 submitted between a buy and a sell is not dropped: one update in exchange hours
       executes all three once (the sell first), books one transaction each and leaves the queue empty"""
    import pandas as pd
    from qstrader.broker.simulated_broker import SimulatedBroker
    from qstrader.broker.fee_model.zero_fee_model import ZeroFeeModel
    from qstrader.execution.order import Order
    t0 = pd.Timestamp('2020-01-06 15:00:00', tz='UTC')

    class DH:
        def get_asset_latest_bid_ask_price(self, dt, asset):
            return (10.0, 10.5)

        def get_asset_latest_mid_price(self, dt, asset):
            return 10.25

    class EX:
        def is_open_at_datetime(self, dt):
            return True
    b = SimulatedBroker(t0, EX(), DH(), initial_funds=100000.0, fee_model=ZeroFeeModel())
    b.create_portfolio('p1', 'x')
    b.subscribe_funds_to_portfolio('p1', 100000.0)
    pf = b.portfolios['p1']
    seen = []
    real = pf.transact_asset
    pf.transact_asset = lambda txn: (seen.append((txn.asset, txn.quantity)), real(txn))[1]
    for asset, q in (('EQ:A', 20), ('EQ:B', 0), ('EQ:C', -30)):
        b.submit_order('p1', Order(t0, asset, q))
    r, _ = outcome(lambda: b.update(t0))
    c.ob('order-of-quantity-zero/every-pending-order-executed-once-sell-first-queue-empty',
         AND(r == 'ok', seen == [('EQ:C', -30), ('EQ:A', 20), ('EQ:B', 0)], b.open_orders['p1'].empty(),
             EQ(pf.cash, 100000.0 - 20 * 10.5 + 30 * 10.0)), props=['C04'])


def _net_zero_book_is_marked(c):
    """(native only) a long/short book whose market value nets to exactly zero is still marked at the new prices"""
    import pandas as pd
    from qstrader.broker.simulated_broker import SimulatedBroker
    from qstrader.broker.fee_model.zero_fee_model import ZeroFeeModel
    from qstrader.broker.transaction.transaction import Transaction
    t0, t1 = pd.Timestamp('2020-01-06 21:00:00', tz='UTC'), pd.Timestamp('2020-01-07 21:00:00', tz='UTC')
    mids = {'EQ:aaa': 112.0, 'EQ:bbb': 95.0}

    class DH:
        def get_asset_latest_mid_price(self, dt, asset):
            return mids[asset]

        def get_asset_latest_bid_ask_price(self, dt, asset):
            return (mids[asset], mids[asset])

    class EX:
        def is_open_at_datetime(self, dt):
            return False
    b = SimulatedBroker(t0, EX(), DH(), initial_funds=1000000.0, fee_model=ZeroFeeModel())
    b.create_portfolio('p1', 'long/short')
    b.subscribe_funds_to_portfolio('p1', 1000000.0)
    pf = b.portfolios['p1']
    pf.transact_asset(Transaction('EQ:aaa', 5000, t0, 100.0, 'o1', commission=0.0))
    pf.transact_asset(Transaction('EQ:bbb', -5000, t0, 100.0, 'o2', commission=0.0))
    b.update(t1)
    c.ob('net-zero-book/every-held-asset-is-marked-at-the-mid-of-dt',
         AND(EQ(pf.pos_handler.positions['EQ:aaa'].current_price, 112.0), EQ(pf.pos_handler.positions['EQ:bbb'].current_price, 95.0),
             EQ(b.get_portfolio_total_market_value('p1'), 5000 * 112.0 - 5000 * 95.0)), props=['C02', 'C14'])


canary('portfolio withdrawal not credited to the master account', SimulatedBroker, 'withdraw_funds_from_portfolio',
       'self.cash_balances[self.base_currency] += amount', 'pass')(br_withdraw_portfolio)


# ============================================================================================ getters
@harness('SimulatedBroker.portfolio_getters', props=['C01', 'C02', 'C15'], layer='L2', functions=BR_FUNCS)
def br_getters(c):
    """per-portfolio figures: cash, market value = SUM qty x latest price over holdings, equity = cash + market value,
       holdings report; unknown id -> KeyError (ValueError for the cash balance); getters change nothing"""
    pid, a, a2 = c.key('pid'), c.key('a'), c.key('a2')
    W, b = world(c, [pid], [a, a2])
    known = B_(W.exists(pid, W.pre))
    r1, cash = outcome(lambda: b.get_portfolio_cash_balance(pid))
    r2, tmv = outcome(lambda: b.get_portfolio_total_market_value(pid))
    r3, eq = outcome(lambda: b.get_portfolio_total_equity(pid))
    r4, d = outcome(lambda: b.get_portfolio_as_dict(pid))
    unk = not known
    c.ob('unknown-portfolio-refused/documented-types',
         (r1, r2, r3, r4) == (('ValueError', 'KeyError', 'KeyError', 'KeyError') if unk else ('ok',) * 4), props=['C15', 'C01'])
    c.ob('getters-change-nothing', W.all_same(W.pre), props=['C01', 'C02', 'C15'])
    if unk:
        return
    c.ob('cash-balance-is-portfolio-cash', EQ(cash, W.cash(pid, W.pre)), props=['C01'])
    c.ob('market-value-is-sum-of-quantity-times-latest-price', EQ(tmv, W.tmv(pid, W.pre)), props=['C02'])
    c.ob('equity-is-cash-plus-market-value', EQ(eq, W.tmv(pid, W.pre) + W.cash(pid, W.pre)), props=['C02'])
    c.ob('report-lists-exactly-the-holdings', IFF(HAS(d, a), W.held_(pid, a, W.pre)), props=['C02'])
    c.ob('report-quantity', IMPLIES(HAS(d, a), EQ(VAL(d, a, 'quantity'), W.qty_(pid, a, W.pre))), props=['C02'])


canary('portfolio equity getter returns market value', SimulatedBroker, 'get_portfolio_total_equity',
       'return self.portfolios[portfolio_id].total_equity', 'return self.portfolios[portfolio_id].total_market_value')(br_getters)


class _AccountTotalLoop(heap.MapLoopSpec):
    """for portfolio in self.portfolios.values(): d[portfolio.portfolio_id] = figure(p); master += figure(p)
       invariant: master == SUM over processed of figure; d has exactly the processed ids with their figures"""

    def __init__(self, W, figure, dname, accname):
        self.W, self.figure, self.dname, self.accname = W, figure, dname, accname

    def _bind(self, env, names):
        """by role, not by local name: the ONE dictionary and the ONE number the loop carries"""
        if self.dname in env and self.accname in env:
            return
        ds = [n for n in names if isinstance(env.get(n), (heap.LazyDict, SymMap, dict))]
        ns = [n for n in names if isinstance(env.get(n), (SymNum, float, int)) and not isinstance(env.get(n), bool)]
        if len(ds) != 1 or len(ns) != 1:
            raise Unmodelled('account-total loop: expected one dictionary and one accumulator among %s' % (names,))
        self.dname, self.accname = ds[0], ns[0]

    def havoc(self, L, env, names):
        c = ctx()
        self._bind(env, names)
        return {self.dname: SymMap(c.fresh(self.dname + '.dom', AKB), {'': c.fresh(self.dname + '.val', AKR)}),
                self.accname: SymNum(c.fresh(self.accname, R))}

    def _d(self, env):
        self._bind(env, list(env))
        d = env[self.dname]
        return d._sym() if isinstance(d, heap.LazyDict) else d

    def scal(self, L, env, done):
        x = z3.Const('__p', K)
        self._bind(env, list(env))
        return [('dict-has-exactly-the-processed-ids', self._d(env).dom == done),
                ('master-is-sum-over-processed', lift(env[self.accname]) == heap.SUM(done, z3.Lambda([x], self.figure(x))))]

    def sums(self, L, env):
        x = z3.Const('__p', K)
        return [z3.Lambda([x], self.figure(x))]

    def pd(self, L, env, k):
        d = self._d(env)
        return [('entry-is-the-portfolio-figure', z3.Select(d.cols[''], k) == self.figure(k) if '' in d.cols else z3.BoolVal(False))]


class _QuietMapLoop(heap.MapLoop):
    """the cut loop of an EARLIER call whose own correctness is not re-verified: invariant assumed, nothing recorded"""

    def havoc(self, env, names, state=()):
        c = ctx()
        n = len(c.obs)
        out = super().havoc(env, names, state)
        del c.obs[n:]
        return out

    def preserved(self, env):
        raise Abort()


def _account_total(c, method, figname, dname, accname, loopid):
    w, w2, a = c.key('w'), c.key('w2'), c.key('a')
    W, b = world(c, [w, w2], [a])
    W.opaque_valuation = True        # per-portfolio figures by contract (their definition is the L1 valuation harness)
    fig = {'tmv': W.tmv, 'equity': W.equity}[figname]
    if c.mode == 'sym':
        c.assume(liftk(w) != heap.keylit('master'))       # a portfolio called 'master' would collide with the total's key
    # an earlier query followed by a transfer must not influence this query (no stale memo)
    amt = c.real('transfer_before_the_query', lambda r: r.choice([10.0, 250.5]))
    if c.mode == 'sym':
        heap.LOOPSPEC[loopid] = lambda lid, it, env: _QuietMapLoop(lid, it, env, _AccountTotalLoop(W, lambda p: lift(fig(SymKey(p))), dname, accname))
    outcome(lambda: getattr(b, method)())
    outcome(lambda: b.subscribe_funds_to_account(amt))
    r0, _ = outcome(lambda: b.subscribe_funds_to_portfolio(w, amt))
    pre = W.snapshot()
    if c.mode == 'sym':
        spec = _AccountTotalLoop(W, lambda p: lift(fig(SymKey(p), pre)), dname, accname)
        heap.LOOPSPEC[loopid] = lambda lid, it, env: heap.MapLoop(lid, it, env, spec)
    r, d = outcome(lambda: getattr(b, method)())
    heap.LOOPSPEC.pop(loopid, None)
    c.ob('always-obtainable', r == 'ok', props=['C01'])
    if r != 'ok':
        return
    c.ob('master-entry-is-sum-of-per-portfolio-figures', EQ(VAL(d, 'master'), W.sum_over_portfolios(fig, pre)), props=['C01'])
    c.ob('per-portfolio-entry-is-its-figure', IMPLIES(W.exists(w, pre), AND(HAS(d, w), EQ(VAL(d, w), fig(w, pre)))), props=['C01'])
    c.ob('getter-changes-nothing', W.all_same(pre), props=['C01', 'C15'])
    if c.mode == 'conc':
        _single_portfolio_named_master(c, method, figname)


def _single_portfolio_named_master(c, method, figname):
    """(native only) ONE portfolio whose id is literally 'master' - the key the totals dictionary reserves for the sum: with a
       single portfolio the two meanings coincide, so the entry must be that portfolio's figure (not twice it)"""
    import pandas as pd
    from qstrader.broker.simulated_broker import SimulatedBroker
    from qstrader.broker.fee_model.zero_fee_model import ZeroFeeModel
    from qstrader.broker.transaction.transaction import Transaction
    t0 = pd.Timestamp('2020-01-06 14:30:00', tz='UTC')
    b = SimulatedBroker(t0, None, None, initial_funds=1000000.0, fee_model=ZeroFeeModel())
    b.create_portfolio('master', 'the only portfolio')
    b.subscribe_funds_to_portfolio('master', 600000.0)
    b.portfolios['master'].transact_asset(Transaction('EQ:aaa', 1000, t0, 101.5, 'oid', commission=0.0))
    want = {'tmv': 101500.0, 'equity': 600000.0}[figname]
    got = getattr(b, method)()
    c.ob('single-portfolio-named-master/entry-is-that-portfolio-figure', set(got) == {'master'} and EQ(got['master'], want), props=['C01', 'C02', 'C14'])


@harness('SimulatedBroker.get_account_total_equity', props=['C01', 'C02', 'C14'], layer='L2', functions=BR_FUNCS)
def br_account_equity(c):
    """total equity is always obtainable; 'master' = SUM of the per-portfolio equities; one entry per portfolio"""
    _account_total(c, 'get_account_total_equity', 'equity', 'equity_dict', 'master_equity',
                   'SimulatedBroker.get_account_total_equity#for self.portfolios.values()#0')


@harness('SimulatedBroker.get_account_total_market_value', props=['C01', 'C02'], layer='L2', functions=BR_FUNCS)
def br_account_tmv(c):
    """total market value is always obtainable; 'master' = SUM of the per-portfolio market values"""
    _account_total(c, 'get_account_total_market_value', 'tmv', 'tmv_dict', 'master_tmv',
                   'SimulatedBroker.get_account_total_market_value#for self.portfolios.values()#0')


canary('account equity skips cash', SimulatedBroker, 'get_account_total_equity',
       'port_equity = self.get_portfolio_total_equity(', 'port_equity = self.get_portfolio_total_market_value(')(br_account_equity)
canary('account equity master double counts', SimulatedBroker, 'get_account_total_equity',
       'master_equity += port_equity', 'master_equity += port_equity + port_equity')(br_account_equity)


# ======================================================================================= submit_order
@harness('SimulatedBroker.submit_order', props=['C04', 'C01', 'C02', 'C15'], layer='L2', functions=BR_FUNCS)
def br_submit(c):
    """submission appends the order to that portfolio's pending queue and changes NOTHING else (no cash, holding,
       history or other queue); unknown portfolio -> KeyError and nothing changes"""
    pid, w, a = c.key('pid'), c.key('w'), c.key('order_asset')
    c.assume(NE(pid, w))
    W, b = world(c, [pid, w], [a])
    q = c.real('order_qty', lambda r: float(r.choice([-40, -3, 1, 25, 100])))
    c.assume(OR(GE(q, 1), LE(q, -1)))
    order = Order(c.time('order_dt'), a, q)
    r, _ = outcome(lambda: b.submit_order(pid, order))
    c.ob('refused-iff-unknown-portfolio/type-KeyError', r == expected([(not B_(W.exists(pid, W.pre)), 'KeyError')]))
    if r != 'ok':
        return refusal_clauses(c, W, W.pre)
    c.ob('queued-once-at-the-tail-in-full', W.pending_is_pre_plus(pid, W.pre, (q, a)))
    c.ob('other-queues-untouched', W.pending_same(w, W.pre))
    c.ob('cash-holdings-history-untouched', AND(W.all_same(W.pre, ('portfolios', 'cash', 'holdings', 'marks', 'master', 'history')),
                                                len(W.fills) == 0), props=['C04', 'C01', 'C02'])


canary('order for unknown portfolio refused with the wrong error type', SimulatedBroker, 'submit_order',
       'raise KeyError(', 'raise ValueError(')(br_submit)
canary('submission fills immediately', SimulatedBroker, 'submit_order',
       'self.open_orders[portfolio_id].put(order)', 'self.open_orders[portfolio_id].put(order); self._execute_order(self.current_dt, portfolio_id, order)')(br_submit)


@harness('Order.__init__', props=['C04', 'C09', 'C18'], layer='L0', functions=['Order.__init__', 'Order._set_or_generate_order_id'])
def order_init(c):
    q = c.real('q')
    c.assume(NE(q, 0))            # orders carry a non-zero quantity (and -0.0 is outside the copysign model)
    t, a = c.time('dt'), c.key('asset')
    o = Order(t, a, q)
    c.ob('direction-is-sign-of-quantity', EQ(o.direction, ITE(GE(q, 0), 1.0, -1.0)))
    c.ob('fields-are-the-arguments', AND(EQ(o.quantity, q), EQ(o.created_dt, t), EQ(o.cur_dt, t), EQ(o.asset, a)))


canary('order direction sign flipped', Order, '__init__', 'np.copysign(1, self.quantity)', 'np.copysign(1, -self.quantity)')(order_init)


# ===================================================================================== _execute_order
def _quote(c, W, dt, a):
    if c.mode == 'sym':
        t = lift(dt)
        return SymNum(BIDF(t, liftk(a))), SymNum(ASKF(t, liftk(a)))
    t = c.tterm(dt)
    return (c.ceval(BIDF(t, c.keyterm(a)), lambda r: round(r.uniform(5, 200), 2)),
            c.ceval(ASKF(t, c.keyterm(a)), lambda r: round(r.uniform(5, 200), 2)))


def _fee(c, a, q, cons):
    if c.mode == 'sym':
        return SymNum(FEEF(liftk(a), lift(q), lift(cons)))
    return c.ceval(FEEF(c.keyterm(a), z3.RealVal(repr(float(q))), z3.RealVal(repr(float(cons)))), lambda r: round(0.0015 * abs(cons), 6))


def _an_order(c, W, name, assets):
    """an arbitrary order satisfying the Order class invariant"""
    if c.mode == 'sym':
        o = c._const(name, O)
        c.assume(order_inv(o))
        return OrderRef(o)
    a = assets[c._cval(name + '.asset_ix', lambda r: r.randint(0, len(assets) - 1), int) % len(assets)]
    q = c.real(name + '.qty', lambda r: float(r.choice([-70, -10, -1, 1, 15, 200])))
    c.assume(q != 0)
    return Order(c.time(name + '.created'), a, q, commission=c.real(name + '.commission_field', lambda r: r.choice([0.0, 0.0, 5.0, -5.0])))


@harness('SimulatedBroker._execute_order', props=['C05', 'C04', 'C01', 'C02', 'C07'], also=['C09', 'C08'], layer='L2', functions=BR_FUNCS)
def br_execute(c):
    """one fill: quote read once at (dt, asset); ask for a buy, bid for a sell; stamped with the broker clock; the
       whole order quantity; commission = fee model on round(price x quantity); one transact_asset on that portfolio.
       (an EARLIER execution in the same update - any asset, any side - must not influence this one)"""
    pid, w, a, a2 = c.key('pid'), c.key('w'), c.key('a'), c.key('a2')
    c.assume(NE(pid, w))
    W, b = world(c, [pid, w], [a, a2])
    dt = c.time('dt')
    now = b.current_dt
    c.assume(B_(W.exists(pid)))
    earlier = _an_order(c, W, 'earlier_order', [a, a2])
    order = _an_order(c, W, 'the_order', [a, a2])
    for od in (earlier, order):
        bid, ask = _quote(c, W, dt, od.asset)
        # precondition (C04/C05 quantifier): the asset has a quote at the fill time, positive prices, non-negative fees
        if c.mode == 'sym':
            t, x = lift(dt), liftk(od.asset)
            c.assume(z3.And(z3.Not(BIDNAN(t, x)), z3.Not(ASKNAN(t, x))))
        c.assume(AND(GT(bid, 0), GT(ask, 0)))
    # non-decreasing clocks (the raising paths are C15's)
    c.assume(GE(now, W.clock_(pid)))
    for x in ((earlier.asset, order.asset) if c.mode == 'sym' else (a, a2)):
        if c.mode == 'sym':
            W.inst(liftk(pid), liftk(x))
            c.assume(IMPLIES(W.held_(pid, x), GE(now, W.pclk_(pid, x))))
        elif W.held_(pid, x):
            c.assume(now >= W.pclk_(pid, x))
    if c.mode == 'conc':
        _zero_priced_side_of_a_quote(c)
    r0, _ = outcome(lambda: b._execute_order(dt, pid, earlier))
    if r0 != 'ok':
        c.ob('fills-under-the-precondition', False, props=['C04', 'C09', 'C08'])
        return
    pre = W.snapshot()
    nf, nq, nfee = len(W.fills), len(W.queries), len(W.fee_calls)
    r, _ = outcome(lambda: b._execute_order(dt, pid, order))
    c.ob('fills-under-the-precondition', r == 'ok', props=['C04', 'C09', 'C08'])
    if r != 'ok':
        return
    oa, oq = order.asset, order.quantity
    bid, ask = _quote(c, W, dt, oa)
    price = ITE(GT(oq, 0), ask, bid)
    qs = W.queries[nq:]
    c.ob('quote-read-at-the-given-time-for-the-order-asset', AND(len(qs) >= 1, *[AND(EQ(q[1], dt), EQ(q[2], oa)) for q in qs]), props=['C05', 'C07'])
    fl = W.fills[nf:]
    ok = len(fl) == 1
    c.ob('exactly-one-fill', ok, props=['C04', 'C05', 'C09', 'C08'])
    if not ok:
        return
    f = fl[0]
    c.ob('fill-on-the-ordering-portfolio', EQ(f['p'] if isinstance(f['p'], str) else SymKey(f['p']), pid), props=['C04', 'C01'])
    c.ob('fill-asset-and-full-quantity', AND(EQ(f['asset'] if isinstance(f['asset'], str) else SymKey(f['asset']), oa), EQ(f['quantity'], oq)), props=['C04', 'C09', 'C08'])       # (C09/C08: an order that reaches the broker is filled in full)
    c.ob('fill-stamped-with-broker-clock', EQ(f['dt'], now), props=['C05'])
    c.ob('fill-priced-at-ask-for-buy-bid-for-sell', EQ(f['price'], price), props=['C05'])
    cons = ROUND0(price * oq)
    fee = _fee(c, oa, oq, cons)
    fc = W.fee_calls[nfee:]
    c.ob('commission-is-fee-model-on-rounded-consideration',
         AND(len(fc) == 1, *[AND(EQ(x[0] if isinstance(x[0], str) else SymKey(x[0]), oa), EQ(x[1], oq), EQ(x[2], cons)) for x in fc],
             EQ(f['commission'], fee)), props=['C05'])
    total = price * oq + fee
    c.ob('cash-debited-by-price-times-quantity-plus-commission', EQ(W.cash(pid), W.cash(pid, pre) - total, 1e6), props=['C01', 'C05'])
    c.ob('holding-increases-by-order-quantity', EQ(W.qty_(pid, oa), W.qty_(pid, oa, pre) + oq), props=['C02', 'C04'])
    c.ob('mark-is-fill-price', IMPLIES(W.held_(pid, oa), EQ(W.price_(pid, oa), price)), props=['C02'])
    c.ob('master-other-portfolios-and-queues-untouched',
         AND(W.all_same(pre, ('master', 'portfolios', 'pending')), W.portfolio_same(w, pre)), props=['C01', 'C04'])


@harness('SimulatedBroker._execute_order(stale clock)', props=['C15'], layer='L2', functions=BR_FUNCS)
def br_execute_stale(c):
    """an execution while the broker clock is EARLIER than the portfolio's clock is refused (ValueError, by the portfolio)
       and leaves cash, holdings, queues and histories as they were - it is never stamped with some later time and accepted"""
    pid, a = c.key('pid'), c.key('a')
    W, b = world(c, [pid], [a])
    dt = c.time('dt')
    now = b.current_dt
    c.assume(B_(W.exists(pid)))
    order = _an_order(c, W, 'the_order', [a])
    bid, ask = _quote(c, W, dt, order.asset)
    if c.mode == 'sym':
        t, x = lift(dt), liftk(order.asset)
        c.assume(z3.And(z3.Not(BIDNAN(t, x)), z3.Not(ASKNAN(t, x))))
    c.assume(AND(GT(bid, 0), GT(ask, 0)))
    c.assume(LT(now, W.clock_(pid)))
    pre = W.snapshot()
    r, _ = outcome(lambda: b._execute_order(dt, pid, order))
    c.ob('stale-execution-refused/type-ValueError', r == 'ValueError')
    if r != 'ok':
        refusal_clauses(c, W, pre)


canary('fill stamped with the later of the two clocks', SimulatedBroker, '_execute_order',
       'order.asset, scaled_quantity, self.current_dt,', 'order.asset, scaled_quantity, max(self.current_dt, self.portfolios[portfolio_id].current_dt),')(br_execute_stale)
canary('bid and ask swapped', SimulatedBroker, '_execute_order', 'price = bid_ask[1]\n', 'price = bid_ask[0]\n')(br_execute)
canary('commission on unrounded consideration', SimulatedBroker, '_execute_order',
       'consideration = round(price * order.quantity)', 'consideration = price * order.quantity')(br_execute)
canary('fill stamped with the order creation time', SimulatedBroker, '_execute_order',
       'order.asset, scaled_quantity, self.current_dt,', 'order.asset, scaled_quantity, order.created_dt,')(br_execute)
canary('commission computed but not charged', SimulatedBroker, '_execute_order',
       'commission=total_commission', 'commission=0.0')(br_execute)
canary('partial fill', SimulatedBroker, '_execute_order', 'scaled_quantity = order.quantity', 'scaled_quantity = order.quantity - 1')(br_execute)


# ============================================================================================= update
LEDGER = z3.Function('LEDGER', SO, K, R)              # ghost: sum of (price x quantity + commission) over the fills of a portfolio
NETQ = z3.Function('NET_FILLED', SO, K, K, R)         # ghost: signed quantity filled for (portfolio, asset)
FILLCOST = z3.Function('FILL_COST', O, R)             # ghost: cost of the fill of an executed order
ALLIN = z3.Function('ALL_OWNERS_EXIST', SO, B)        # ghost: every order of the sequence belongs to an existing portfolio
U = 'SimulatedBroker.update#'
L_MARK_P, L_MARK_A = U + 'for self.portfolios#0', U + 'for self.portfolios[_].pos_handler.positions#0'
L_DRAIN_P, L_DRAIN_W, L_EXEC = U + 'for self.portfolios#1', U + 'while not self.open_orders[_].empty()#0', U + 'for _#0'


def sel2(arr, p, a):
    return z3.Select(z3.Select(arr, p), a)


class _UpdateCtx:
    """shared ghost state of the five loops of update() for one harness run"""

    def __init__(self, c, W, dt, p0, a0):
        self.c, self.W, self.t, self.p0, self.a0 = c, W, lift(dt), liftk(p0), liftk(a0)
        self.exec = NOSEQ
        self.pts = [self.p0]
        self.marked_pre = W.snapshot()


def _ob(c, name, f, kind='A', **kw):
    c.ob(name, f, kind=kind, **kw)


class MarkOuter:
    """for portfolio in self.portfolios: (mark every held asset).   Only marks and position clocks change:
       processed portfolios have every held asset marked at mid(dt), unprocessed ones are untouched."""

    def __init__(self, G, lid, it, env):
        self.G, self.W = G, G.W
        self.S = self.W.snapshot()
        self.done = None

    def inv(self, done, pts):
        W, S, G = self.W, self.S, self.G
        out = []
        for p in pts:
            h = sel2(S['held'], p, G.a0)
            out.append(z3.Implies(z3.Select(done, p), z3.Select(S['pdom'], p)))
            out.append(sel2(W.price, p, G.a0) == z3.If(z3.And(z3.Select(done, p), h), MIDF(G.t, G.a0), sel2(S['price'], p, G.a0)))
            out.append(sel2(W.pclk, p, G.a0) == z3.If(z3.And(z3.Select(done, p), h), G.t, sel2(S['pclk'], p, G.a0)))
            out.append(z3.Implies(z3.And(z3.Select(done, p), h), MIDF(G.t, G.a0) >= 0))       # a negative mark would have been refused
            out.append(z3.Implies(z3.Not(z3.Select(done, p)), z3.And(z3.Select(W.price, p) == z3.Select(S['price'], p),
                                                                      z3.Select(W.pclk, p) == z3.Select(S['pclk'], p))))
        return z3.And(*out)

    def havoc(self, env, names, state=()):
        c = self.G.c
        heap.check_state(L_MARK_P, state, ())
        _ob(c, '#mark-portfolios:init', self.inv(EMPTY, [self.G.p0]))
        self.done = c.fresh('marked_portfolios', AKB)
        self.W.havoc(['price', 'pclk'], 'mark')
        return tuple(env.get(n) for n in names)

    def more(self, env):
        c, W = self.G.c, self.W
        c.assume(self.inv(self.done, [self.G.p0]))
        d = c.decide(self.done != W.pdom)
        if d:
            k = c.fresh('mark_p', K)
            c.assume(z3.And(z3.Select(W.pdom, k), z3.Not(z3.Select(self.done, k))))
            c.assume(self.inv(self.done, [k]))
            self.k = k
        else:
            c.assume(self.done == W.pdom)
        return d

    def next(self, env):
        return SymKey(self.k)

    def preserved(self, env):
        _ob(self.G.c, '#mark-portfolios:preserved', self.inv(z3.Store(self.done, self.k, True), [self.G.p0, self.k]))
        raise Abort()

    def exit(self, env, names):
        return tuple(env.get(n) for n in names)


class MarkInner:
    """for asset in positions of portfolio k: mark.  Processed assets of k carry mid(dt); everything else untouched."""

    def __init__(self, G, lid, it, env):
        self.G, self.W = G, G.W
        if not hasattr(it, 'owner'):
            raise Unmodelled('marking loop does not iterate the positions of a portfolio')
        self.k = liftk(it.owner)           # bound by role (the portfolio whose positions are iterated), not by local name
        self.S = self.W.snapshot()
        self.dom = z3.Select(self.W.held, self.k)

    def inv(self, done, pts):
        W, S, G, k = self.W, self.S, self.G, self.k
        out = []
        for a in pts:
            out.append(z3.Implies(z3.Select(done, a), z3.Select(self.dom, a)))
            out.append(z3.Implies(z3.Select(done, a), MIDF(G.t, a) >= 0))
            out.append(sel2(W.price, k, a) == z3.If(z3.Select(done, a), MIDF(G.t, a), sel2(S['price'], k, a)))
            out.append(sel2(W.pclk, k, a) == z3.If(z3.Select(done, a), G.t, sel2(S['pclk'], k, a)))
        # other portfolios untouched by this inner loop (instantiated at the focus portfolio)
        out.append(z3.Implies(G.p0 != k, z3.And(z3.Select(W.price, G.p0) == z3.Select(S['price'], G.p0),
                                                z3.Select(W.pclk, G.p0) == z3.Select(S['pclk'], G.p0))))
        return z3.And(*out)

    def havoc(self, env, names, state=()):
        c = self.G.c
        heap.check_state(L_MARK_A, state, ())
        _ob(c, '#mark-assets:init', self.inv(EMPTY, [self.G.a0]))
        self.done = c.fresh('marked_assets', AKB)
        self.W.havoc(['price', 'pclk'], 'markA')
        return tuple(env.get(n) for n in names)

    def more(self, env):
        c, W = self.G.c, self.W
        c.assume(self.inv(self.done, [self.G.a0]))
        d = c.decide(self.done != self.dom)
        if d:
            x = c.fresh('mark_a', K)
            c.assume(z3.And(z3.Select(self.dom, x), z3.Not(z3.Select(self.done, x))))
            c.assume(self.inv(self.done, [x]))
            c.assume(z3.Not(MIDNAN(self.G.t, x)))            # C02 quantifier: a held asset has a quote to be marked at
            self.x = x
        else:
            c.assume(self.done == self.dom)
        return d

    def next(self, env):
        return SymKey(self.x)

    def preserved(self, env):
        c = self.G.c
        # kernel (C02): the asset just processed is marked at the mid price of dt, queried at dt
        _ob(c, 'mark/held-asset-marked-at-mid-of-dt', sel2(self.W.price, self.k, self.x) == MIDF(self.G.t, self.x), kind='P', props=['C02', 'C07'])
        _ob(c, '#mark-assets:preserved', self.inv(z3.Store(self.done, self.x, True), [self.G.a0, self.x]))
        raise Abort()

    def exit(self, env, names):
        # at exit every held asset of k is marked; hand the fact on in the outer loop's form (array equality for k)
        return tuple(env.get(n) for n in names)


def _acc_name(lid, state):
    """the drain loops carry exactly ONE accumulator (the batch list), whatever the code calls it"""
    if len(state) != 1:
        raise Unmodelled('loop %s carries state %s; its invariant covers exactly one accumulator' % (lid, ', '.join(state) or '(none)'))
    return state[0]


def _orders(env, W, name='orders'):
    o = env.get(name)
    if isinstance(o, OrdersList):
        return o
    if isinstance(o, list) and not o:
        return OrdersList(W)
    raise Unmodelled('unexpected value of the batch accumulator `%s`' % name)


class DrainOuter:
    """for portfolio in self.portfolios: drain its queue into `orders`.
       processed queues are empty, unprocessed untouched; PROJ(orders, p0) is p0's whole former queue once processed"""

    def __init__(self, G, lid, it, env):
        self.G, self.W = G, G.W
        self.S = self.W.snapshot()

    def inv(self, orders, done, pts):
        W, S, G = self.W, self.S, self.G
        out = [PROJ(orders.seq, G.p0) == z3.If(z3.And(z3.Select(done, G.p0), z3.Select(S['pdom'], G.p0)), z3.Select(S['Q'], G.p0), NOSEQ),
               ALLIN(orders.seq)]
        for p in pts:
            out.append(z3.Implies(z3.Select(done, p), z3.Select(S['pdom'], p)))
            out.append(z3.Select(W.Q, p) == z3.If(z3.Select(done, p), NOSEQ, z3.Select(S['Q'], p)))
        return z3.And(*out)

    def havoc(self, env, names, state=()):
        c = self.G.c
        self.acc = _acc_name(L_DRAIN_P, state)
        c.assume(ALLIN(NOSEQ))
        _ob(c, '#drain-portfolios:init', self.inv(_orders(env, self.W, self.acc), EMPTY, [self.G.p0]))
        self.done = c.fresh('drained', AKB)
        self.W.havoc(['Q'], 'drain')
        new = OrdersList(self.W, c.fresh('orders', SO))
        return tuple(new if n == self.acc else env.get(n) for n in names)

    def more(self, env):
        c, W = self.G.c, self.W
        c.assume(self.inv(env[self.acc], self.done, [self.G.p0]))
        d = c.decide(self.done != W.pdom)
        if d:
            k = c.fresh('drain_p', K)
            c.assume(z3.And(z3.Select(W.pdom, k), z3.Not(z3.Select(self.done, k))))
            c.assume(self.inv(env[self.acc], self.done, [k]))
            c.assume(ALLOWNED(z3.Select(self.S['Q'], k), k))          # queue invariant of portfolio k
            self.k = self.G.cur_k = k
        else:
            c.assume(self.done == W.pdom)
        return d

    def next(self, env):
        return SymKey(self.k)

    def preserved(self, env):
        _ob(self.G.c, '#drain-portfolios:preserved', self.inv(env[self.acc], z3.Store(self.done, self.k, True), [self.G.p0, self.k]))
        raise Abort()

    def exit(self, env, names):
        return tuple(env.get(n) for n in names)


class DrainInner:
    """while not queue(k).empty(): orders.append((k, queue(k).get()))"""

    def __init__(self, G, lid, it, env):
        self.G, self.W = G, G.W
        if getattr(G, 'cur_k', None) is None:
            raise Unmodelled('queue-draining loop outside the loop over portfolios')
        self.k = G.cur_k                   # bound by role: the portfolio of the enclosing iteration
        self.S = self.W.snapshot()
        self.env0 = env

    def inv(self, orders):
        W, S, G, k = self.W, self.S, self.G, self.k
        return z3.And(
            z3.If(k == G.p0, z3.Concat(PROJ(orders.seq, G.p0), z3.Select(W.Q, k)) == z3.Concat(PROJ(self.o3.seq, G.p0), z3.Select(S['Q'], k)),
                  PROJ(orders.seq, G.p0) == PROJ(self.o3.seq, G.p0)),
            z3.Implies(k != G.p0, z3.Select(W.Q, G.p0) == z3.Select(S['Q'], G.p0)),
            ALLOWNED(z3.Select(W.Q, k), k), ALLIN(orders.seq))

    def havoc(self, env, names, state=()):
        c = self.G.c
        self.acc = _acc_name(L_DRAIN_W, state)
        self.o3 = _orders(env, self.W, self.acc)
        _ob(c, '#drain-queue:init', self.inv(self.o3))
        self.W.havoc(['Q'], 'drainW')
        new = OrdersList(self.W, c.fresh('orders_w', SO))
        return tuple(new if n == self.acc else env.get(n) for n in names)

    def assume_inv(self, env):
        self.G.c.assume(self.inv(env[self.acc]))
        self.before = env[self.acc].seq

    def preserved(self, env):
        c = self.G.c
        o = env[self.acc]
        # ghost unfolding: the appended order belongs to the existing portfolio k
        _ob(c, '#drain-queue:preserved', z3.Implies(ALLIN(o.seq) == z3.And(ALLIN(self.before), z3.Select(self.W.pdom, self.k)), self.inv(o)))
        raise Abort()

    def exit(self, env, names):
        return tuple(env.get(n) for n in names)


class ExecLoop:
    """for portfolio, order in sorted_orders: self._execute_order(dt, portfolio, order)
       ghost split of the batch T = EXECUTED ++ REST; one arbitrary iteration executes the head of REST"""

    def __init__(self, G, lid, it, env):
        if not isinstance(it, SortedOrders):
            raise Unmodelled('execution loop does not iterate the sorted batch')
        self.G, self.W, self.T = G, G.W, it.seq
        G.sorted_seq = it.seq
        self.S = self.W.snapshot()
        G.c.assume(ALLIN(self.T) == ALLIN(it.src))          # contract of sorted(): a permutation of its argument

    def inv(self, E, rest):
        W, S, G = self.W, self.S, self.G
        return [('batch-is-executed-plus-rest', self.T == z3.Concat(E, rest)),
                ('cash-ledger', z3.Select(W.cashA, G.p0) == z3.Select(S['cashA'], G.p0) - LEDGER(E, G.p0)),
                ('quantity-ledger', sel2(W.qty, G.p0, G.a0) == sel2(S['qty'], G.p0, G.a0) + NETQ(E, G.p0, G.a0)),
                ('held-iff-nonzero', sel2(W.held, G.p0, G.a0) == (sel2(W.qty, G.p0, G.a0) != 0)),
                ('portfolios-queues-master-untouched', z3.And(W.pdom == S['pdom'], W.qdom == S['qdom'], W.Q == S['Q']))]

    def havoc(self, env, names, state=()):
        c, G = self.G.c, self.G
        heap.check_state(L_EXEC, state, ())
        c.assume(LEDGER(NOSEQ, G.p0) == 0)
        c.assume(NETQ(NOSEQ, G.p0, G.a0) == 0)
        for n, f in self.inv(NOSEQ, self.T):
            _ob(c, '#execute-batch:init/' + n, f)
        G.exec = c.fresh('executed', SO)
        self.rest = c.fresh('to_execute', SO)
        self.W.havoc(['cashA', 'clock', 'held', 'qty', 'price', 'pclk'], 'exec')
        return tuple(env.get(n) for n in names)

    def more(self, env):
        c = self.G.c
        for n, f in self.inv(self.G.exec, self.rest):
            c.assume(f)
        d = c.decide(z3.Length(self.rest) > 0)
        if not d:
            c.assume(self.rest == NOSEQ)
        return d

    def next(self, env):
        c, W, G = self.G.c, self.W, self.G
        o, rest2 = c.fresh('exec_o', O), c.fresh('to_execute', SO)
        c.assume(self.rest == z3.Concat(z3.Unit(o), rest2))
        self.o, self.rest2 = o, rest2
        c.assume(z3.Implies(ALLIN(self.T), z3.Select(W.pdom, OWNER(o))))     # ghost: ALL_OWNERS_EXIST unfolded at this element
        t, a = G.t, O_ASSET(o)
        # C04 quantifier: the asset has a (positive) quote at the fill time
        c.assume(z3.And(z3.Not(BIDNAN(t, a)), z3.Not(ASKNAN(t, a)), BIDF(t, a) > 0, ASKF(t, a) > 0))
        W.inst_now(OWNER(o), a)
        self.nf0 = len(W.fills)
        self.nq0 = len(W.queries)
        return (SymKey(OWNER(o)), OrderRef(o))

    def preserved(self, env):
        c, W, G, o = self.G.c, self.W, self.G, self.o
        new = W.fills[self.nf0:]
        ok = len(new) == 1
        _ob(c, 'open/each-batched-order-filled-exactly-once', ok, kind='P', props=['C04', 'C01'])
        if ok:
            f = new[0]
            _ob(c, 'open/fill-is-on-the-owning-portfolio-in-full', z3.And(f['p'] == OWNER(o), f['asset'] == O_ASSET(o), f['quantity'] == O_QTY(o)), kind='P', props=['C04', 'C01'])
            _ob(c, 'open/fill-stamped-and-quoted-at-dt', z3.And(f['dt'] == G.t, *[q[1] == G.t for q in W.queries[self.nq0:]]), kind='P', props=['C05', 'C07'])
            cost = f['price'] * f['quantity'] + f['commission']
            c.assume(FILLCOST(o) == cost)
            E2 = z3.Concat(G.exec, z3.Unit(o))
            # ghost unfolding of the ledgers at the executed order
            c.assume(LEDGER(E2, G.p0) == LEDGER(G.exec, G.p0) + z3.If(OWNER(o) == G.p0, FILLCOST(o), 0))
            c.assume(NETQ(E2, G.p0, G.a0) == NETQ(G.exec, G.p0, G.a0) + z3.If(z3.And(OWNER(o) == G.p0, O_ASSET(o) == G.a0), O_QTY(o), 0))
            for n, g in self.inv(E2, self.rest2):
                _ob(c, '#execute-batch:preserved/' + n, g)
        raise Abort()

    def exit(self, env, names):
        return tuple(env.get(n) for n in names)


def _register_update_loops(G):
    heap.LOOPSPEC[L_MARK_P] = lambda lid, it, env: MarkOuter(G, lid, it, env)
    heap.LOOPSPEC[L_MARK_A] = lambda lid, it, env: MarkInner(G, lid, it, env)
    heap.LOOPSPEC[L_DRAIN_P] = lambda lid, it, env: DrainOuter(G, lid, it, env)
    heap.LOOPSPEC[L_DRAIN_W] = lambda lid, it, env: DrainInner(G, lid, it, env)
    heap.LOOPSPEC[L_EXEC] = lambda lid, it, env: ExecLoop(G, lid, it, env)


def _unregister_update_loops():
    for k in (L_MARK_P, L_MARK_A, L_DRAIN_P, L_DRAIN_W, L_EXEC):
        heap.LOOPSPEC.pop(k, None)


@harness('SimulatedBroker.update', props=['C04', 'C02', 'C01', 'C15', 'C07', 'C18'], also=['C09', 'C08'], layer='L2', functions=BR_FUNCS)
def br_update(c):
    """update(dt): marks every holding at mid(dt); exchange closed -> nothing else changes; exchange open -> every pending
       order of every portfolio is filled exactly once, in full, the batch ordered sells-first / submission order, queues
       left empty, cash moved only by those fills; a refusal must leave everything as it was (C15)"""
    if c.mode == 'conc':
        return br_update_conc(c)
    p0, a0 = c.key('p0'), c.key('a0')
    W, b = world(c)
    dt = c.time('dt')
    W.add_focus(p0)
    W.inst(liftk(p0), liftk(a0))
    G = _UpdateCtx(c, W, dt, p0, a0)
    _register_update_loops(G)
    pre = W.pre
    # MID is positive / not NaN where a quote exists; (non-positive or earlier marks are refusals, see C15 clauses)
    try:
        r, _ = outcome(lambda: b.update(dt))
    finally:
        _unregister_update_loops()
    opened = OPENF(lift(dt))
    if r != 'ok':
        site = 'Portfolio.%s' % (W.refusals[-1][0] if W.refusals else '?')
        c.ob('raises-only-documented-type-ValueError', r == 'ValueError', props=['C15'], raise_site=site)
        for n, f in protected_unchanged(W, pre):
            c.ob('unchanged-on-raise@%s/%s' % (site, n), f, props=['C15'], raise_site=site)
        return
    P0, A0 = liftk(p0), liftk(a0)
    c.ob('clock-set-to-dt', EQ(b.current_dt, dt), kind='A')
    c.ob('all-quotes-read-at-dt', AND(*[q[1] == lift(dt) for q in W.queries]), props=['C07'])
    c.ob('portfolio-set-and-master-cash-untouched', AND(W.pdom == pre['pdom'], W.qdom == pre['qdom'], W.master_same(pre)), props=['C01', 'C04'])
    held0 = sel2(pre['held'], P0, A0)
    # "never a silent acceptance": an update that went through did not have to refuse a negative mark of a held asset
    c.ob('accepted-only-if-no-held-asset-has-a-negative-mark', IMPLIES(z3.And(z3.Select(pre['pdom'], P0), held0), MIDF(lift(dt), A0) >= 0), props=['C15'])
    if not c.decide(opened):
        c.ob('closed/pending-orders-untouched', W.Q == pre['Q'], props=['C04'])
        c.ob('closed/cash-holdings-history-untouched', AND(W.cashA == pre['cashA'], W.held == pre['held'], W.qty == pre['qty'],
                                                            len(W.events) == 0, len(W.fills) == 0), props=['C04', 'C01', 'C02'])
        c.ob('closed/held-assets-marked-at-mid-of-dt-others-untouched',
             sel2(W.price, P0, A0) == z3.If(z3.And(z3.Select(pre['pdom'], P0), held0), MIDF(lift(dt), A0), sel2(pre['price'], P0, A0)), props=['C02'])
        return
    c.ob('open/all-queues-drained', IMPLIES(z3.Select(pre['pdom'], P0), W.pending(p0) == NOSEQ), props=['C04'])
    c.ob('open/other-ids-have-no-queue-effect', IMPLIES(z3.Not(z3.Select(pre['pdom'], P0)), W.pending(p0) == W.pending(p0, pre)), kind='A')
    c.ob('open/fills-of-a-portfolio-are-its-pending-orders-sells-first-in-submission-order',
         IMPLIES(z3.Select(pre['pdom'], P0), PROJ(G.exec, P0) == SP(z3.Select(pre['Q'], P0))), props=['C04', 'C18', 'C01', 'C09', 'C08'])
    i, j = c.fresh('wi', z3.IntSort()), c.fresh('wj', z3.IntSort())
    so = [x for x in [G] if True]
    c.ob('open/no-buy-executed-before-a-sell-in-one-update',
         IMPLIES(z3.And(0 <= i, i < j, j < z3.Length(G.exec)), O_DIR(G.exec[i]) <= O_DIR(G.exec[j])),
         props=['C04'], extra=[_sorted_fact(G, i, j)])
    c.ob('open/cash-moves-only-by-the-fills', z3.Select(W.cashA, P0) == z3.Select(pre['cashA'], P0) - LEDGER(G.exec, P0), props=['C01'])
    c.ob('open/holding-is-previous-plus-filled-quantity', sel2(W.qty, P0, A0) == sel2(pre['qty'], P0, A0) + NETQ(G.exec, P0, A0), props=['C02'])
    c.ob('open/held-iff-net-quantity-nonzero', sel2(W.held, P0, A0) == (sel2(W.qty, P0, A0) != 0), props=['C02'])


def _sorted_fact(G, i, j):
    """assumed contract of sorted(key=direction) at the witness indices (the executed batch IS the sorted batch)"""
    s = G.sorted_seq if hasattr(G, 'sorted_seq') else None
    if s is None:
        return z3.BoolVal(True)
    return z3.Implies(z3.And(0 <= i, i < j, j < z3.Length(s)), O_DIR(s[i]) <= O_DIR(s[j]))


def _stable_partition(orders):
    return [o for o in orders if o[1] < 0] + [o for o in orders if o[1] >= 0]


def br_update_conc(c):
    """the same clauses evaluated natively on a REAL broker (two portfolios, two assets, real queues and orders)"""
    import traceback as _tb
    _net_zero_book_is_marked(c)
    _order_of_nothing_is_executed_once(c)
    p0, p1, a0, a1 = c.key('p0'), c.key('p1'), c.key('a0'), c.key('a1')
    W = RealWorld(c, [p0, p1], [a0, a1])
    b = W.b
    now = b.current_dt
    import pandas as pd
    dt = c.time('dt') if 'dt' in c.values or c.rng is None else now + pd.Timedelta(seconds=c.rng.choice([0, 0, 3600, 86400, -3600]))
    c.values.setdefault('dt', float(dt.timestamp()))
    pre = W.pre
    try:
        b.update(dt)
        r = 'ok'
    except (ValueError, KeyError, TypeError, AttributeError) as e:
        r = type(e).__name__
        frames = [f.name for f in _tb.extract_tb(e.__traceback__) if f.name in ('transact_asset', 'update_market_value_of_asset', 'subscribe_funds', 'withdraw_funds')]
        site = 'Portfolio.%s' % (frames[0] if frames else '?')
    if r != 'ok':
        c.ob('raises-only-documented-type-ValueError', r == 'ValueError', props=['C15'], raise_site=site)
        for n, f in protected_unchanged_conc(W, pre):
            c.ob('unchanged-on-raise@%s/%s' % (site, n), f, props=['C15'], raise_site=site)
        return
    c.ob('clock-set-to-dt', EQ(b.current_dt, dt), kind='A')
    c.ob('all-quotes-read-at-dt', all(q[1] == dt for q in W.queries), props=['C07'])
    c.ob('portfolio-set-and-master-cash-untouched', W.all_same(pre, ('portfolios', 'master')), props=['C01', 'C04'])
    opened = b.exchange.is_open_at_datetime(dt)
    mid = lambda a: b.data_handler.get_asset_latest_mid_price(dt, a)
    c.ob('accepted-only-if-no-held-asset-has-a-negative-mark', all(not (mid(a) < 0) for p in pre['pf'] for a in pre['pf'][p]['pos']), props=['C15'])
    if not opened:
        c.ob('closed/pending-orders-untouched', W.all_same(pre, ('pending',)), props=['C04'])
        c.ob('closed/cash-holdings-history-untouched', AND(W.all_same(pre, ('cash', 'holdings', 'history')), len(W.fills) == 0), props=['C04', 'C01', 'C02'])
        c.ob('closed/held-assets-marked-at-mid-of-dt-others-untouched',
             all(EQ(W.price_(p, a), mid(a)) for p in pre['pf'] for a in pre['pf'][p]['pos']), props=['C02'])
        return
    pend = {p: [(x[0], x[1]) for x in pre['pf'][p]['pending']] for p in pre['pf']}
    fills = [(f['p'], f['asset'], f['quantity']) for f in W.fills]
    filled = {(f['p'], f['asset']) for f in W.fills}
    c.ob('open/held-assets-not-traded-are-marked-at-mid-of-dt',
         all(EQ(W.price_(p, a), mid(a)) for p in pre['pf'] for a in pre['pf'][p]['pos'] if (p, a) not in filled and W.held_(p, a)), props=['C02'])
    c.ob('open/all-queues-drained', all(W.pending_empty(p) for p in pre['pf']), props=['C04'])
    c.ob('open/fills-of-a-portfolio-are-its-pending-orders-sells-first-in-submission-order',
         all([(a, q) for (pp, a, q) in fills if pp == p] == _stable_partition(pend[p]) for p in pre['pf']), props=['C04', 'C18', 'C01', 'C09', 'C08'])
    qs = [q for (_, _, q) in fills]
    c.ob('open/no-buy-executed-before-a-sell-in-one-update', all(not (qs[i] > 0 and qs[j] < 0) for i in range(len(qs)) for j in range(i + 1, len(qs))), props=['C04'])
    c.ob('open/each-batched-order-filled-exactly-once', len(fills) == sum(len(v) for v in pend.values()), props=['C04', 'C01'])
    c.ob('open/fill-stamped-and-quoted-at-dt', all(f['dt'] == dt for f in W.fills), props=['C05', 'C07'])
    for p in pre['pf']:
        cost = sum(f['price'] * f['quantity'] + f['commission'] for f in W.fills if f['p'] == p)
        c.ob('open/cash-moves-only-by-the-fills', EQ(W.cash(p), W.cash(p, pre) - cost, abs(cost) + abs(W.cash(p, pre))), props=['C01'])
        for a in (a0, a1):
            nq = sum(f['quantity'] for f in W.fills if f['p'] == p and f['asset'] == a)
            c.ob('open/holding-is-previous-plus-filled-quantity', EQ(W.qty_(p, a), W.qty_(p, a, pre) + nq), props=['C02'])
            c.ob('open/held-iff-net-quantity-nonzero', W.held_(p, a) == (W.qty_(p, a) != 0), props=['C02'])


# ===================================================================================== construction
@harness('SimulatedBroker.__init__', props=['C01', 'C15', 'C08'], layer='L2', functions=BR_FUNCS)
def br_init(c):
    """a new broker: master balance = initial funds in the base currency, zero elsewhere, no portfolios, no queues;
       unsupported base currency -> ValueError, negative initial funds -> ValueError, non-FeeModel -> TypeError"""
    from qstrader.broker.fee_model.zero_fee_model import ZeroFeeModel
    funds = c.real('initial_funds', lambda r: r.choice([-5.0, 0.0, 0.0, 1e6, 2500.5]))
    t = c.time('start')
    supported = ('USD', 'GBP', 'EUR')
    for cur in supported + ('XXX', 'usd', 'Gbp', 'eUR', 'US', 'USDX', ''):
        r, b = outcome(lambda: SimulatedBroker(t, None, None, base_currency=cur, initial_funds=funds, fee_model=ZeroFeeModel()))
        want = 'ValueError' if cur not in supported else expected([(funds < 0.0, 'ValueError')])
        c.ob('%s/refused-iff-unsupported-currency-or-negative-funds' % cur, r == want, props=['C15', 'C01'])
        if r != 'ok':
            continue
        c.ob('%s/base-currency-holds-the-initial-funds' % cur, EQ(b.cash_balances[cur], funds), props=['C01'])
        c.ob('%s/other-currencies-start-at-zero' % cur, AND(*[EQ(b.cash_balances[k], 0) for k in CURRENCIES if k != cur]), props=['C01'])
        c.ob('%s/no-portfolios-no-queues' % cur, AND(len(b.portfolios) == 0, len(b.open_orders) == 0, b.portfolios is not b.open_orders), props=['C01', 'C04'])
        c.ob('%s/clock-is-start' % cur, EQ(b.current_dt, t), kind='A')
    r, _ = outcome(lambda: SimulatedBroker(t, None, None, fee_model=object()))
    c.ob('non-fee-model-refused/type-TypeError', r == 'TypeError', props=['C15'])
    # "unsupported" means: not in settings.SUPPORTED at the time of the request (not at import time)
    from qstrader import settings as _qs
    saved = _qs.SUPPORTED['CURRENCIES']
    _qs.SUPPORTED['CURRENCIES'] = [x for x in saved if x != 'EUR']
    try:
        r, _ = outcome(lambda: SimulatedBroker(t, None, None, base_currency='EUR', initial_funds=0.0, fee_model=ZeroFeeModel()))
    finally:
        _qs.SUPPORTED['CURRENCIES'] = saved
    c.ob('currency-removed-from-the-settings-refused/type-ValueError', r == 'ValueError', props=['C15'])
    fm = ZeroFeeModel()
    r, b = outcome(lambda: SimulatedBroker(t, 'EX', 'DH', account_id='acct', fee_model=fm))
    c.ob('collaborators-stored', AND(r == 'ok', b.exchange == 'EX', b.data_handler == 'DH', b.fee_model is fm, b.account_id == 'acct'), props=['C08'])


canary('initial funds credited to every currency', SimulatedBroker, '_set_cash_balances',
       'cash_dict[self.base_currency] = self.initial_funds', 'cash_dict = dict((k, self.initial_funds) for k in cash_dict)')(br_init)
canary('negative initial funds accepted', SimulatedBroker, '_set_initial_funds', 'if initial_funds < 0.0:', 'if False:')(br_init)


@harness('SimulatedBroker.list_all_portfolios', props=['C18'], layer='L2', functions=BR_FUNCS)
def br_list(c):
    """the portfolio listing is ordered by portfolio id (independent of creation / hash order); empty broker -> []"""
    from qstrader.broker.fee_model.zero_fee_model import ZeroFeeModel
    t = c.time('start')
    b = SimulatedBroker(t, None, None, fee_model=ZeroFeeModel())
    c.ob('empty-broker-lists-nothing', b.list_all_portfolios() == [])
    for ids in (['b', 'a', 'c'], ['2', '10', '1']):
        b = SimulatedBroker(t, None, None, fee_model=ZeroFeeModel())
        for i in ids:
            b.create_portfolio(i)
        c.ob('listed-in-ascending-id-order/%s' % ''.join(ids), [p.portfolio_id for p in b.list_all_portfolios()] == sorted(ids))
