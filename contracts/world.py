"""L2 world: SimulatedBroker over a region of PORTFOLIO CONTRACT OBJECTS (PortfolioSpec) and Seq-valued order queues.

sym mode : portfolios[p] is a stub whose methods are the functional contracts of contracts/portfolio.py, reading and
           writing nested z3 arrays (heap-as-arrays per field, keyed by portfolio id and asset); open_orders[p] is a z3
           sequence of Order terms; data handler / exchange / fee model are contract stubs with ghost logs.
conc mode: a REAL SimulatedBroker with real Portfolios, Positions, queue.Queue and Orders (replay / bounded check)."""
import collections
import queue as _queue

import z3

from pyvc import heap
from pyvc.core import (SymNum, SymBool, SymKey, SymTime, OpaqueStr, Unmodelled, ctx, lift, liftk, tobool, R, K, B,
                       EQ, AND, OR, NOT, IMPLIES, IFF, GE, GT, LE, LT, NE, ITE, ROUND0)
from pyvc.heap import AKB, AKR, EMPTY, SymIter, SymMap
from .portfolio import PortfolioSpec, KeyFn, Event
from .common import lemma

O = z3.DeclareSort('Order')
SO = z3.SeqSort(O)
AKA = z3.ArraySort(K, AKR)
AKAB = z3.ArraySort(K, AKB)
AKS = z3.ArraySort(K, SO)
NOSEQ = z3.Empty(SO)

O_QTY = z3.Function('ORDER_QTY', O, R)
O_ASSET = z3.Function('ORDER_ASSET', O, K)
O_DIR = z3.Function('ORDER_DIR', O, R)
O_CREATED = z3.Function('ORDER_CREATED', O, R)
OWNER = z3.Function('OWNER', O, K)                       # ghost: the portfolio an order was submitted to
ALLOWNED = z3.Function('ALL_OWNED_BY', SO, K, B)         # ghost: every order of the sequence is owned by the portfolio
PROJ = z3.Function('PROJ', SO, K, SO)                    # ghost: subsequence of the orders owned by a portfolio
SP = z3.Function('SORTED_BY_DIRECTION', SO, SO)          # contract of sorted(key in {-1,+1}): stable partition
BIDF = z3.Function('BID', R, K, R)
ASKF = z3.Function('ASK', R, K, R)
BIDNAN = z3.Function('BID_IS_NAN', R, K, B)
ASKNAN = z3.Function('ASK_IS_NAN', R, K, B)
MIDF = z3.Function('MID', R, K, R)
MIDNAN = z3.Function('MID_IS_NAN', R, K, B)
OPENF = z3.Function('EXCHANGE_OPEN', R, B)
FEEF = z3.Function('FEE', K, R, R, R)                   # fee model family: a function of (asset, quantity, consideration)
# opaque form of a portfolio's market value (a function of its three arrays; harnesses that only ADD UP per-portfolio figures
# do not need the definition SUM qty x price - the L1 valuation harness proves it - and the non-linear lambda makes z3 crawl)
TMV_OF = z3.Function('TMV_OF', AKB, AKR, AKR, R)
REPORTF = {f: z3.Function('REPORT_' + f.upper(), K, K, R) for f in ('unrealised_pnl', 'realised_pnl', 'total_pnl')}

CURRENCIES = ('USD', 'GBP', 'EUR')


def order_inv(o):
    """class invariant of Order (established by Order.__init__, verified at L0) for orders sitting in a queue"""
    q = O_QTY(o)
    return z3.And(O_DIR(o) == z3.If(q >= 0, z3.RealVal(1), z3.RealVal(-1)), z3.Or(q >= 1, q <= -1))


class OrderRef:
    """an Order taken from a symbolic queue"""

    def __init__(self, t):
        self.t = t
    quantity = property(lambda s: SymNum(O_QTY(s.t)))
    direction = property(lambda s: SymNum(O_DIR(s.t)))
    asset = property(lambda s: SymKey(O_ASSET(s.t)))
    created_dt = property(lambda s: SymTime(O_CREATED(s.t)))
    cur_dt = created_dt
    commission = 0.0
    order_id = property(lambda s: OpaqueStr('<oid>'))


def order_term(order, owner=None):
    """the Order term standing for an order object (real Order with symbolic fields, or OrderRef)"""
    if isinstance(order, OrderRef):
        return order.t
    c = ctx()
    o = c.fresh('order', O)
    c.assume(O_QTY(o) == lift(order.quantity))
    c.assume(O_ASSET(o) == liftk(order.asset))
    c.assume(O_DIR(o) == lift(order.direction))
    c.assume(O_CREATED(o) == lift(order.created_dt))
    return o


class QueueView:
    def __init__(self, W, p):
        self.W, self.p = W, p

    def _q(self):
        return z3.Select(self.W.Q, self.p)

    def empty(self):
        return SymBool(z3.Length(self._q()) == 0)

    def put(self, order):
        o = order_term(order)
        c = ctx()
        c.assume(OWNER(o) == self.p)
        q = self._q()
        nq = z3.Concat(q, z3.Unit(o))
        # ghost facts of the extended queue (engine-side unfolding of ALL_OWNED_BY)
        c.assume(z3.Implies(ALLOWNED(q, self.p), ALLOWNED(nq, self.p)))
        self.W.Q = z3.Store(self.W.Q, self.p, nq)
        self.W.puts.append((self.p, o))

    def get(self):
        c = ctx()
        q = self._q()
        c.ob('queue.get-on-nonempty-queue', z3.Length(q) > 0, kind='A')
        h, rest = c.fresh('head', O), c.fresh('rest', SO)
        c.assume(q == z3.Concat(z3.Unit(h), rest))
        # unfold ghost ownership and the class invariant of the order taken
        c.assume(z3.Implies(ALLOWNED(q, self.p), z3.And(OWNER(h) == self.p, ALLOWNED(rest, self.p))))
        c.assume(order_inv(h))
        self.W.Q = z3.Store(self.W.Q, self.p, rest)
        return OrderRef(h)


class QueueMap:
    def __init__(self, W):
        self.W = W

    def __vc_in__(self, k):
        return SymBool(z3.Select(self.W.qdom, liftk(k)))

    def __getitem__(self, k):
        kt = liftk(k)
        if not bool(SymBool(z3.Select(self.W.qdom, kt))):
            raise KeyError(k)
        return QueueView(self.W, kt)

    def __setitem__(self, k, v):
        if not isinstance(v, heap._QueueNew) or v.items:
            raise Unmodelled('open_orders[...] assigned something other than a new empty queue')
        kt = liftk(k)
        self.W.qdom = z3.Store(self.W.qdom, kt, True)
        self.W.Q = z3.Store(self.W.Q, kt, NOSEQ)
        ctx().assume(ALLOWNED(NOSEQ, kt))

    def __iter__(self):
        raise Unmodelled('iteration over open_orders')


class OrdersList:
    """the local list `orders` of SimulatedBroker.update: a z3 sequence of Order terms + ghost projection facts"""

    def __init__(self, W, seq=None):
        self.W = W
        self.seq = NOSEQ if seq is None else seq

    def append(self, item):
        p, o = item
        c = ctx()
        ot = o.t
        c.ob('orders.append-pairs-order-with-its-own-portfolio', liftk(p) == OWNER(ot), kind='A')
        ns = z3.Concat(self.seq, z3.Unit(ot))
        for f in self.W.focus:          # engine-side unfolding of PROJ at the ghost focus portfolios
            c.assume(PROJ(ns, f) == z3.If(OWNER(ot) == f, z3.Concat(PROJ(self.seq, f), z3.Unit(ot)), PROJ(self.seq, f)))
        self.seq = ns

    def __vc_sorted__(self, key, reverse):
        c = ctx()
        if reverse:
            raise Unmodelled('sorted(reverse=True) on the order batch')
        g = c.fresh('generic_order', O)
        kv = key((SymKey(OWNER(g)), OrderRef(g))) if key is not None else None
        ok = kv is not None and isinstance(kv, SymNum)
        c.ob('batch-sorted-by-order-direction-only', (lift(kv) == O_DIR(g)) if ok else z3.BoolVal(False), kind='P', props=['C04', 'C18'])
        lemma('proj_stablePartition')
        return SortedOrders(self.W, self.seq)

    def __iter__(self):
        raise Unmodelled('CPython iteration over the symbolic order batch')

    def __vc_loop__(self):
        return self


class SortedOrders:
    """result of sorted(orders, key=direction): SP(seq) with the assumed contract of a stable two-key sort"""

    def __init__(self, W, src):
        self.W, self.src = W, src
        self.seq = SP(src)
        c = ctx()
        c.assume(z3.Length(self.seq) == z3.Length(src))
        c.assume(z3.Implies(src == NOSEQ, self.seq == NOSEQ))
        for f in W.focus:       # Lean lemma proj_stablePartition
            c.assume(PROJ(self.seq, f) == SP(PROJ(src, f)))

    def sorted_fact(self, i, j):
        """stable partition by direction: earlier elements never have a larger key"""
        s = self.seq
        return z3.Implies(z3.And(0 <= i, i < j, j < z3.Length(s)), O_DIR(s[i]) <= O_DIR(s[j]))

    def __vc_loop__(self):
        return self

    def __iter__(self):
        raise Unmodelled('CPython iteration over the symbolic sorted batch')


class BidAsk(tuple):
    """(bid, ask) as returned by the data handler; `== (nan, nan)` reads the NaN flags"""

    def __eq__(self, o):
        if isinstance(o, tuple) and len(o) == 2 and all(isinstance(x, float) and x != x for x in o):
            return SymBool(z3.And(*[x.nan if getattr(x, 'nan', None) is not None else z3.BoolVal(False) for x in self]))
        return tuple.__eq__(self, o)

    __hash__ = None


class DataHandlerStub:
    """contract of BacktestDataHandler seen by the broker: pure functions of (time, asset) + ghost query log"""

    def __init__(self, W):
        self.W = W

    def get_asset_latest_bid_ask_price(self, dt, asset):
        t, a = lift(dt), liftk(asset)
        self.W.queries.append(('bid_ask', t, a))
        return BidAsk((SymNum(BIDF(t, a), BIDNAN(t, a)), SymNum(ASKF(t, a), ASKNAN(t, a))))

    def get_asset_latest_mid_price(self, dt, asset):
        t, a = lift(dt), liftk(asset)
        self.W.queries.append(('mid', t, a))
        return SymNum(MIDF(t, a), MIDNAN(t, a))

    def get_asset_latest_ask_price(self, dt, asset):
        t, a = lift(dt), liftk(asset)
        self.W.queries.append(('ask', t, a))
        return SymNum(ASKF(t, a), ASKNAN(t, a))

    def get_asset_latest_bid_price(self, dt, asset):
        t, a = lift(dt), liftk(asset)
        self.W.queries.append(('bid', t, a))
        return SymNum(BIDF(t, a), BIDNAN(t, a))


class ExchangeStub:
    def __init__(self, W):
        self.W = W

    def is_open_at_datetime(self, dt):
        return SymBool(OPENF(lift(dt)))


def make_fee_stub(W):
    from qstrader.broker.fee_model.fee_model import FeeModel

    class FeeStub(FeeModel):
        def _calc_commission(self, *a, **k):
            raise Unmodelled('fee stub')

        def _calc_tax(self, *a, **k):
            raise Unmodelled('fee stub')

        def calc_total_cost(self, asset, quantity, consideration, broker=None):
            W.fee_calls.append((liftk(asset), lift(quantity), lift(consideration)))
            return SymNum(FEEF(liftk(asset), lift(quantity), lift(consideration)))
    return FeeStub()


class _Positions:
    """pos_handler.positions of a portfolio stub: only iterated / tested for membership by the broker"""

    def __init__(self, W, p):
        self.W, self.p = W, p

    def __vc_loop__(self):
        it = SymIter(z3.Select(self.W.held, self.p), lambda k: SymKey(k))
        it.owner = self.p          # role binding for loop objects: whose positions are iterated, whatever the code calls it
        return it

    def __vc_in__(self, k):
        return SymBool(z3.Select(z3.Select(self.W.held, self.p), liftk(k)))

    def __iter__(self):
        raise Unmodelled('CPython iteration over positions')


class _PosHandler:
    def __init__(self, W, p):
        self.positions = _Positions(W, p)


class PortfolioAt:
    """portfolios[p]: the Portfolio CONTRACT (PortfolioSpec) bound to the world's arrays at key p"""

    def __init__(self, W, p):
        self.W, self.p = W, p
        self.pos_handler = _PosHandler(W, p)

    portfolio_id = property(lambda s: SymKey(s.p))
    cash = property(lambda s: SymNum(z3.Select(s.W.cashA, s.p)))
    current_dt = property(lambda s: SymTime(z3.Select(s.W.clock, s.p)))

    @property
    def total_market_value(self):
        W, p = self.W, self.p
        a = z3.Const('__a', K)
        if getattr(W, 'opaque_valuation', False):
            return SymNum(TMV_OF(z3.Select(W.held, p), z3.Select(W.price, p), z3.Select(W.qty, p)))
        return SymNum(heap.SUM(z3.Select(W.held, p), z3.Lambda([a], z3.Select(z3.Select(W.price, p), a) * z3.Select(z3.Select(W.qty, p), a))))

    @property
    def total_equity(self):
        return self.total_market_value + self.cash

    def portfolio_to_dict(self):
        W, p = self.W, self.p
        a = z3.Const('__a', K)
        cols = {'quantity': z3.Select(W.qty, p),
                'market_value': z3.Lambda([a], z3.Select(z3.Select(W.price, p), a) * z3.Select(z3.Select(W.qty, p), a))}
        for f, F in REPORTF.items():
            cols[f] = z3.Lambda([a], F(p, a))
        return SymMap(z3.Select(W.held, p), cols)

    # ---- mutators = the functional contracts of contracts/portfolio.py ---------------------------------
    def _spec(self):
        W, p = self.W, self.p
        return PortfolioSpec('sym', SymNum(z3.Select(W.cashA, p)), SymTime(z3.Select(W.clock, p)),
                             KeyFn('sym', z3.Select(W.held, p), boolean=True), KeyFn('sym', z3.Select(W.qty, p)),
                             KeyFn('sym', z3.Select(W.price, p)), KeyFn('sym', z3.Select(W.pclk, p)))

    def _commit(self, s):
        W, p = self.W, self.p
        W.cashA = z3.Store(W.cashA, p, lift(s.cash))
        W.clock = z3.Store(W.clock, p, lift(s.clock))
        W.held = z3.Store(W.held, p, s.held.s)
        W.qty = z3.Store(W.qty, p, s.qty.s)
        W.price = z3.Store(W.price, p, s.price.s)
        W.pclk = z3.Store(W.pclk, p, s.pclk.s)
        for e in s.events:
            W.events.append((p, e))

    def _refusal(self, s0):
        """contract of a refusal: protected state unchanged; clocks unspecified (havoc)"""
        W, p = self.W, self.p
        W.clock = z3.Store(W.clock, p, ctx().fresh('clock_after_refusal', R))

    def _do(self, name, fn, *args):
        s = self._spec()
        self.W.calls.append((name, self.p) + tuple(args))
        try:
            fn(s)
        except ValueError:
            self._refusal(s)
            self.W.refusals.append((name, self.p))
            raise
        self._commit(s)

    def subscribe_funds(self, dt, amount):
        self._do('subscribe_funds', lambda s: s.subscribe_funds(dt, amount), lift(dt), lift(amount))

    def withdraw_funds(self, dt, amount):
        self._do('withdraw_funds', lambda s: s.withdraw_funds(dt, amount), lift(dt), lift(amount))

    def transact_asset(self, txn):
        W = self.W
        W.inst(self.p, liftk(txn.asset))
        rec = dict(p=self.p, asset=liftk(txn.asset), quantity=lift(txn.quantity), dt=lift(txn.dt), price=lift(txn.price),
                   commission=lift(txn.commission))
        self._do('transact_asset', lambda s: s.transact_asset(txn.asset, txn.quantity, txn.dt, txn.price, txn.commission),
                 rec['asset'], rec['quantity'], rec['dt'], rec['price'], rec['commission'])
        W.fills.append(rec)

    def update_market_value_of_asset(self, asset, current_price, current_dt):
        self.W.inst(self.p, liftk(asset))
        self._do('update_market_value_of_asset', lambda s: s.update_market_value_of_asset(asset, current_price, current_dt),
                 liftk(asset), lift(current_price), lift(current_dt))


class PortfolioMap:
    def __init__(self, W):
        self.W = W

    def __vc_in__(self, k):
        if not isinstance(k, (SymKey, str)):
            return False
        return SymBool(z3.Select(self.W.pdom, liftk(k)))

    def keys(self):
        return self

    def values(self):
        return SymIter(self.W.pdom, lambda k: PortfolioAt(self.W, k))

    def __vc_loop__(self):
        return SymIter(self.W.pdom, lambda k: SymKey(k))

    def __getitem__(self, k):
        kt = liftk(k)
        if not bool(SymBool(z3.Select(self.W.pdom, kt))):
            raise KeyError(k)
        heap.add_keyterm(kt)
        return PortfolioAt(self.W, kt)

    def __setitem__(self, k, pf):
        """portfolios[id] = Portfolio(...)  (a freshly constructed REAL portfolio: absorbed into the arrays)"""
        from qstrader.broker.portfolio.portfolio import Portfolio
        if not isinstance(pf, Portfolio):
            raise Unmodelled('portfolios[...] assigned a non-Portfolio')
        W, kt = self.W, liftk(k)
        pos = pf.pos_handler.positions
        if not (isinstance(pos, dict) and len(pos) == 0 and getattr(pos, '_m', None) is None):
            raise Unmodelled('new portfolio with positions')
        ctx().ob('new-portfolio-carries-its-id', liftk(pf.portfolio_id) == kt, kind='A')
        W.pdom = z3.Store(W.pdom, kt, True)
        W.cashA = z3.Store(W.cashA, kt, lift(pf.cash))
        W.clock = z3.Store(W.clock, kt, lift(pf.current_dt))
        W.held = z3.Store(W.held, kt, EMPTY)
        W.qty = z3.Store(W.qty, kt, z3.K(K, z3.RealVal(0)))
        for e in pf.history:
            W.events.append((kt, Event(e.type, e.dt, e.debit, e.credit, e.balance)))
        W.created.append(kt)

    def __eq__(self, o):
        if isinstance(o, dict) and not o:
            return SymBool(self.W.pdom == EMPTY)
        raise Unmodelled('portfolios compared')

    __hash__ = None

    def __iter__(self):
        raise Unmodelled('CPython iteration over portfolios')


FIELDS = ['pdom', 'qdom', 'cashA', 'clock', 'held', 'qty', 'price', 'pclk', 'Q']


class World:
    """symbolic broker state (BrokerView, DESIGN App. A)"""

    def __init__(self, c, name='br'):
        self.c = c
        mk = lambda n, s: c._const('%s.%s' % (name, n), s)
        self.pdom, self.qdom = mk('pdom', AKB), mk('qdom', AKB)
        self.cashA, self.clock = mk('cash', AKR), mk('clock', AKR)
        self.held, self.qty, self.price, self.pclk = mk('held', AKAB), mk('qty', AKA), mk('price', AKA), mk('pclk', AKA)
        self.Q = mk('queue', AKS)
        self.master = {cur: c.real('%s.master.%s' % (name, cur)) for cur in CURRENCIES}
        self.events, self.fills, self.calls, self.refusals, self.queries, self.fee_calls = [], [], [], [], [], []
        self.puts, self.created = [], []
        self.focus = []
        # BrInv: portfolios and order queues have the same ids
        c.assume(self.qdom == self.pdom)

    def inst(self, p, a):
        """PfInv at (p, a): held <=> net quantity != 0;  a held asset has a positive mark"""
        c = self.c
        h = z3.Select(z3.Select(self.held0, p), a)
        c.assume(h == (z3.Select(z3.Select(self.qty0, p), a) != 0))
        c.assume(z3.Implies(h, z3.Select(z3.Select(self.price0, p), a) > 0))

    def inst_now(self, p, a):
        """PfInv at (p, a) on the CURRENT arrays (inside a cut loop, where the state was havoced)"""
        c = self.c
        h = z3.Select(z3.Select(self.held, p), a)
        c.assume(h == (z3.Select(z3.Select(self.qty, p), a) != 0))
        c.assume(z3.Implies(h, z3.Select(z3.Select(self.price, p), a) > 0))
        self.held0, self.qty0, self.price0 = self.held, self.qty, self.price

    def freeze_pre(self):
        self.held0, self.qty0, self.price0 = self.held, self.qty, self.price
        self.pre = self.snapshot()

    def add_focus(self, p):
        """ghost focus portfolio: queues owned, PROJ unfolded for it"""
        p = liftk(p)
        self.focus.append(p)
        c = self.c
        c.assume(PROJ(NOSEQ, p) == NOSEQ)
        c.assume(SP(NOSEQ) == NOSEQ)

    def queue_inv(self, p):
        """queue invariant of portfolio p: every pending order is owned by p"""
        p = liftk(p)
        self.c.assume(ALLOWNED(z3.Select(self.Q, p), p))

    def snapshot(self):
        s = {f: getattr(self, f) for f in FIELDS}
        s['master'] = dict(self.master)
        s['n_events'] = len(self.events)
        return s

    def havoc(self, fields, tag):
        for f in fields:
            cur = getattr(self, f)
            setattr(self, f, self.c.fresh('%s.%s' % (tag, f), cur.sort()))

    def same(self, snap, fields=None):
        fs = fields or FIELDS
        return z3.And(*[getattr(self, f) == snap[f] for f in fs])

    def master_same(self, snap):
        return z3.And(*[lift(self.master[cur]) == lift(snap['master'][cur]) for cur in CURRENCIES])

    def broker(self, fee_model=None):
        from qstrader.broker.simulated_broker import SimulatedBroker
        c = self.c
        # built through the REAL constructor (every attribute the class sets exists), then given the symbolic state
        b = SimulatedBroker(c.time('br.start'), ExchangeStub(self), DataHandlerStub(self), account_id='acct', initial_funds=0.0,
                            fee_model=fee_model if fee_model is not None else make_fee_stub(self))
        b.current_dt = c.time('br.now')
        b.cash_balances = self.master          # the REAL dict object used by the code (concrete currency keys)
        b.portfolios = PortfolioMap(self)
        b.open_orders = QueueMap(self)
        self.b = b
        return b

    # ---- accessors for clauses (same API in RealWorld) -------------------------------------------------
    mode = 'sym'

    def master_cur(self, cur, snap=None):
        return (snap['master'] if snap else self.master)[cur]

    def held_(self, p, a, snap=None):
        return self.cell('held', p, a, snap)

    def qty_(self, p, a, snap=None):
        return SymNum(self.cell('qty', p, a, snap))

    def price_(self, p, a, snap=None):
        return SymNum(self.cell('price', p, a, snap))

    def clock_(self, p, snap=None):
        return SymTime(z3.Select((snap or self.__dict__)['clock'], liftk(p)))

    def pclk_(self, p, a, snap=None):
        return SymTime(self.cell('pclk', p, a, snap))

    def no_holdings(self, p):
        return z3.Select(self.held, liftk(p)) == EMPTY

    def pending_empty(self, p):
        return self.pending(p) == NOSEQ

    def pending_same(self, p, snap):
        return self.pending(p) == self.pending(p, snap)

    def has_queue(self, p):
        return z3.Select(self.qdom, liftk(p))

    def pending_is_pre_plus(self, p, snap, order_fields):
        """pending(p) == pre pending(p) ++ [one order with the given fields]"""
        if len(self.puts) != 1:
            return False
        pp, o = self.puts[0]
        q, asset = order_fields
        return z3.And(pp == liftk(p), self.pending(p) == z3.Concat(self.pending(p, snap), z3.Unit(o)), O_QTY(o) == lift(q),
                      O_ASSET(o) == liftk(asset), O_DIR(o) == z3.If(lift(q) >= 0, z3.RealVal(1), z3.RealVal(-1)))

    def portfolio_same(self, p, snap, parts=('cash', 'holdings', 'marks', 'pending', 'exists')):
        p = liftk(p)
        m = {'cash': ['cashA'], 'holdings': ['held', 'qty'], 'marks': ['price'], 'pending': ['Q'], 'exists': ['pdom', 'qdom']}
        return z3.And(*[z3.Select(getattr(self, f), p) == z3.Select(snap[f], p) for part in parts for f in m[part]])

    PARTS = {'portfolios': ['pdom', 'qdom'], 'cash': ['cashA'], 'holdings': ['held', 'qty'], 'marks': ['price'], 'pending': ['Q']}

    def all_same(self, snap, parts=('portfolios', 'cash', 'holdings', 'marks', 'pending', 'master', 'history')):
        out = []
        for part in parts:
            if part == 'master':
                out.append(self.master_same(snap))
            elif part == 'history':
                out.append(z3.BoolVal(len(self.events) == snap['n_events']))
            else:
                out += [getattr(self, f) == snap[f] for f in self.PARTS[part]]
        return z3.And(*out)

    def new_events(self, snap=None):
        return self.events[(snap or self.pre)['n_events']:]

    def tmv(self, p, snap=None):
        s = snap or self.__dict__
        p = liftk(p)
        a = z3.Const('__a', K)
        if getattr(self, 'opaque_valuation', False):
            return SymNum(TMV_OF(z3.Select(s['held'], p), z3.Select(s['price'], p), z3.Select(s['qty'], p)))
        return SymNum(heap.SUM(z3.Select(s['held'], p), z3.Lambda([a], z3.Select(z3.Select(s['price'], p), a) * z3.Select(z3.Select(s['qty'], p), a))))

    def equity(self, p, snap=None):
        return self.tmv(p, snap) + self.cash(p, snap)

    def sum_over_portfolios(self, fig, snap=None):
        s = snap or self.__dict__
        x = z3.Const('__p', K)
        return SymNum(heap.SUM(s['pdom'], z3.Lambda([x], lift(fig(SymKey(x), snap)))))

    def cash(self, p, snap=None):
        return SymNum(z3.Select((snap or self.__dict__)['cashA'], liftk(p)))

    def exists(self, p, snap=None):
        return z3.Select((snap or self.__dict__)['pdom'], liftk(p))

    def pending(self, p, snap=None):
        return z3.Select((snap or self.__dict__)['Q'], liftk(p))

    def cell(self, f, p, a, snap=None):
        return z3.Select(z3.Select((snap or self.__dict__)[f], liftk(p)), liftk(a))

    def events_of(self, p, since=0):
        """events appended to p's history since a snapshot, as (condition, event) - owner may be symbolic"""
        return [(q == liftk(p), e) for q, e in self.events[since:]]


def protected_unchanged(W, snap):
    """C15: every cash balance, holding (presence, quantity, mark), pending queue and history entry as before"""
    return [('master-cash', W.master_same(snap)), ('portfolio-cash', W.cashA == snap['cashA']),
            ('holdings', z3.And(W.held == snap['held'], W.qty == snap['qty'])), ('marks', W.price == snap['price']),
            ('pending-orders', W.Q == snap['Q']), ('portfolio-set', z3.And(W.pdom == snap['pdom'], W.qdom == snap['qdom'])),
            ('history', z3.BoolVal(len(W.events) == snap['n_events']))]
