"""Dual-mode helpers shared by the contracts: the same clause text is evaluated on z3 terms (proof) and on
concrete Python values (replay / bounded run-time check)."""
import z3

from pyvc import heap
from pyvc.core import (SymNum, SymBool, SymKey, SymTime, SymOpt, ctx, lift, liftk, tobool, R, K, B, DAYF, TODF,
                       time_axioms, EQ, AND, OR, NOT, IMPLIES, IFF, GE, LE, LT, GT, Unmodelled)
from pyvc.heap import AKB, AKR, SymMap, SymIter, SymSet, LazyDict, EMPTY, SUM, CARD

LEMMAS_USED = set()


def HAS(coll, k):
    """k in coll, as a term (sym) or bool (conc)"""
    r = heap.in_(k, coll, False)
    return r.t if isinstance(r, SymBool) else r


def VAL(m, k, field=None):
    """m[k] (or m[k][field]) WITHOUT a presence check, as a value usable in clauses"""
    if isinstance(m, LazyDict) and m._m is not None:
        m = m._m
    if isinstance(m, SymMap):
        col = m.cols.get(field or '')
        if col is None:
            return 0.0
        return SymNum(z3.Select(col, liftk(k)))
    v = m[k] if k in m else None
    if v is None:
        return 0.0
    return v[field] if field is not None else v


def DOM(m):
    if isinstance(m, LazyDict):
        m = m._sym()
    return m.dom


def wd_tod(c, t):
    """(weekday 0=Mon, seconds of the day) of a timestamp"""
    if c.mode == 'conc':
        return t.weekday(), t.hour * 3600 + t.minute * 60 + t.second + t.microsecond / 1e6
    for a in time_axioms(t.t):
        c.assume(a)
    return SymNum(z3.ToReal((DAYF(t.t) + 3) % 7)), SymNum(TODF(t.t))      # of the INSTANT, i.e. in UTC


def num_map(c, name, fields=('',), gen=None, pgen=None):
    """an arbitrary dict[key -> number] (or record of numbers)"""
    if c.mode == 'sym':
        return SymMap.fresh(name, fields)
    out = {}
    gen = gen or (lambda r: round(r.uniform(-2, 3), r.choice([0, 1, 2])))
    for k in c.conc_keys():
        if c.ceval(z3.Select(z3.Const(name + '.dom', AKB), c.keyterm(k)), pgen or (lambda r: r.random() < 0.6), bool):
            if fields == ('',):
                out[k] = c.ceval(z3.Select(z3.Const(name + '.val', AKR), c.keyterm(k)), gen)
            else:
                out[k] = {f: c.ceval(z3.Select(z3.Const('%s.%s' % (name, f), AKR), c.keyterm(k)), gen) for f in fields}
    # a dict's INSERTION order is part of the input (the symbolic map iterates in an arbitrary order): random concrete runs permute it
    if getattr(c, 'rng', None) is not None and getattr(c, 'model', None) is None and len(out) > 1:
        items = list(out.items())
        c.rng.shuffle(items)
        out = dict(items)
    return out


class OptTimes:
    """dict[key -> Optional[timestamp]] in both modes, with accessors for clauses"""

    def __init__(self, c, name):
        self.c, self.name = c, name
        if c.mode == 'sym':
            self.m = heap.OptTimeMap(name)
        else:
            import pandas as pd
            self.m = {}
            for k in c.conc_keys():
                kt = c.keyterm(k)
                if c.ceval(z3.Select(z3.Const(name + '.dom', AKB), kt), lambda r: r.random() < 0.7, bool):
                    if c.ceval(z3.Select(z3.Const(name + '.isnone', AKB), kt), lambda r: r.random() < 0.25, bool):
                        self.m[k] = None if (getattr(c, 'rng', None) is None or c.rng.random() < 0.6) else pd.NaT     # (both spell 'no entry date')
                    else:
                        v = c.ceval(z3.Select(z3.Const(name + '.val', AKR), kt),
                                    lambda r: 1577836800 + r.randint(0, 40) * 21600 + r.choice([0, 52200, 75600, 75660]))
                        ts = pd.Timestamp(float(v), unit='s', tz='UTC')
                        if getattr(c, 'rng', None) is not None and getattr(c, 'model', None) is None:
                            # the same instant written in another zone is the same entry date (the statement compares instants)
                            ts = ts.tz_convert(c.rng.choice(['UTC', 'UTC', 'America/New_York', 'Asia/Tokyo']))
                        self.m[k] = ts

            dated = [k for k, v in self.m.items() if v is not None and v is not pd.NaT]
            if getattr(c, 'rng', None) is not None and getattr(c, 'model', None) is None and len(dated) >= 2 and c.rng.random() < 0.3:
                # two assets entering at the SAME instant (a timeline keyed by entry date would lose one of them)
                self.m[dated[1]] = self.m[dated[0]].tz_convert(c.rng.choice(['UTC', 'America/New_York']))

    def present(self, k):
        if self.c.mode == 'sym':
            return z3.Select(self.m.dom, liftk(k))
        return k in self.m

    def isnone(self, k):
        if self.c.mode == 'sym':
            return z3.Select(self.m.isnone, liftk(k))
        return self.m.get(k) is None or self.m.get(k) is __import__('pandas').NaT

    def date(self, k):
        if self.c.mode == 'sym':
            return SymTime(z3.Select(self.m.val, liftk(k)))
        return self.m.get(k)

    def entered(self, k, t):
        """k has an entry date and t >= it (inclusive) - from the C19 statement"""
        if self.c.mode == 'sym':
            return z3.And(self.present(k), z3.Not(self.isnone(k)), lift(t) >= lift(self.date(k)))
        return k in self.m and self.m[k] is not None and self.m[k] is not __import__('pandas').NaT and t >= self.m[k]


UNIVF = z3.Function('UNIVERSE_AT', R, AKB)


class UniverseStub:
    """Universe contract seen by callers: get_assets(t) is a function of t only (ghost query log kept)."""

    def __init__(self, c):
        self.c, self.queries, self._owned = c, [], {}

    def dom_at(self, t):
        return UNIVF(lift(t))

    def member(self, k, t):
        if self.c.mode == 'sym':
            return z3.Select(self.dom_at(t), liftk(k))
        return k in self._conc(t)

    def _conc(self, t):
        c = self.c
        tt = c.tterm(t)
        return [k for k in c.conc_keys() if c.ceval(z3.Select(UNIVF(tt), c.keyterm(k)), lambda r: r.random() < 0.6, bool)]

    def get_assets(self, dt):
        self.queries.append(dt)
        if self.c.mode == 'sym':
            return SymIter(self.dom_at(dt), lambda k: SymKey(k), None, 'insertion')
        # like StaticUniverse, the stub hands out a list it OWNS (the same object on every call): a caller that modifies the
        # answer in place changes what later callers see, while `member` keeps the true membership
        return self._owned.setdefault(str(self.c.tterm(dt)), self._conc(dt))


def SUMOF(c, m):
    """sum of a numeric map"""
    if isinstance(m, LazyDict):
        m = m._sym()
    if isinstance(m, SymMap):
        return SymNum(SUM(m.dom, m.cols['']))
    return sum(m.values())


def lemma(name):
    LEMMAS_USED.add(name)
