"""C08 R6 wiring contracts: QuantTradingSystem and BacktestTradingSession construct exactly the documented pipeline."""
import z3

from pyvc.run import harness, canary
from pyvc.core import SymNum, EQ, AND, GE, LE, GT, IFF

from qstrader.system.qts import QuantTradingSystem
from qstrader.trading.backtest import BacktestTradingSession
from qstrader.portcon.order_sizer.dollar_weighted import DollarWeightedCashBufferedOrderSizer as DW
from qstrader.portcon.order_sizer.long_short import LongShortLeveragedOrderSizer as LS
from qstrader.portcon.optimiser.fixed_weight import FixedWeightPortfolioOptimiser
from qstrader.portcon.pcm import PortfolioConstructionModel
from qstrader.execution.execution_handler import ExecutionHandler
from qstrader.execution.execution_algo.market_order import MarketOrderExecutionAlgorithm
from qstrader.broker.simulated_broker import SimulatedBroker
from qstrader.broker.fee_model.percent_fee_model import PercentFeeModel
from qstrader.simulation.daily_bday import DailyBusinessDaySimulationEngine
from qstrader.exchange.simulated_exchange import SimulatedExchange
from qstrader.system.rebalance.buy_and_hold import BuyAndHoldRebalance
from qstrader.system.rebalance.daily import DailyRebalance
from qstrader.system.rebalance.weekly import WeeklyRebalance
from qstrader.system.rebalance.end_of_month import EndOfMonthRebalance

WIRING_FUNCS = ['QuantTradingSystem.__init__', 'QuantTradingSystem._create_order_sizer', 'QuantTradingSystem._initialise_models',
                'BacktestTradingSession.__init__', 'BacktestTradingSession._create_exchange', 'BacktestTradingSession._create_data_handler',
                'BacktestTradingSession._create_broker', 'BacktestTradingSession._create_simulation_engine',
                'BacktestTradingSession._create_rebalance_event_times', 'BacktestTradingSession._create_quant_trading_system',
                'PortfolioConstructionModel.__init__', 'ExecutionHandler.__init__']


def _try(fn):
    try:
        return 'ok', fn()
    except (ValueError, KeyError, TypeError) as e:
        return type(e).__name__, None


@harness('QuantTradingSystem.__init__', props=['C08'], also=['C10', 'C11'], layer='L4', functions=WIRING_FUNCS)
def qts_wiring(c):
    """long_only -> cash-buffered long-only sizer with exactly the given buffer; otherwise the leveraged long/short sizer with
       exactly the given leverage; a missing parameter -> ValueError; fixed-weight optimiser; pass-through market-order
       execution; submit_orders as given; every component shares the broker, portfolio id, universe and data handler given"""
    uni, brk, dh, alpha, risk = object(), object(), object(), object(), object()
    buf = c.real('cash_buffer_percentage', lambda r: r.choice([0.0, 0.05, 0.5]))
    lev = c.real('gross_leverage', lambda r: r.choice([0.5, 1.0, 2.0]))
    c.assume(AND(GE(buf, 0), LE(buf, 1), GT(lev, 0)))
    for long_only in (True, False):
        for submit in (True, False):
            kw = {'cash_buffer_percentage': buf} if long_only else {'gross_leverage': lev}
            r, q = _try(lambda: QuantTradingSystem(uni, brk, 'pid', dh, alpha, risk_model=risk, long_only=long_only, submit_orders=submit, **kw))
            tag = ('long-only' if long_only else 'long-short') + ('/submit' if submit else '/no-submit') + '/'
            c.ob(tag + 'constructed', r == 'ok')
            if r != 'ok':
                continue
            pcm, eh = q.portfolio_construction_model, q.execution_handler
            sz = pcm.order_sizer
            c.ob(tag + 'sizer-class-follows-long_only', type(sz) is (DW if long_only else LS))
            c.ob(tag + 'sizer-gets-exactly-the-given-parameter', EQ(sz.cash_buffer_percentage, buf) if long_only else EQ(sz.gross_leverage, lev),
                 props=['C08', 'C10' if long_only else 'C11'])
            c.ob(tag + 'sizer-shares-broker-portfolio-and-data-handler', AND(sz.broker is brk, sz.broker_portfolio_id == 'pid', sz.data_handler is dh))
            c.ob(tag + 'optimiser-is-fixed-weight', type(pcm.optimiser) is FixedWeightPortfolioOptimiser)
            c.ob(tag + 'pcm-wired-to-broker-universe-alpha-and-risk-model',
                 AND(type(pcm) is PortfolioConstructionModel, pcm.broker is brk, pcm.broker_portfolio_id == 'pid', pcm.universe is uni,
                     pcm.alpha_model is alpha, pcm.risk_model is risk, pcm.data_handler is dh))
            c.ob(tag + 'execution-passes-orders-through-and-submits-as-configured',
                 AND(type(eh) is ExecutionHandler, type(eh.execution_algo) is MarketOrderExecutionAlgorithm, eh.submit_orders is submit,
                     eh.broker is brk, eh.broker_portfolio_id == 'pid'))
    r, _ = _try(lambda: QuantTradingSystem(uni, brk, 'pid', dh, alpha, long_only=True, gross_leverage=lev))
    c.ob('long-only-without-buffer-rejected/type-ValueError', r == 'ValueError')
    r, _ = _try(lambda: QuantTradingSystem(uni, brk, 'pid', dh, alpha, long_only=False, cash_buffer_percentage=buf))
    c.ob('long-short-without-leverage-rejected/type-ValueError', r == 'ValueError')
    # the sizers' own refusals are not softened on the way: leverage 0 / negative and a buffer outside [0, 1] still raise ValueError
    for bad in (0.0, 0, -0.0, -1.5):
        r, _ = _try(lambda: QuantTradingSystem(uni, brk, 'pid', dh, alpha, long_only=False, gross_leverage=bad))
        c.ob('non-positive-leverage-%r-rejected/type-ValueError' % (bad,), r == 'ValueError', props=['C11', 'C08'])
    for bad in (-0.01, 1.01):
        r, _ = _try(lambda: QuantTradingSystem(uni, brk, 'pid', dh, alpha, long_only=True, cash_buffer_percentage=bad))
        c.ob('buffer-%r-outside-unit-interval-rejected/type-ValueError' % (bad,), r == 'ValueError', props=['C10', 'C08'])


canary('long/short system built with the long-only sizer', QuantTradingSystem, '_create_order_sizer', 'if self.long_only:', 'if True:')(qts_wiring)
canary('submit_orders ignored', QuantTradingSystem, '_initialise_models', 'submit_orders=self.submit_orders', 'submit_orders=False')(qts_wiring)


class _Frame:
    """stands for a data source's price table (any object the session must leave alone); it tolerates being sliced,
       compared and re-indexed - every such operation yields ANOTHER object, so a replaced table is noticed"""

    def __getattr__(self, name):
        if name.startswith('__'):
            raise AttributeError(name)
        return _Frame()

    def __getitem__(self, k):
        return _Frame()

    def __call__(self, *a, **k):
        return _Frame()

    def _cmp(self, other):
        return _Frame()
    __lt__ = __le__ = __gt__ = __ge__ = _cmp

    def __bool__(self):
        return True

    def __iter__(self):
        return iter(())

    def __len__(self):
        return 0


class _GivenSource:
    def __init__(self):
        self.frames0 = {'EQ:A': _Frame(), 'EQ:B': _Frame()}
        self.asset_bid_ask_frames = dict(self.frames0)
        self.asset_bar_frames = dict(self.frames0)


class _GivenHandler:
    """the caller's data handler: the session may keep a reference to it and nothing else"""

    def __init__(self):
        self.src = _GivenSource()
        self.sources0 = [self.src]
        self.data_sources = list(self.sources0)
        self.attrs0 = set(self.__dict__) | {'attrs0'}

    def untouched(self):
        s = self.src
        return (self.data_sources == self.sources0 and set(self.__dict__) == self.attrs0
                and all(d == s.frames0 and all(d[k] is s.frames0[k] for k in d) for d in (s.asset_bid_ask_frames, s.asset_bar_frames)))


class _Uni:
    def __init__(self, assets):
        self.assets, self.queries = assets, []

    def get_assets(self, dt):
        self.queries.append(dt)
        return list(self.assets)


@harness('BacktestTradingSession.__init__', props=['C08', 'C14'], also=['C12', 'C13', 'C18', 'C06', 'C01', 'C11', 'C10', 'C16', 'C19'], layer='L4', functions=WIRING_FUNCS)
def session_wiring(c):
    """the session wires: exchange; the given data handler; a broker holding initial_cash in ONE portfolio (master account
       emptied into it) with the given fee model; a clock without pre/post-market events over [start, end]; the schedule class
       named by `rebalance` (unknown -> ValueError, weekly without a weekday -> ValueError); a QTS that submits orders"""
    import pandas as pd
    start, end = pd.Timestamp('2019-01-01 14:30:00', tz='UTC'), pd.Timestamp('2019-03-29 23:59:00', tz='UTC')
    cash = c.real('initial_cash', lambda r: r.choice([1e6, 250000.0, 1234.5]))
    c.assume(GT(cash, 0))
    buf = c.real('cash_buffer_percentage', lambda r: r.choice([0.0, 0.05]))
    c.assume(AND(GE(buf, 0), LE(buf, 1)))
    uni, alpha, dh, fm = object(), object(), _GivenHandler(), PercentFeeModel(0.001, 0.0)
    # (copies taken at once: a schedule object is not trusted to keep its list to itself)
    kinds = {'buy_and_hold': list(BuyAndHoldRebalance(start).rebalances), 'daily': list(DailyRebalance(start, end).rebalances),
             'weekly': list(WeeklyRebalance(start, end, 'WED').rebalances), 'end_of_month': list(EndOfMonthRebalance(start, end).rebalances)}
    built = {}
    for kind, want in kinds.items():
        kw = {'rebalance_weekday': 'WED'} if kind == 'weekly' else {}
        r, s = _try(lambda: BacktestTradingSession(start, end, uni, alpha, initial_cash=cash, rebalance=kind, long_only=True, fee_model=fm,
                                                   data_handler=dh, cash_buffer_percentage=buf, **kw))
        tag = kind + '/'
        c.ob(tag + 'constructed', r == 'ok')
        if r != 'ok':
            continue
        built[kind] = s
        b = s.broker
        c.ob(tag + 'schedule-is-the-named-rebalance-class-over-start-end', list(s.rebalance_schedule) == list(want), props=['C08', 'C14', 'C13'])
        c.ob(tag + 'given-data-handler-and-its-sources-left-untouched', dh.untouched(), props=['C18', 'C08', 'C06'])
        c.ob(tag + 'broker-uses-the-given-fee-model-exchange-and-data-handler',
             AND(type(b) is SimulatedBroker, b.fee_model is fm, b.data_handler is dh, type(b.exchange) is SimulatedExchange, s.data_handler is dh))
        c.ob(tag + 'one-portfolio-funded-with-the-whole-initial-cash',
             AND(list(b.portfolios) == [s.portfolio_id], EQ(b.portfolios[s.portfolio_id].cash, cash), EQ(b.cash_balances['USD'], 0)), props=['C08', 'C01'])
        e = s.sim_engine
        c.ob(tag + 'clock-over-start-end-without-pre-or-post-market',
             AND(type(e) is DailyBusinessDaySimulationEngine, e.starting_day == start, e.ending_day == end, e.pre_market is False, e.post_market is False),
             props=['C08', 'C14', 'C12'])
        q = s.qts
        c.ob(tag + 'trading-system-submits-orders-on-that-portfolio-with-the-given-buffer',
             AND(type(q) is QuantTradingSystem, q.submit_orders is True, q.broker is b, q.broker_portfolio_id == s.portfolio_id, q.universe is uni,
                 q.alpha_model is alpha, q.data_handler is dh, EQ(q.portfolio_construction_model.order_sizer.cash_buffer_percentage, buf)))
        c.ob(tag + 'starts-with-no-equity-points-or-allocations', AND(s.equity_curve == [], s.target_allocations == []))
    # sessions built LATER leave the schedules of the earlier ones alone (all four are alive here)
    for kind, s in built.items():
        c.ob(kind + '/schedule-unchanged-by-sessions-built-later', list(s.rebalance_schedule) == kinds[kind], props=['C13', 'C14', 'C08'])
    # a burn-in date (inside the range, with and without signals) changes neither the clock nor the schedule's range
    burn = pd.Timestamp('2019-02-11 14:30:00', tz='UTC')
    for sig in (None, object()):
        r, s = _try(lambda: BacktestTradingSession(start, end, uni, alpha, signals=sig, initial_cash=cash, rebalance='daily', long_only=True, fee_model=fm,
                                                   data_handler=dh, cash_buffer_percentage=buf, burn_in_dt=burn))
        tag = 'burn-in/%s/' % ('signals' if sig is not None else 'no-signals')
        c.ob(tag + 'constructed', r == 'ok')
        if r == 'ok':
            e = s.sim_engine
            c.ob(tag + 'clock-still-over-start-end', AND(e.starting_day == start, e.ending_day == end, e.pre_market is False, e.post_market is False,
                                                          s.burn_in_dt == burn), props=['C12', 'C14', 'C08', 'C16'])
            c.ob(tag + 'schedule-still-over-start-end', list(s.rebalance_schedule) == kinds['daily'], props=['C13', 'C14', 'C08'])
    start0, end0 = pd.Timestamp('2019-01-07 00:00:00', tz='UTC'), pd.Timestamp('2019-01-10 09:00:00', tz='UTC')
    for kind in ('buy_and_hold', 'daily'):
        r, s = _try(lambda: BacktestTradingSession(start0, end0, uni, alpha, initial_cash=cash, rebalance=kind, long_only=True, fee_model=fm,
                                                   data_handler=dh, cash_buffer_percentage=buf))
        c.ob('midnight-start/%s/clock-over-exactly-start-end' % kind,
             r == 'ok' and s.sim_engine.starting_day == start0 and s.sim_engine.ending_day == end0 and s.start_dt == start0 and s.end_dt == end0,
             props=['C12', 'C14', 'C08'])
    for same in (pd.Timestamp('2019-01-09 00:00:00', tz='UTC'), pd.Timestamp('2019-01-09 14:30:00', tz='UTC'), pd.Timestamp('2019-01-12 00:00:00', tz='UTC')):
        r, s = _try(lambda: BacktestTradingSession(same, same, uni, alpha, initial_cash=cash, rebalance='daily', long_only=True, fee_model=fm,
                                                   data_handler=dh, cash_buffer_percentage=buf))
        c.ob('start-equals-end/%s/accepted-with-the-clock-over-that-instant' % same.strftime('%a-%H%M'),
             r == 'ok' and s.sim_engine.starting_day == same and s.sim_engine.ending_day == same, props=['C12', 'C14', 'C08'])
    # membership of a schedule is by DATE: a start after 21:00 and an end before 21:00 change nothing (the clock still emits the closes)
    start2, end2 = pd.Timestamp('2019-01-02 21:01:00', tz='UTC'), pd.Timestamp('2019-03-29 14:30:00', tz='UTC')
    for kind, ref in (('daily', lambda: DailyRebalance(start2, end2)), ('weekly', lambda: WeeklyRebalance(start2, end2, 'FRI')),
                      ('end_of_month', lambda: EndOfMonthRebalance(start2, end2))):
        want2 = list(ref().rebalances)
        kw = {'rebalance_weekday': 'FRI'} if kind == 'weekly' else {}
        r, s = _try(lambda: BacktestTradingSession(start2, end2, uni, alpha, initial_cash=cash, rebalance=kind, long_only=True, fee_model=fm,
                                                   data_handler=dh, cash_buffer_percentage=buf, **kw))
        c.ob('odd-times/%s/schedule-is-the-class-schedule-over-start-end' % kind, r == 'ok' and list(s.rebalance_schedule) == want2,
             props=['C13', 'C14', 'C08'])
    # without a data handler the session builds ONE CSV source over the whole directory (every file, whatever the universe says)
    import qstrader.trading.backtest as bt
    made = []

    class Src:
        def __init__(self, *a, **k):
            made.append(('source', a, k))

    class Hdl:
        def __init__(self, *a, **k):
            made.append(('handler', a, k))
    saved = bt.CSVDailyBarDataSource, bt.BacktestDataHandler
    bt.CSVDailyBarDataSource, bt.BacktestDataHandler = Src, Hdl
    try:
        u2 = _Uni(['EQ:A'])
        r, s = _try(lambda: BacktestTradingSession(start, end, u2, alpha, initial_cash=cash, rebalance='daily', long_only=True,
                                                   cash_buffer_percentage=buf))
    finally:
        bt.CSVDailyBarDataSource, bt.BacktestDataHandler = saved
    srcs = [m for m in made if m[0] == 'source']
    hdls = [m for m in made if m[0] == 'handler']
    c.ob('default-data-handler/one-csv-source-over-every-file-of-the-directory',
         AND(r == 'ok', len(srcs) == 1, len(hdls) == 1) and not srcs[0][2].get('csv_symbols') and len(srcs[0][1]) <= 2
         and srcs[0][2].get('adjust_prices', True) is True, props=['C06', 'C08', 'C19', 'C16', 'C10', 'C11'])
    if r == 'ok' and len(hdls) == 1:
        ds = hdls[0][2].get('data_sources') or (hdls[0][1][1] if len(hdls[0][1]) > 1 else None)
        c.ob('default-data-handler/handler-over-exactly-that-source', isinstance(ds, list) and len(ds) == 1 and isinstance(ds[0], Src) and s.data_handler.__class__ is Hdl,
             props=['C06', 'C08'])
    r, _ = _try(lambda: BacktestTradingSession(start, end, uni, alpha, rebalance='fortnightly', long_only=True, data_handler=dh, cash_buffer_percentage=buf))
    c.ob('unknown-rebalance-kind-rejected/type-ValueError', r == 'ValueError')
    r, _ = _try(lambda: BacktestTradingSession(start, end, uni, alpha, rebalance='weekly', long_only=True, data_handler=dh, cash_buffer_percentage=buf))
    c.ob('weekly-without-a-weekday-rejected/type-ValueError', r == 'ValueError')
    r, s = _try(lambda: BacktestTradingSession(start, end, uni, alpha, rebalance='daily', long_only=False, data_handler=dh, gross_leverage=2.0))
    for bad in (0.0, -2.0):
        rb, _ = _try(lambda: BacktestTradingSession(start, end, uni, alpha, rebalance='daily', long_only=False, data_handler=dh, gross_leverage=bad))
        c.ob('session-with-leverage-%r-rejected/type-ValueError' % (bad,), rb == 'ValueError', props=['C11', 'C08'])
    c.ob('long-short-session-uses-the-leveraged-sizer', AND(r == 'ok', type(s.qts.portfolio_construction_model.order_sizer) is LS,
                                                           s.qts.portfolio_construction_model.order_sizer.gross_leverage == 2.0) if r == 'ok' else False)


canary('clock built with pre-market events', BacktestTradingSession, '_create_simulation_engine', 'pre_market=False', 'pre_market=True')(session_wiring)
canary('end-of-month schedule used for daily', BacktestTradingSession, '_create_rebalance_event_times', 'rebalancer = DailyRebalance(', 'rebalancer = EndOfMonthRebalance(')(session_wiring)
canary('initial cash not subscribed to the portfolio', BacktestTradingSession, '_create_broker', 'broker.subscribe_funds_to_portfolio(self.portfolio_id, self.initial_cash)', 'pass')(session_wiring)
canary('session ignores the fee model', BacktestTradingSession, '_create_broker', 'fee_model=self.fee_model', 'fee_model=ZeroFeeModel()')(session_wiring)
