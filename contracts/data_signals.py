"""Contracts for BacktestDataHandler (C06 glue, C07), SignalsCollection.update and AssetPriceBuffers (C16), and the small
loop-free parts of the rebalance schedules (C13)."""
import collections

import z3

from pyvc.run import harness, canary
from .common import UniverseStub as _U0
from pyvc import heap
from pyvc.core import (SymNum, SymBool, SymKey, SymTime, ctx, lift, liftk, R, K, B, EQ, NE, LE, LT, GE, GT, AND, OR, NOT, IMPLIES, IFF)

from qstrader.data.backtest_data_handler import BacktestDataHandler
from qstrader.signals.signals_collection import SignalsCollection
from qstrader.signals.buffer import AssetPriceBuffers
from qstrader.signals.momentum import MomentumSignal
from qstrader.signals.vol import VolatilitySignal
from qstrader.signals.sma import SMASignal
from qstrader.system.rebalance.weekly import WeeklyRebalance
from qstrader.system.rebalance.daily import DailyRebalance
from qstrader.system.rebalance.end_of_month import EndOfMonthRebalance

SRC_BID = z3.Function('SOURCE_BID', z3.IntSort(), R, K, R)
SRC_NAN = z3.Function('SOURCE_BID_IS_NAN', z3.IntSort(), R, K, B)
SRC_ASK = z3.Function('SOURCE_ASK', z3.IntSort(), R, K, R)
SRC_ANAN = z3.Function('SOURCE_ASK_IS_NAN', z3.IntSort(), R, K, B)
SRC_RAISES = z3.Function('SOURCE_RAISES', z3.IntSort(), R, K, B)


class _Source:
    def __init__(self, c, i, log):
        self.c, self.i, self.log = c, i, log

    def _q(self, kind, F, N, dt, asset):
        self.log.append((self.i, kind, dt, asset))
        c, i = self.c, z3.IntVal(self.i)
        if c.mode == 'sym':
            t, a = lift(dt), liftk(asset)
            if bool(SymBool(SRC_RAISES(i, t, a))):
                raise KeyError(asset)
            return SymNum(F(i, t, a), N(i, t, a))
        t, a = c.tterm(dt), c.keyterm(asset)
        if c.ceval(SRC_RAISES(i, t, a), lambda r: r.random() < 0.2, bool):
            raise KeyError(asset)
        if c.ceval(N(i, t, a), lambda r: r.random() < 0.4, bool):
            return float('nan')
        return c.ceval(F(i, t, a), lambda r: round(r.uniform(1, 300), 2))

    def get_bid(self, dt, asset):
        return self._q('bid', SRC_BID, SRC_NAN, dt, asset)

    def get_ask(self, dt, asset):
        return self._q('ask', SRC_ASK, SRC_ANAN, dt, asset)


def _first_valid(c, n, F, N, dt, a):
    """spec: the first source (in order) that answers without raising and not NaN; None if there is none"""
    for i in range(n):
        I = z3.IntVal(i)
        if c.mode == 'sym':
            t, x = lift(dt), liftk(a)
            if bool(SymBool(z3.And(z3.Not(SRC_RAISES(I, t, x)), z3.Not(N(I, t, x))))):
                return SymNum(F(I, t, x))
        else:
            t, x = c.tterm(dt), c.keyterm(a)
            if not c.ceval(SRC_RAISES(I, t, x), None, bool) and not c.ceval(N(I, t, x), None, bool):
                return c.ceval(F(I, t, x))
    return None


def _isnan(v):
    if isinstance(v, SymNum):
        return v.nan if v.nan is not None else False
    return v != v


@harness('BacktestDataHandler.latest_prices', props=['C06'], also=['C05', 'C07', 'C10', 'C11', 'C16', 'C02'], layer='L3',
         functions=['BacktestDataHandler.__init__', 'BacktestDataHandler.get_asset_latest_bid_price', 'BacktestDataHandler.get_asset_latest_ask_price',
                    'BacktestDataHandler.get_asset_latest_bid_ask_price', 'BacktestDataHandler.get_asset_latest_mid_price'])
def dh_latest(c):
    """bid/ask = the first data source (in order) giving a non-NaN answer, a raising source counting as NaN, else NaN;
       bid_ask = (bid, bid); mid = (bid + ask)/2; every source is queried at the caller's dt for the caller's asset"""
    a = c.key('asset')
    dt = c.time('dt')
    for n in (0, 1, 2, 3):
        log = []
        # (the handler's universe is arbitrary: prices do not depend on whether it lists the asset at dt)
        dh = BacktestDataHandler(_U0(c), data_sources=[_Source(c, i, log) for i in range(n)])
        bid = dh.get_asset_latest_bid_price(dt, a)
        want = _first_valid(c, n, SRC_BID, SRC_NAN, dt, a)
        tag = '%d-sources/' % n
        if want is None:
            c.ob(tag + 'bid-is-nan-when-no-source-answers', _isnan(bid))
        else:
            c.ob(tag + 'bid-is-first-non-nan-source-answer', AND(NOT(_isnan(bid)), EQ(bid, want)))
        ask = dh.get_asset_latest_ask_price(dt, a)
        wa = _first_valid(c, n, SRC_ASK, SRC_ANAN, dt, a)
        if wa is None:
            c.ob(tag + 'ask-is-nan-when-no-source-answers', _isnan(ask), props=['C06', 'C10', 'C11'])
        else:
            c.ob(tag + 'ask-is-first-non-nan-source-answer', AND(NOT(_isnan(ask)), EQ(ask, wa)), props=['C06', 'C10', 'C11'])
        ba = dh.get_asset_latest_bid_ask_price(dt, a)
        if want is None:
            c.ob(tag + 'bid-ask-pair-is-nan-nan', AND(_isnan(ba[0]), _isnan(ba[1])), props=['C06', 'C05'])
        else:
            c.ob(tag + 'bid-ask-pair-is-bid-bid', AND(EQ(ba[0], want), EQ(ba[1], want)), props=['C06', 'C05'])
            mid = dh.get_asset_latest_mid_price(dt, a)
            c.ob(tag + 'mid-is-half-bid-plus-ask', EQ(mid, (want + want) / 2.0), props=['C06', 'C02', 'C16'])
        c.ob(tag + 'sources-queried-at-dt-for-that-asset', AND(*[AND(EQ(q[2], dt), EQ(q[3], a)) for q in log]), props=['C07', 'C06'])


@harness('BacktestDataHandler.stateless', props=['C06', 'C07', 'C18'], layer='L3',
         functions=['BacktestDataHandler.__init__', 'BacktestDataHandler.get_asset_latest_bid_price', 'BacktestDataHandler.get_asset_latest_ask_price',
                    'BacktestDataHandler.get_asset_latest_bid_ask_price', 'BacktestDataHandler.get_asset_latest_mid_price'])
def dh_stateless(c):
    """the handler is a function of (dt, asset): queries it has already answered - for any asset, at any instant EARLIER OR
       LATER than dt (a handler shared between two sessions rewinds) - leave nothing behind"""
    a, a0 = c.key('asset'), c.key('asset_of_an_earlier_query')
    dt, t0 = c.time('dt'), c.time('time_of_an_earlier_query')
    n = 2 if c.mode == 'sym' else int(c.real('number_of_sources', lambda r: float(r.choice([1, 2, 3]))))
    log = []
    dh = BacktestDataHandler(_U0(c), data_sources=[_Source(c, i, log) for i in range(n)])
    if c.mode == 'sym':
        for i in range(n):         # (the earlier query's sources do not raise: fewer paths; raising sources are the main harness)
            c.assume(z3.Not(SRC_RAISES(z3.IntVal(i), lift(t0), liftk(a0))))
    with heap._quiet():
        dh.get_asset_latest_mid_price(t0, a0)
        if c.mode == 'conc':
            dh.get_asset_latest_ask_price(t0, a0)
            dh.get_asset_latest_ask_price(t0, a)
            dh.get_asset_latest_bid_price(t0, a)
    del log[:]
    for kind, F, N, get in (('bid', SRC_BID, SRC_NAN, dh.get_asset_latest_bid_price), ('ask', SRC_ASK, SRC_ANAN, dh.get_asset_latest_ask_price)):
        got = get(dt, a)
        want = _first_valid(c, n, F, N, dt, a)
        if want is None:
            c.ob(kind + '-after-earlier-queries-is-nan-when-no-source-answers', _isnan(got))
        else:
            c.ob(kind + '-after-earlier-queries-is-first-non-nan-source-answer', AND(NOT(_isnan(got)), EQ(got, want)))
    c.ob('sources-queried-at-dt-for-that-asset', AND(len(log) >= 1 if n else True, *[AND(EQ(q[2], dt), EQ(q[3], a)) for q in log]), props=['C07', 'C06'])


canary('handler remembers the last pair it served', BacktestDataHandler, 'get_asset_latest_bid_price',
       'bid = ds.get_bid(dt, asset_symbol)', 'bid = self.__dict__.setdefault("_memo", {}).setdefault(id(ds), ds.get_bid(dt, asset_symbol))')(dh_stateless)
canary('last source wins', BacktestDataHandler, 'get_asset_latest_bid_price', 'return bid\n            except', 'pass\n            except')(dh_latest)
canary('mid not halved', BacktestDataHandler, 'get_asset_latest_mid_price', '(bid_ask[0] + bid_ask[1]) / 2.0', '(bid_ask[0] + bid_ask[1])')(dh_latest)


# ------------------------------------------------------------------------------------ signals collection
MIDF = z3.Function('MID_PRICE', R, K, R)


@harness('SignalsCollection.update', props=['C16', 'C07'], layer='L3',
         functions=['SignalsCollection.__init__', 'SignalsCollection.update', 'SignalsCollection.__getitem__'])
def signals_update(c):
    """one update: every signal first refreshes its asset list at dt, then receives EXACTLY ONE observation per tracked
       asset - the data handler's mid price at dt - and the warm-up counter advances by one"""
    dt = c.time('dt')
    assets = [c.key('a1'), c.key('a2'), c.key('a3')]
    log = []

    class DH:
        def get_asset_latest_mid_price(self, d, asset):
            log.append(('mid', d, asset))
            if c.mode == 'sym':
                return SymNum(MIDF(lift(d), liftk(asset)))
            return c.ceval(MIDF(c.tterm(d), c.keyterm(asset)), lambda r: round(r.uniform(1, 300), 2))

    class Sig:
        def __init__(self, name, assets):
            self.name, self.assets = name, list(assets)

        def update_assets(self, d):
            log.append(('update_assets', self.name, d))

        def append(self, asset, price):
            log.append(('append', self.name, asset, price))
    sigs = collections.OrderedDict([('mom', Sig('mom', assets[:2])), ('vol', Sig('vol', assets))])
    sc = SignalsCollection(sigs, DH())
    w0 = sc.warmup
    sc.update(dt)
    for s in sigs.values():
        ups = [x for x in log if x[0] == 'update_assets' and x[1] == s.name]
        apps = [x for x in log if x[0] == 'append' and x[1] == s.name]
        c.ob('asset-list-refreshed-once-at-dt', AND(len(ups) == 1, *[EQ(u[2], dt) for u in ups]))
        c.ob('one-observation-per-tracked-asset-in-order', len(apps) == len(s.assets) and all(a is b for (_, _, a, _), b in zip(apps, s.assets)))
        for (_, _, a, p) in apps:
            want = SymNum(MIDF(lift(dt), liftk(a))) if c.mode == 'sym' else c.ceval(MIDF(c.tterm(dt), c.keyterm(a)))
            c.ob('observation-is-the-mid-price-at-dt', EQ(p, want))
        first_app = min([i for i, x in enumerate(log) if x[0] == 'append' and x[1] == s.name], default=None)
        up_ix = [i for i, x in enumerate(log) if x[0] == 'update_assets' and x[1] == s.name]
        c.ob('refresh-precedes-the-observations', first_app is None or (up_ix and up_ix[0] < first_app))
    c.ob('prices-queried-at-dt-only', AND(*[EQ(x[1], dt) for x in log if x[0] == 'mid']), props=['C07', 'C16'])
    c.ob('warmup-advances-by-one', sc.warmup == w0 + 1)


canary('observations appended twice', SignalsCollection, 'update', 'self.signals[name].append(asset, price)', 'self.signals[name].append(asset, price); self.signals[name].append(asset, price)')(signals_update)
canary('warmup not advanced', SignalsCollection, 'update', 'self.warmup += 1', 'pass')(signals_update)


# -------------------------------------------------------------------------------------------- buffers
def _window(c, name, n):
    return [c.real('%s[%d]' % (name, i), lambda r: round(r.uniform(1, 300), 2)) for i in range(n)]


@harness('AssetPriceBuffers.append', props=['C16'], layer='L0',
         functions=['AssetPriceBuffers.__init__', 'AssetPriceBuffers._asset_lookback_key', 'AssetPriceBuffers._create_single_asset_prices_buffer_dict',
                    'AssetPriceBuffers._create_all_assets_prices_buffer_dict', 'AssetPriceBuffers.add_asset', 'AssetPriceBuffers.append',
                    'Signal.append', 'MomentumSignal.__init__', 'MomentumSignal._asset_lookback_key', 'VolatilitySignal.__init__',
                    'VolatilitySignal._asset_lookback_key', 'SMASignal.__init__'])
def buffers_append(c):
    """for every real price and every window content: after append(a, p) each lookback window of a is (old ++ [p]) cut to its
       last N prices; windows of other assets and lookbacks are untouched; a non-positive price is rejected, nothing appended;
       an unseen asset starts with empty windows; momentum/volatility windows hold N+1 prices, SMA windows N
       (asset names and lookback sets enumerated: two assets incl. an underscore name, lookbacks {1,3} / {2})"""
    for lookbacks in ([1, 3], [2]):
        for fill in (0, 1, 4):
            A, B_ = 'EQ:A', 'EQ:B_1'
            buf = AssetPriceBuffers([A], lookbacks=list(lookbacks))
            hist = _window(c, 'hist%s_%d' % (''.join(map(str, lookbacks)), fill), fill)
            for x in hist:
                c.assume(GT(x, 0))
                buf.append(A, x)
            before = {k: list(v) for k, v in buf.prices.items()}
            p = c.real('p', lambda r: r.choice([-1.0, 0.0, 0.5, 12.25]))
            tag = 'lookbacks%s/prefill%d/' % (lookbacks, fill)
            try:
                buf.append(A, p)
                ok = True
            except ValueError:
                ok = False
            c.ob(tag + 'rejected-iff-price-not-positive', ok == bool(p > 0))
            for lb in lookbacks:
                key = '%s_%s' % (A, lb)
                cur = list(buf.prices[key])
                want = (hist + [p])[-lb:] if ok else hist[-lb:]
                c.ob(tag + 'window-is-last-N-of-old-plus-new', AND(len(cur) == len(want), *[EQ(x, y) for x, y in zip(cur, want)]))
            if ok:
                q = c.real('q_other', lambda r: 7.5)
                c.assume(GT(q, 0))
                snap = {k: list(v) for k, v in buf.prices.items()}
                buf.append(B_, q)            # an unseen asset
                for lb in lookbacks:
                    c.ob(tag + 'unseen-asset-starts-with-an-empty-window', AND(len(buf.prices['%s_%s' % (B_, lb)]) == 1, EQ(buf.prices['%s_%s' % (B_, lb)][0], q)))
                    c.ob(tag + 'other-assets-windows-untouched', list(buf.prices['%s_%s' % (A, lb)]) == snap['%s_%s' % (A, lb)] or
                         AND(*[EQ(x, y) for x, y in zip(buf.prices['%s_%s' % (A, lb)], snap['%s_%s' % (A, lb)])]))

    class U:
        def get_assets(self, dt):
            return ['EQ:A']
    t0 = c.time('start')
    for cls, bump in ((MomentumSignal, 1), (VolatilitySignal, 1), (SMASignal, 0)):
        s = cls(t0, U(), [2, 5])
        caps = sorted(d.maxlen for d in s.buffers.prices.values())
        c.ob('%s-window-capacity-is-lookback-plus-%d' % (cls.__name__, bump), caps == [2 + bump, 5 + bump])
        if bump:
            c.ob('%s-reads-the-window-of-capacity-N-plus-1' % cls.__name__, cls._asset_lookback_key('EQ:A', 2) in s.buffers.prices and
                 s.buffers.prices[cls._asset_lookback_key('EQ:A', 2)].maxlen == 3)


canary('append to the first lookback only', AssetPriceBuffers, 'append', 'for lookback in self.lookbacks:\n            self.prices[', 'for lookback in self.lookbacks[:1]:\n            self.prices[')(buffers_append)
canary('zero price accepted', AssetPriceBuffers, 'append', 'if price <= 0.0:', 'if price < 0.0:')(buffers_append)
canary('momentum lookback not bumped', MomentumSignal, '__init__', 'lookback + 1 for lookback in lookbacks', 'lookback for lookback in lookbacks')(buffers_append)


# ------------------------------------------------------------------------------------- C13 loop-free parts
@harness('Rebalance.weekday_and_market_time', props=['C13'], layer='L0',
         functions=['WeeklyRebalance._set_weekday', 'WeeklyRebalance._set_market_time', 'DailyRebalance._set_market_time', 'EndOfMonthRebalance._set_market_time'])
def rebalance_small(c):
    """weekday accepted iff (case-insensitively) one of MON..FRI, else ValueError; stamp 14:30:00 iff pre-market else 21:00:00"""
    if c.mode == 'conc':
        import pandas as pd
        a, b = pd.Timestamp('2020-01-06 00:00', tz='UTC'), pd.Timestamp('2020-02-07 23:59', tz='UTC')
        real = {WeeklyRebalance: WeeklyRebalance(a, b, 'WED'), DailyRebalance: DailyRebalance(a, b), EndOfMonthRebalance: EndOfMonthRebalance(a, b)}
    else:
        real = {}         # (the constructors build their schedules with pandas: bounded part; the helpers below do not read self)
    w = real.get(WeeklyRebalance) or object.__new__(WeeklyRebalance)
    for s in ['MON', 'tue', 'Wed', 'THU', 'fri', 'SAT', 'sun', 'MONDAY', '', 'XYZ']:
        try:
            r = w._set_weekday(s)
        except ValueError:
            r = None
        c.ob('weekday-%r' % s, (r == s.upper()) if s.upper() in ('MON', 'TUE', 'WED', 'THU', 'FRI') else (r is None))
    for cls in (WeeklyRebalance, DailyRebalance, EndOfMonthRebalance):
        o = real.get(cls) or object.__new__(cls)
        c.ob('%s-stamp-follows-pre-market-flag' % cls.__name__, (o._set_market_time(True), o._set_market_time(False)) == ('14:30:00', '21:00:00'))


rebalance_small.harness.conc = True
canary('Saturday accepted', WeeklyRebalance, '_set_weekday', '"FRI")', '"FRI", "SAT")')(rebalance_small)
canary('pre and post stamps swapped', DailyRebalance, '_set_market_time', '"14:30:00" if pre_market else "21:00:00"', '"21:00:00" if pre_market else "14:30:00"')(rebalance_small)


# ---------------------------------------------------------------------------------- Signal.update_assets
from qstrader.signals.signal import Signal
from pyvc.core import Abort, Unmodelled
from .common import UniverseStub, HAS

UA_LOOP = 'Signal.update_assets#for _#0'


class _TrackedAssets:
    """signal.assets: a list that update_assets only tests for membership (through set()) and appends to.
       view: the SET of tracked assets (a z3 set); ghost log of the appends of this call"""

    def __init__(self, dom):
        self.dom, self.appended = dom, []

    def __vc_set__(self):
        return heap.SymSet(self.dom)

    def append(self, x):
        ctx().ob('no-asset-is-tracked-twice', z3.Not(z3.Select(self.dom, liftk(x))), props=['C16'])
        self.appended.append(liftk(x))
        self.dom = z3.Store(self.dom, liftk(x), True)

    def __iter__(self):
        raise Unmodelled('iteration over the tracked assets')


class _ExtraLoop(heap.MapLoopSpec):
    """for extra_asset in extra_assets: self.assets.append(extra_asset)  - tracked set = old set + processed extras"""

    def __init__(self, tracked, dom0):
        self.tr, self.dom0 = tracked, dom0

    def scal(self, L, env, done):
        k = z3.Const('__k', K)
        return [('tracked-set-is-old-set-plus-processed-extras', self.tr.dom == z3.Lambda([k], z3.Or(z3.Select(self.dom0, k), z3.Select(done, k))))]


class _ExtraMapLoop(heap.MapLoop):
    def havoc(self, env, names, state=()):
        out = super().havoc(env, names, state)
        self.spec.tr.dom = ctx().fresh('tracked', heap.AKB)        # heap frame of the loop: the tracked list
        return out


@harness('Signal.update_assets', props=['C16', 'C07'], layer='L3', functions=['Signal.update_assets', 'Signal.__init__', 'Signal._create_asset_price_buffers'])
def signal_update_assets(c):
    """after update_assets(dt) the tracked assets are exactly the old ones plus the universe members at dt (a set union:
       nothing is dropped, nothing outside the universe is added, no asset is tracked twice); the universe is asked at dt"""
    if c.mode != 'sym':
        return _signal_update_assets_conc(c)
    w = c.key('w')
    uni = UniverseStub(c)
    dt = c.time('dt')
    dom0 = c._const('tracked0', heap.AKB)
    tr = _TrackedAssets(dom0)
    s = object.__new__(MomentumSignal)
    s.universe, s.assets = uni, tr
    spec = _ExtraLoop(tr, dom0)
    heap.LOOPSPEC[UA_LOOP] = lambda lid, it, env: _ExtraMapLoop(lid, it, env, spec)
    try:
        s.update_assets(dt)
    finally:
        heap.LOOPSPEC.pop(UA_LOOP, None)
    W = liftk(w)
    c.ob('tracked-assets-are-old-plus-universe-at-dt', z3.Select(tr.dom, W) == z3.Or(z3.Select(dom0, W), z3.Select(uni.dom_at(dt), W)))
    c.ob('universe-asked-at-dt-only', AND(len(uni.queries) >= 1, *[EQ(q, dt) for q in uni.queries]), props=['C07', 'C16'])


def _signal_update_assets_conc(c):
    w1, w2, w3 = c.key('w'), c.key('w2'), c.key('w3')
    uni = UniverseStub(c)
    dt = c.time('dt')
    old = [k for k in dict.fromkeys([w1, w2, w3]) if c.ceval(z3.Select(z3.Const('tracked0', heap.AKB), c.keyterm(k)), lambda r: r.random() < 0.4, bool)]
    import pandas as pd
    s = MomentumSignal(pd.Timestamp('2020-01-01', tz='UTC'), uni, [2])
    del uni.queries[:]
    s.universe, s.assets = uni, list(old)
    s.update_assets(dt)
    want = set(old) | set(uni._conc(dt))
    c.ob('tracked-assets-are-old-plus-universe-at-dt', set(s.assets) == want and len(s.assets) == len(set(s.assets)) and s.assets[:len(old)] == old)
    c.ob('universe-asked-at-dt-only', all(q == dt for q in uni.queries), props=['C07', 'C16'])


canary('tracked assets replaced by the universe', Signal, 'update_assets', 'list(set(universe_assets) - set((self.assets)))', 'list(set(universe_assets))')(signal_update_assets)
canary('universe asked at the start date', Signal, 'update_assets', 'self.universe.get_assets(dt)', 'self.universe.get_assets(self.start_dt)')(signal_update_assets)
