"""Mechanical AST rewrite, done on every run from inspect.getsource of the REAL function (DESIGN 2.1).

Changes exactly and only:
  1. for / while statements -> guarded cut form: when the iterable (resp. the loop) is symbolic the loop is cut by
     its invariant (entry obligation, havoc of assigned names, ONE arbitrary iteration running the original body
     statements unchanged, preservation obligation, exit with the invariant assumed); when it is concrete the
     original loop runs as written;
  2. comprehensions / generator expressions -> __vc__.comp(kind, lambda-element, iterable, lambda-cond);
     inside their element/condition expressions `and` / `or` / `not` / conditional expressions become
     __vc__.and_/or_/not_/ite so that a generic element yields a term instead of a fork;
  3. dict / list / set displays -> __vc__.new_dict / new_list / new_set (so symbolic keys never reach a CPython
     hash table); `{**a, **b}` -> __vc__.merge(a, b);
  4. `is` / `is not` -> __vc__.is_(a, b, negated);
  5. "literal" % args -> __vc__.fmt("literal", args);
  6. `x in y` / `x not in y` -> __vc__.in_(x, y, negated)  (so that containment in a symbolic collection is a term;
     on concrete operands it is CPython's `in`);
  7. zero-argument `super()` -> `super(<Class>, self)` (the __class__ cell does not survive recompiling a method alone).
Nothing else is touched.  The rewritten text is kept for the evidence directory."""
import ast
import inspect
import textwrap

VC = '__vc__'


def _vc(attr):
    return ast.Attribute(ast.Name(VC, ast.Load()), attr, ast.Load())


def _call(attr, args):
    return ast.Call(_vc(attr), args, [])


def _lam(argnames, body):
    return ast.Lambda(args=ast.arguments(posonlyargs=[], args=[ast.arg(a) for a in argnames], kwonlyargs=[],
                                         kw_defaults=[], defaults=[]), body=body)


def _target_names(t):
    if isinstance(t, ast.Name):
        return [t.id]
    if isinstance(t, (ast.Tuple, ast.List)):
        out = []
        for e in t.elts:
            out += _target_names(e)
        return out
    return []


class _TermBool(ast.NodeTransformer):
    """inside comprehension element/condition expressions: boolean operators build terms"""

    def visit_BoolOp(self, node):
        self.generic_visit(node)
        return _call('and_' if isinstance(node.op, ast.And) else 'or_', [_lam([], v) for v in node.values])

    def visit_UnaryOp(self, node):
        self.generic_visit(node)
        if isinstance(node.op, ast.Not):
            return _call('not_', [node.operand])
        return node

    def visit_IfExp(self, node):
        self.generic_visit(node)
        return _call('ite', [node.test, _lam([], node.body), _lam([], node.orelse)])

    def visit_Lambda(self, node):
        return node


class Xform(ast.NodeTransformer):
    def __init__(self, qual, clsname=None, selfname=None, local_names=()):
        self.qual = qual
        self.local_names = set(local_names)
        self.clsname, self.selfname = clsname, selfname
        self.counts = {}
        self.loops = []
        self.tmp = 0

    # ---- 7. zero-argument super() (the __class__ cell is lost when a method is recompiled alone) ----
    def visit_Call(self, node):
        self.generic_visit(node)
        if isinstance(node.func, ast.Name) and node.func.id == 'super' and not node.args and self.clsname:
            node.args = [ast.Name(self.clsname, ast.Load()), ast.Name(self.selfname, ast.Load())]
        return node

    # ---- 4. identity ------------------------------------------------------------------------------
    def visit_Compare(self, node):
        self.generic_visit(node)
        if len(node.ops) == 1:
            op = node.ops[0]
            if isinstance(op, (ast.Is, ast.IsNot)):
                return _call('is_', [node.left, node.comparators[0], ast.Constant(isinstance(op, ast.IsNot))])
            if isinstance(op, (ast.In, ast.NotIn)):
                return _call('in_', [node.left, node.comparators[0], ast.Constant(isinstance(op, ast.NotIn))])
        return node

    # ---- 5. % formatting ---------------------------------------------------------------------------
    def visit_BinOp(self, node):
        self.generic_visit(node)
        if isinstance(node.op, ast.Mod) and isinstance(node.left, ast.Constant) and isinstance(node.left.value, str):
            return _call('fmt', [node.left, node.right])
        return node

    # ---- 3. displays -------------------------------------------------------------------------------
    def visit_Dict(self, node):
        self.generic_visit(node)
        if any(k is None for k in node.keys):
            if all(k is None for k in node.keys):
                return _call('merge', list(node.values))
            return node
        return _call('new_dict', [ast.Tuple([ast.Tuple([k, v], ast.Load()) for k, v in zip(node.keys, node.values)],
                                            ast.Load())])

    def visit_List(self, node):
        self.generic_visit(node)
        if isinstance(node.ctx, ast.Load) and not any(isinstance(e, ast.Starred) for e in node.elts):
            return _call('new_list', [ast.Tuple(list(node.elts), ast.Load())])
        return node

    def visit_Set(self, node):
        self.generic_visit(node)
        return _call('new_set', [ast.Tuple(list(node.elts), ast.Load())])

    # ---- 2. comprehensions -------------------------------------------------------------------------
    def _comp(self, node, kind, elt):
        self.generic_visit(node)
        if len(node.generators) != 1 or node.generators[0].is_async:
            return node
        g = node.generators[0]
        names = _target_names(g.target)
        if not names:
            return node
        tb = _TermBool()
        elt = tb.visit(elt)
        cond = None
        if g.ifs:
            c = g.ifs[0] if len(g.ifs) == 1 else ast.BoolOp(ast.And(), list(g.ifs))
            cond = tb.visit(c)

        def lam(body):
            if isinstance(g.target, ast.Name):
                return _lam([g.target.id], body)
            # tuple target: lambda __e: (lambda a, b: body)(*__vc__.unpack(__e, n))
            inner = _lam(names, body)
            flat = all(isinstance(e, ast.Name) for e in g.target.elts)
            if not flat:
                raise NotImplementedError('nested tuple target in comprehension')
            return _lam(['__e'], ast.Call(inner, [ast.Starred(_call('unpack', [ast.Name('__e', ast.Load()),
                                                                                 ast.Constant(len(names))]), ast.Load())], []))
        return _call('comp', [ast.Constant(kind), lam(elt), g.iter, lam(cond) if cond is not None else ast.Constant(None)])

    def visit_ListComp(self, n):
        return self._comp(n, 'list', n.elt)

    def visit_GeneratorExp(self, n):
        return self._comp(n, 'gen', n.elt)

    def visit_SetComp(self, n):
        return self._comp(n, 'set', n.elt)

    def visit_DictComp(self, n):
        return self._comp(n, 'dict', ast.Tuple([n.key, n.value], ast.Load()))

    # ---- 1. loops ----------------------------------------------------------------------------------
    def _norm(self, node):
        """loop shape: the iterable / condition text with every LOCAL variable replaced by `_` (renaming a local or a
        parameter does not change the shape; attribute paths on self and called functions do)"""
        import copy
        n = copy.deepcopy(node)
        for x in ast.walk(n):
            if isinstance(x, ast.Name) and x.id in self.local_names:
                x.id = '_'
        return ast.unparse(n)

    def _lid(self, kind, text):
        fp = '%s %s' % (kind, text)
        k = self.counts.get(fp, 0)
        self.counts[fp] = k + 1
        lid = '%s#%s#%d' % (self.qual, fp, k)
        self.loops.append(lid)
        return lid

    @staticmethod
    def _assigned(body, extra=()):
        names = set(extra)
        for s in body:
            for x in ast.walk(s):
                if isinstance(x, ast.Name) and isinstance(x.ctx, ast.Store):
                    names.add(x.id)
                elif isinstance(x, (ast.AugAssign,)) and isinstance(x.target, ast.Name):
                    names.add(x.target.id)
                elif isinstance(x, ast.Subscript) and isinstance(x.ctx, ast.Store) and isinstance(x.value, ast.Name):
                    names.add(x.value.id)         # d[k] = v mutates the local d: carried (havoced) like an assignment
                elif isinstance(x, ast.Call) and isinstance(x.func, ast.Attribute) and isinstance(x.func.value, ast.Name) \
                        and x.func.attr in ('append', 'update', 'extend', 'add', 'put', 'pop', 'remove', 'clear', 'insert'):
                    names.add(x.func.value.id)
        return sorted(n for n in names if not n.startswith('__'))

    @staticmethod
    def _state(body, assigned, target_names=()):
        """names among `assigned` that are genuinely LOOP-CARRIED: possibly read before they are definitely written in the
        body, or mutated in place (d[k] = v, x.append(...)).  Per-iteration temporaries are not state.
        (ordered, branch-aware read-before-write analysis on the ORIGINAL body)"""
        state = set()
        MUT = ('append', 'update', 'extend', 'add', 'put', 'pop', 'remove', 'clear', 'insert')
        for s in body:
            for x in ast.walk(s):
                if isinstance(x, ast.Subscript) and isinstance(x.ctx, (ast.Store, ast.Del)) and isinstance(x.value, ast.Name):
                    state.add(x.value.id)
                elif isinstance(x, ast.Call) and isinstance(x.func, ast.Attribute) and isinstance(x.func.value, ast.Name) and x.func.attr in MUT:
                    state.add(x.func.value.id)

        def loads(n):
            return {x.id for x in ast.walk(n) if isinstance(x, ast.Name) and isinstance(x.ctx, ast.Load)}

        def rbw(stmts, defined):
            reads = set()
            defined = set(defined)
            for s in stmts:
                if isinstance(s, ast.Assign):
                    reads |= loads(s.value) - defined
                    for t in s.targets:
                        if isinstance(t, (ast.Name, ast.Tuple, ast.List)):
                            defined |= set(_target_names(t))
                        else:
                            reads |= loads(t) - defined
                elif isinstance(s, ast.AugAssign):
                    reads |= (loads(s.value) | loads(s.target) | ({s.target.id} if isinstance(s.target, ast.Name) else set())) - defined
                elif isinstance(s, ast.If):
                    reads |= loads(s.test) - defined
                    r1, d1 = rbw(s.body, defined)
                    r2, d2 = rbw(s.orelse, defined)
                    reads |= r1 | r2
                    defined = d1 & d2
                elif isinstance(s, (ast.For, ast.AsyncFor)):
                    reads |= loads(s.iter) - defined
                    r1, _ = rbw(s.body, defined | set(_target_names(s.target)))
                    r2, _ = rbw(s.orelse, defined)
                    reads |= r1 | r2
                elif isinstance(s, ast.While):
                    reads |= loads(s.test) - defined
                    r1, _ = rbw(s.body, defined)
                    reads |= r1
                elif isinstance(s, ast.Try):
                    r1, d1 = rbw(s.body, defined)
                    reads |= r1
                    for h in s.handlers:
                        rh, _ = rbw(h.body, defined)
                        reads |= rh
                    r3, _ = rbw(s.orelse, d1)
                    r4, _ = rbw(s.finalbody, defined)
                    reads |= r3 | r4
                elif isinstance(s, ast.With):
                    for it in s.items:
                        reads |= loads(it.context_expr) - defined
                    r1, d1 = rbw(s.body, defined)
                    reads |= r1
                    defined = d1
                else:
                    reads |= loads(s) - defined
            return reads, defined

        r, _ = rbw(body, set(target_names))
        state |= r
        return tuple(sorted(state & set(assigned)))

    def visit_For(self, node):
        text = self._norm(node.iter)
        lid = self._lid('for', text)
        carried = self._assigned(node.body, _target_names(node.target))
        state = self._state(node.body, carried, _target_names(node.target))
        self.generic_visit(node)
        self.tmp += 1
        i = self.tmp
        L, IT = '__L%d' % i, '__it%d' % i
        src = textwrap.dedent('''
        %(IT)s = 0
        %(L)s = __vc__.loop(%(lid)r, %(IT)s, locals())
        if %(L)s is None:
            pass
        else:
            %(pre)s
            %(hav)s
            if %(L)s.more(locals()):
                __T__ = %(L)s.next(locals())
                %(L)s.preserved(locals())
            %(post)s
        ''') % dict(IT=IT, L=L, lid=lid,
                    pre=('(%s,) = __vc__.prebind(locals(), %r)' % (', '.join(carried), tuple(carried))) if carried else 'pass',
                    hav=('(%s,) = %s.havoc(locals(), %r, %r)' % (', '.join(carried), L, tuple(carried), state)) if carried else 'pass',
                    post=('(%s,) = %s.exit(locals(), %r)' % (', '.join(carried), L, tuple(carried))) if carried else 'pass')
        new = ast.parse(src).body
        new[0].value = node.iter
        iff = new[2]
        orig = ast.For(target=node.target, iter=ast.Name(IT, ast.Load()), body=node.body, orelse=node.orelse,
                       type_comment=None)
        iff.body = [orig]
        cut = iff.orelse
        inner = cut[2]
        assert isinstance(inner, ast.If)
        inner.body[0].targets = [node.target]
        inner.body = [inner.body[0]] + _once(_copy_body(node.body), '__brk%d' % i, [inner.body[1]])
        if node.orelse:
            cut.extend(_copy_body(node.orelse))
        return new

    def visit_While(self, node):
        text = self._norm(node.test)
        lid = self._lid('while', text)
        carried = self._assigned(node.body)
        state = self._state(node.body, carried)
        self.generic_visit(node)
        self.tmp += 1
        i = self.tmp
        L = '__L%d' % i
        src = textwrap.dedent('''
        %(L)s = __vc__.wloop(%(lid)r, locals())
        if %(L)s is None:
            pass
        else:
            %(pre)s
            %(hav)s
            %(L)s.assume_inv(locals())
            if __COND__:
                %(L)s.preserved(locals())
            %(post)s
        ''') % dict(L=L, lid=lid,
                    pre=('(%s,) = __vc__.prebind(locals(), %r)' % (', '.join(carried), tuple(carried))) if carried else 'pass',
                    hav=('(%s,) = %s.havoc(locals(), %r, %r)' % (', '.join(carried), L, tuple(carried), state)) if carried else 'pass',
                    post=('(%s,) = %s.exit(locals(), %r)' % (', '.join(carried), L, tuple(carried))) if carried else 'pass')
        new = ast.parse(src).body
        iff = new[1]
        iff.body = [ast.While(test=node.test, body=node.body, orelse=node.orelse)]
        cut = iff.orelse
        inner = cut[3]
        assert isinstance(inner, ast.If)
        inner.test = _copy_node(node.test)
        inner.body = _once(_copy_body(node.body), '__brk%d' % i, [inner.body[0]])
        return new


class _BreakFlag(ast.NodeTransformer):
    """in the cut copy of a loop body: `break` of THIS loop sets a flag (nested loops are left alone)"""

    def __init__(self, flag):
        self.flag, self.used = flag, False

    def visit_For(self, node):
        return node

    visit_While = visit_For
    visit_FunctionDef = visit_For
    visit_Lambda = visit_For

    def visit_Break(self, node):
        self.used = True
        return [ast.Assign(targets=[ast.Name(self.flag, ast.Store())], value=ast.Constant(True)), ast.Break()]


def _once(body, flag, tail):
    """run `body` once inside a one-iteration loop so that `continue` ends the iteration and `break` is recorded;
    `tail` (the preservation check) runs unless the loop was left by `break`"""
    bf = _BreakFlag(flag)
    body = [bf.visit(s) for s in body]
    flat = []
    for s in body:
        flat.extend(s if isinstance(s, list) else [s])
    has_cont = any(isinstance(x, (ast.Continue, ast.Break)) for s in flat for x in _walk_same_loop(s))
    if not has_cont:
        return flat + tail
    init = ast.Assign(targets=[ast.Name(flag, ast.Store())], value=ast.Constant(False))
    loop = ast.For(target=ast.Name('__once', ast.Store()), iter=ast.Tuple([ast.Constant(0)], ast.Load()), body=flat, orelse=[], type_comment=None)
    guard = ast.If(test=ast.UnaryOp(ast.Not(), ast.Name(flag, ast.Load())), body=tail, orelse=[])
    return [init, loop, guard]


def _walk_same_loop(node):
    yield node
    for ch in ast.iter_child_nodes(node):
        if isinstance(ch, (ast.For, ast.While, ast.FunctionDef, ast.Lambda)):
            continue
        yield from _walk_same_loop(ch)


def _copy_node(n):
    import copy
    return copy.deepcopy(n)


def _copy_body(body):
    return [_copy_node(s) for s in body]


def needs_rewrite(fn_src_tree):
    for x in ast.walk(fn_src_tree):
        if isinstance(x, (ast.For, ast.While, ast.ListComp, ast.GeneratorExp, ast.SetComp, ast.DictComp, ast.Dict,
                          ast.List, ast.Set)):
            return True
        if isinstance(x, ast.Compare) and any(isinstance(o, (ast.Is, ast.IsNot, ast.In, ast.NotIn)) for o in x.ops):
            return True
        if isinstance(x, ast.BinOp) and isinstance(x.op, ast.Mod) and isinstance(x.left, ast.Constant) \
                and isinstance(x.left.value, str):
            return True
    return False


def rewrite_source(src, qual, clsname=None):
    """returns (module-ast with one FunctionDef, rewritten text, loop ids) or None if nothing to rewrite"""
    tree = ast.parse(textwrap.dedent(src))
    fdef = tree.body[0]
    # decorators are re-applied by the installer
    fdef.decorator_list = []
    if not needs_rewrite(tree):
        return None
    selfname = fdef.args.args[0].arg if fdef.args.args else None
    x = Xform(qual, clsname, selfname, local_names_of(fdef, selfname if clsname else None))
    tree = x.visit(tree)
    ast.fix_missing_locations(tree)
    return tree, ast.unparse(tree), x.loops


def local_names_of(fdef, selfname=None):
    """parameters (except self/cls) and every name assigned in the function"""
    names = {a.arg for a in fdef.args.args + fdef.args.kwonlyargs + fdef.args.posonlyargs}
    if fdef.args.vararg:
        names.add(fdef.args.vararg.arg)
    if fdef.args.kwarg:
        names.add(fdef.args.kwarg.arg)
    for x in ast.walk(fdef):
        if isinstance(x, ast.Name) and isinstance(x.ctx, ast.Store):
            names.add(x.id)
        elif isinstance(x, ast.arg) and x is not fdef.args:
            pass
    names.discard(selfname)
    return names


def function_source(fn):
    return inspect.getsource(fn)
