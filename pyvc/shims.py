"""Shadowed builtins and library modules = the ASSUMED CONTRACTS of dependencies (DESIGN 2.6).

Every shim accepts proxies and concrete values; on concrete values it is the real library function.
They are installed into the *module namespace* of every qstrader module for the lifetime of a symbolic
run (the functions' bytecode is untouched; only the names np, int, float, ... resolve to these)."""
import builtins
import datetime as _datetime
import math
import queue as _queue
import uuid as _uuid

import numpy as _np
import z3

from . import core
from .core import (SymNum, SymBool, SymKey, SymTime, SymTod, SymOpt, OpaqueStr, Unmodelled, lift, tobool,
                   ctx, is_sym, R, K, B)

TRUSTED = []          # textual list of assumed library contracts, reported in every evidence file


def trusted(text):
    TRUSTED.append(text)


def _sym(x):
    return isinstance(x, (SymNum, SymBool, SymKey, SymTime, SymTod, SymOpt))


# ---------------------------------------------------------------------------------------------- numpy
trusted('np.floor/np.ceil = mathematical floor/ceiling; int(x) truncates toward zero; float(n) is the identity on reals')
trusted('np.copysign(1, x) = +1 if x >= 0 else -1 (x = -0.0 outside the model)')
trusted('np.isclose(a, b) <=> |a - b| <= atol + rtol*|b| with numpy defaults rtol=1e-5, atol=1e-8 (so isclose(x, 0.0) <=> |x| <= 1e-8)')
trusted('np.isnan reads the NaN flag of a data-handler price; arithmetic on a possibly-NaN value is a definedness obligation')
trusted('builtin round(x) / round(x, 2): uninterpreted R0/R2 with |R0(x)-x| <= 1/2, R0 integer-valued, |R2(x)-x| <= 0.005, both odd functions')
trusted('sum() over a finite map = SUM(dom, g) with the definitional unfolding SUM(empty) = 0, SUM(D + {k}, g) = SUM(D, g) + g(k) for k not in D, instantiated by the engine')
trusted('np.zeros(n) is an array of n zeros indexed 0..n-1; Series.iloc[t] reads the t-th observation; len(index) is the number of observations')
trusted('machine floating point is treated as mathematical real arithmetic; Python int as Z')


class NpShim:
    nan = float('nan')

    def __getattr__(self, name):
        return getattr(_np, name)

    @staticmethod
    def zeros(n, *a, **k):
        if isinstance(n, SymNum):
            from . import heap
            return heap.SymArr(z3.K(z3.IntSort(), z3.RealVal(0)), n)
        return _np.zeros(n, *a, **k)

    @staticmethod
    def floor(x):
        if isinstance(x, SymNum):
            return x.__floor__()
        return _np.floor(x)

    @staticmethod
    def ceil(x):
        if isinstance(x, SymNum):
            return x.__ceil__()
        return _np.ceil(x)

    @staticmethod
    def abs(x):
        if isinstance(x, SymNum):
            return abs(x)
        return _np.abs(x)

    @staticmethod
    def copysign(a, b):
        if isinstance(b, SymNum):
            if a != 1:
                raise Unmodelled('copysign with magnitude != 1')
            b._nanchk()
            return SymNum(z3.If(b.t >= 0, z3.RealVal(1), z3.RealVal(-1)))
        return _np.copysign(a, b)

    @staticmethod
    def isnan(x):
        if isinstance(x, SymNum):
            return SymBool(x.nan) if x.nan is not None else False
        return _np.isnan(x)

    @staticmethod
    def isclose(a, b, **kw):
        if isinstance(a, SymNum) or isinstance(b, SymNum):
            if set(kw) - {'rtol', 'atol'} or any(isinstance(v, SymNum) for v in kw.values()):
                raise Unmodelled('np.isclose with symbolic tolerances / equal_nan')
            # numpy: |a - b| <= atol + rtol * |b|   (defaults rtol=1e-05, atol=1e-08)
            ta, tb = lift(a), lift(b)
            atol = z3.RealVal(repr(float(kw.get('atol', 1e-08))))
            rtol = z3.RealVal(repr(float(kw.get('rtol', 1e-05))))
            d = ta - tb
            absb = z3.If(tb >= 0, tb, -tb)
            bound = z3.simplify(atol + rtol * absb)
            return SymBool(z3.And(d <= bound, -d <= bound))
        return _np.isclose(a, b, **kw)


np = NpShim()


# ------------------------------------------------------------------------------------------- builtins
def vc_int(x=0, *a):
    if isinstance(x, SymNum):
        return x.__trunc__()
    return builtins.int(x, *a)


def vc_float(x=0.0):
    if isinstance(x, SymNum):
        return x
    return builtins.float(x)


class _StrMeta(type):
    """the shadowed name `str` must still BE str in comparisons such as `type(x) != str` and in isinstance()"""

    def __eq__(cls, other):
        return other is cls or other is builtins.str

    def __ne__(cls, other):
        return not (other is cls or other is builtins.str)

    def __hash__(cls):
        return hash(builtins.str)

    def __instancecheck__(cls, x):
        return isinstance(x, (builtins.str, SymKey))

    def __subclasscheck__(cls, sub):
        return issubclass(sub, builtins.str)


class vc_str(builtins.str, metaclass=_StrMeta):
    def __new__(cls, x='', *a):
        if isinstance(x, SymKey):
            return x                  # ids are strings: str(id) is the identity
        if _sym(x):
            return OpaqueStr('<sym>')
        return builtins.str(x, *a)


def vc_type(x, *a):
    if a:
        return builtins.type(x, *a)
    if isinstance(x, SymKey):
        return builtins.str        # asset symbols / portfolio ids are str (documented id type)
    if isinstance(x, SymNum):
        return builtins.float
    return builtins.type(x)


def vc_print(*a, **k):
    pass


def vc_len(x):
    if hasattr(x, '__vc_len__'):
        return x.__vc_len__()
    return builtins.len(x)


def vc_sum(it, start=0):
    if hasattr(it, '__vc_sum__'):
        r = it.__vc_sum__()
        return r if (isinstance(start, int) and start == 0) else r + start
    return builtins.sum(it, start)


def vc_any(it):
    if hasattr(it, '__vc_any__'):
        return it.__vc_any__()
    return builtins.any(it)


def vc_all(it):
    if hasattr(it, '__vc_all__'):
        return it.__vc_all__()
    return builtins.all(it)


def vc_sorted(it, key=None, reverse=False):
    if hasattr(it, '__vc_sorted__'):
        return it.__vc_sorted__(key, reverse)
    return builtins.sorted(it, key=key, reverse=reverse)


def vc_list(it=()):
    if hasattr(it, '__vc_list__'):
        return it.__vc_list__()
    return builtins.list(it)


def vc_set(it=()):
    if hasattr(it, '__vc_set__'):
        return it.__vc_set__()
    if isinstance(it, (builtins.list, builtins.tuple)) and builtins.any(isinstance(x, SymKey) for x in it):
        from . import heap
        return heap.SymSet(heap.SymSet._dom_of(builtins.list(it)))
    return builtins.set(it)


def vc_dict(it=(), **kw):
    if hasattr(it, '__vc_dict__'):
        return it.__vc_dict__()
    return builtins.dict(it, **kw)


def _dict_fromkeys(keys, value=None):
    if hasattr(keys, '__vc_loop__') or type(keys).__name__ == 'SymIter':
        from pyvc import heap
        return heap.comp('dict', lambda k: (k, value), keys, None)
    return builtins.dict.fromkeys(keys, value)


vc_dict.fromkeys = _dict_fromkeys


def vc_enumerate(it, start=0):
    if hasattr(it, '__vc_enumerate__'):
        return it.__vc_enumerate__()
    return builtins.enumerate(it, start)


def vc_bool(x=False):
    if isinstance(x, SymBool):
        return x
    if hasattr(x, '__vc_bool__'):
        return x.__vc_bool__()
    return builtins.bool(x)


def vc_max(*a, **k):
    if len(a) == 2 and not k and (_sym(a[0]) or _sym(a[1])):
        x, y = lift(a[0]), lift(a[1])
        return SymNum(z3.If(x >= y, x, y))      # max(a, b) returns a when equal (first maximal element)
    return builtins.max(*a, **k)


def vc_min(*a, **k):
    if len(a) == 2 and not k and (_sym(a[0]) or _sym(a[1])):
        x, y = lift(a[0]), lift(a[1])
        return SymNum(z3.If(x <= y, x, y))
    return builtins.min(*a, **k)


def vc_range(*a):
    if any(isinstance(x, SymNum) for x in a):
        from . import heap
        lo, hi = (0, a[0]) if len(a) == 1 else (a[0], a[1])
        if len(a) > 2:
            raise Unmodelled('range with a step over symbolic bounds')
        return heap.SymRange(lo, hi)
    return builtins.range(*a)


def vc_isinstance(x, t):
    return builtins.isinstance(x, t)


# ------------------------------------------------------------------------------------------- datetime
trusted('datetime.time(H, M) = 3600H + 60M seconds of the day; Timestamp.time()/weekday() via DAY/TOD with t = 86400*DAY + TOD, 0 <= TOD < 86400, weekday = (DAY + 3) mod 7')


class _DatetimeClass:
    @staticmethod
    def strftime(x, fmt):
        if _sym(x):
            return OpaqueStr('<time>')
        return _datetime.datetime.strftime(x, fmt)

    def __call__(self, *a, **k):
        if any(_sym(x) or isinstance(x, SymCivilInt) for x in a):
            return SymCivil(*a)
        return _datetime.datetime(*a, **k)

    def __getattr__(self, n):
        return getattr(_datetime.datetime, n)


class DatetimeShim:
    datetime = _DatetimeClass()

    @staticmethod
    def time(hour=0, minute=0, second=0, microsecond=0, tzinfo=None):
        if microsecond or tzinfo is not None:
            raise Unmodelled('datetime.time with microseconds / tzinfo')
        return SymTod(3600 * hour + 60 * minute + second)

    def __getattr__(self, n):
        return getattr(_datetime, n)


datetime = DatetimeShim()

# civil calendar, used by the clock generator only
CIVIL = z3.Function('CIVIL', z3.IntSort(), z3.IntSort(), z3.IntSort(), z3.IntSort())     # (y, m, d) -> day number
YF = z3.Function('YEAR', z3.IntSort(), z3.IntSort())
MF = z3.Function('MONTH', z3.IntSort(), z3.IntSort())
DF = z3.Function('DOM', z3.IntSort(), z3.IntSort())
trusted('pd.Timestamp(datetime(y, m, d, H, M), tz=UTC) is the instant civil(y,m,d)*86400 + 3600H + 60M, with civil(year(D), month(D), day(D)) = D for every day number D')


class SymCivilInt:
    def __init__(self, t):
        self.t = t


class SymDay:
    """An element of a DatetimeIndex of days (only .year/.month/.day are read)."""

    def __init__(self, daynum):
        self.daynum = daynum
    year = property(lambda s: SymCivilInt(YF(s.daynum)))
    month = property(lambda s: SymCivilInt(MF(s.daynum)))
    day = property(lambda s: SymCivilInt(DF(s.daynum)))


class SymCivil:
    def __init__(self, y, m, d, H=0, Mi=0, S=0):
        if not all(isinstance(x, SymCivilInt) for x in (y, m, d)) or not all(isinstance(x, int) for x in (H, Mi, S)):
            raise Unmodelled('datetime() with mixed symbolic arguments')
        self.day = CIVIL(y.t, m.t, d.t)
        self.secs = 3600 * H + 60 * Mi + S


class _PdShim:
    def __getattr__(self, n):
        import pandas
        return getattr(pandas, n)

    @staticmethod
    def DataFrame(*a, **k):
        from . import heap
        if any(isinstance(x, heap.SymIndex) for x in list(a) + list(k.values())):
            raise heap.StopHere('pandas frame built from a symbolic index')
        import pandas
        return pandas.DataFrame(*a, **k)

    @staticmethod
    def Timestamp(x, *a, tz=None, **k):
        if isinstance(x, SymCivil):
            if str(tz) != 'UTC' or a or k:
                raise Unmodelled('Timestamp of a symbolic civil date with tz=%r' % (tz,))
            t = SymTime(z3.ToReal(x.day) * 86400 + x.secs, z3.RealVal(0))
            t_day, t_secs = x.day, x.secs
            c = ctx()
            c.assume(core.DAYF(t.t) == t_day)
            c.assume(core.TODF(t.t) == z3.RealVal(t_secs))
            return t
        import pandas
        return pandas.Timestamp(x, *a, tz=tz, **k)


pd = _PdShim()


# ---------------------------------------------------------------------------------------------- uuid
trusted('uuid.uuid4().hex is a fresh opaque value (never compared, hashed, ordered or used in arithmetic)')


class _Uuid:
    class _U:
        @property
        def hex(self):
            return OpaqueId()

    def uuid4(self):
        if ctx() is not None and ctx().mode == 'sym':
            return self._U()
        return _uuid.uuid4()


class OpaqueId:
    """order id: flows only into Transaction.order_id and messages."""
    _n = [0]

    def __init__(self):
        OpaqueId._n[0] += 1
        self.n = OpaqueId._n[0]

    def __eq__(self, o):
        raise Unmodelled('order id compared')

    def __lt__(self, o):
        raise Unmodelled('order id ordered')

    def __hash__(self):
        raise Unmodelled('order id hashed')

    def __str__(self):
        return OpaqueStr('<oid>')

    def __format__(self, s):
        return OpaqueStr('<oid>')


uuid = _Uuid()


# -------------------------------------------------------------------------------------------- logging
class _NullLogger:
    def info(self, *a, **k): pass
    def debug(self, *a, **k): pass
    def warning(self, *a, **k): pass
    def setLevel(self, *a): pass


class LoggingShim:
    DEBUG = 10

    @staticmethod
    def getLogger(name=None):
        return _NullLogger()


logging = LoggingShim()


class CopyShim:
    @staticmethod
    def copy(x):
        if _sym(x):
            return x             # proxies are immutable values
        import copy as _c
        return _c.copy(x)

    @staticmethod
    def deepcopy(x):
        if _sym(x):
            return x
        import copy as _c
        return _c.deepcopy(x)


copy = CopyShim()


def module_shadows():
    """names installed into every qstrader module namespace"""
    from . import heap
    return dict(np=np, int=vc_int, float=vc_float, str=vc_str, type=vc_type, print=vc_print, len=vc_len,
                sum=vc_sum, any=vc_any, all=vc_all, sorted=vc_sorted, list=vc_list, set=vc_set, dict=vc_dict,
                enumerate=vc_enumerate, bool=vc_bool, max=vc_max, min=vc_min, range=vc_range,
                datetime=datetime, uuid=uuid, logging=logging, copy=copy, queue=heap.queue, pd=pd,
                deque=heap.vc_deque, OrderedDict=heap.vc_ordered_dict)
