"""Imports the repository from /repo (current working tree), installs the shims into every qstrader module
namespace and replaces every function that needs it by its mechanically rewritten form (xform).
`uninstall()` restores the pristine modules (used for native replays in the same process)."""
import importlib
import inspect
import os
import pkgutil
import sys
import types

from . import xform, shims, heap

ROOT = os.environ.get('QSTRADER_ROOT', '/repo')
_state = {'installed': False, 'saved_globals': [], 'saved_attrs': [], 'rewritten': {}, 'loops': {}, 'skipped': {}}

SKIP_MODULES = ('qstrader.statistics.tearsheet', 'qstrader.statistics.json_statistics')


def import_repo():
    import qstrader
    f = os.path.realpath(qstrader.__file__)
    if not f.startswith(os.path.realpath(ROOT) + os.sep):
        raise RuntimeError('qstrader imported from %s, expected under %s' % (f, ROOT))
    from qstrader import settings
    settings.PRINT_EVENTS = False
    mods = []
    for m in pkgutil.walk_packages(qstrader.__path__, 'qstrader.'):
        if m.name in SKIP_MODULES:
            continue
        try:
            mods.append(importlib.import_module(m.name))
        except Exception as e:       # optional plotting deps etc.
            _state['skipped'][m.name] = repr(e)
    return mods


def _functions_of_class(cls):
    for name, obj in list(vars(cls).items()):
        if isinstance(obj, types.FunctionType):
            yield name, obj, 'plain'
        elif isinstance(obj, staticmethod):
            yield name, obj.__func__, 'static'
        elif isinstance(obj, classmethod):
            yield name, obj.__func__, 'class'
        elif isinstance(obj, property) and obj.fget is not None and obj.fset is None:
            yield name, obj.fget, 'property'


def _rewrite(fn, qual, mod, clsname=None):
    try:
        src = xform.function_source(fn)
    except (OSError, TypeError):
        return None
    if getattr(fn, '__wrapped__', None) is not None:
        return None        # decorated (e.g. lru_cache): left alone
    if src.lstrip().startswith('@') and 'lru_cache' in src.split('def ')[0]:
        return None
    try:
        r = xform.rewrite_source(src, qual, clsname)
    except NotImplementedError as e:
        _state['skipped'][qual] = repr(e)
        return None
    if r is None:
        return None
    tree, text, loops = r
    code = compile(tree, '<pyvc:%s>' % qual, 'exec')
    ns = {}
    exec(code, mod.__dict__, ns)
    new = ns[fn.__name__]
    new.__qualname__ = fn.__qualname__
    new.__module__ = fn.__module__
    new.__doc__ = fn.__doc__
    new.__pyvc_rewritten__ = text
    _state['rewritten'][qual] = text
    _state['loops'][qual] = loops
    return new


def install(mutations=None):
    """Install shims + rewritten functions.  The rewrite is computed once per process; later calls only swap."""
    if _state['installed']:
        return
    if 'plan' not in _state:
        mods = import_repo()
        shadows = shims.module_shadows()
        gplan, aplan = [], []
        for mod in mods:
            new = dict(shadows)
            new['__vc__'] = heap.VCNamespace
            gplan.append((mod, new))
            for n, v in new.items():          # needed while compiling defaults of rewritten functions
                mod.__dict__.setdefault('__pyvc_saved__', {})
        # names must be visible while the rewritten functions are compiled/executed
        saved_all = []
        for mod, new in gplan:
            saved = {n: mod.__dict__.get(n, _MISSING) for n in new}
            saved_all.append((mod, saved))
            mod.__dict__.update(new)
        for mod in mods:
            for cname, cls in list(vars(mod).items()):
                if inspect.isclass(cls) and cls.__module__ == mod.__name__:
                    for name, fn, kind in _functions_of_class(cls):
                        qual = '%s.%s' % (cls.__name__, name)
                        newf = _rewrite(fn, qual, mod, cls.__name__)
                        if newf is None:
                            continue
                        wrapped = {'plain': newf, 'static': staticmethod(newf), 'class': classmethod(newf),
                                   'property': property(newf)}[kind]
                        aplan.append((cls, name, wrapped, vars(cls)[name]))
                elif isinstance(cls, types.FunctionType) and cls.__module__ == mod.__name__:
                    newf = _rewrite(cls, cname, mod)
                    if newf is not None:
                        aplan.append((mod, cname, newf, cls))
        _state['plan'] = (gplan, aplan, saved_all)
    gplan, aplan, saved_all = _state['plan']
    for mod, new in gplan:
        mod.__dict__.update(new)
    for owner, name, wrapped, old in aplan:
        setattr(owner, name, wrapped)
    _state['installed'] = True
    for (owner, name), (native, rewritten, raw) in _state.setdefault('mutants', {}).items():
        setattr(owner, name, rewritten)


_MISSING = object()


def uninstall():
    if not _state['installed']:
        return
    gplan, aplan, saved_all = _state['plan']
    for owner, name, wrapped, old in reversed(aplan):
        setattr(owner, name, old)
    for mod, saved in saved_all:
        for n, v in saved.items():
            if v is _MISSING:
                mod.__dict__.pop(n, None)
            else:
                mod.__dict__[n] = v
    _state['installed'] = False
    for (owner, name), (native, rewritten, raw) in _state.setdefault('mutants', {}).items():
        setattr(owner, name, native)


def mutate(owner, name, old, new, count=1):
    """In-memory canary: re-compile function `name` of class/module `owner` with `old` -> `new` in its source text.
    Returns an undo callable, or None when the pattern does not occur (canary skipped)."""
    raw = vars(owner)[name] if inspect.isclass(owner) else getattr(owner, name)
    kind = 'plain'
    fn = raw
    if isinstance(raw, staticmethod):
        fn, kind = raw.__func__, 'static'
    elif isinstance(raw, classmethod):
        fn, kind = raw.__func__, 'class'
    elif isinstance(raw, property):
        fn, kind = raw.fget, 'property'
    orig = _original_source(owner, name, fn)
    if orig is None or old not in orig:
        return None
    src = orig.replace(old, new, count)
    mod = sys.modules[fn.__module__]
    clsname = owner.__name__ if inspect.isclass(owner) else None
    qual = ('%s.%s' % (clsname, name)) if clsname else name
    import ast, textwrap

    def build(rewrite):
        tree = ast.parse(textwrap.dedent(src))
        tree.body[0].decorator_list = []
        selfname = tree.body[0].args.args[0].arg if tree.body[0].args.args else None
        if rewrite:
            tree = xform.Xform(qual, clsname, selfname, xform.local_names_of(tree.body[0], selfname if clsname else None)).visit(tree)
        else:
            tree = _SuperOnly(clsname, selfname).visit(tree)
        ast.fix_missing_locations(tree)
        ns = {}
        exec(compile(tree, '<pyvc-mutant:%s>' % qual, 'exec'), mod.__dict__, ns)
        f = ns[fn.__name__]
        return {'plain': f, 'static': staticmethod(f), 'class': classmethod(f), 'property': property(f)}[kind]

    was = _state['installed']
    rewritten = build(True)
    if was:
        uninstall()
    orig_native = vars(owner)[name] if inspect.isclass(owner) else getattr(owner, name)
    native = build(False)
    _state.setdefault('mutants', {})[(owner, name)] = (native, rewritten, raw)
    setattr(owner, name, native)
    if was:
        install()

    def undo():
        _state['mutants'].pop((owner, name), None)
        was2 = _state['installed']
        if was2:
            uninstall()
        setattr(owner, name, orig_native)
        if was2:
            install()
    return undo


class _SuperOnly(__import__('ast').NodeTransformer):
    def __init__(self, clsname, selfname):
        self.clsname, self.selfname = clsname, selfname

    def visit_Call(self, node):
        import ast
        self.generic_visit(node)
        if isinstance(node.func, ast.Name) and node.func.id == 'super' and not node.args and self.clsname:
            node.args = [ast.Name(self.clsname, ast.Load()), ast.Name(self.selfname, ast.Load())]
        return node


_SRC = {}


def _original_source(owner, name, fn):
    key = (owner, name)
    if key not in _SRC:
        # the pristine source text comes from the file on disk (also for already-rewritten functions)
        mod = sys.modules[fn.__module__]
        try:
            import ast
            text = open(mod.__file__).read()
            tree = ast.parse(text)
            target = None
            for node in ast.walk(tree):
                if inspect.isclass(owner) and isinstance(node, ast.ClassDef) and node.name == owner.__name__:
                    for b in node.body:
                        if isinstance(b, ast.FunctionDef) and b.name == name:
                            target = b
                elif not inspect.isclass(owner) and isinstance(node, ast.FunctionDef) and node.name == name:
                    target = target or node
            _SRC[key] = ast.get_source_segment(text, target, padded=True) if target is not None else None
        except OSError:
            _SRC[key] = None
    return _SRC[key]


def rewritten_texts():
    return dict(_state['rewritten'])


def loop_ids():
    return dict(_state['loops'])
