"""pyvc core: path explorer, symbolic proxies, obligations.

The REAL qstrader function objects are executed by CPython on these proxies.  Every branch on a symbolic
boolean (`SymBool.__bool__`) forks by re-execution with a decision prefix; every path ends either normally,
by an exception of the code under verification, or by `Abort` (a cut loop iteration finished).

Two modes share the harness text:
  * 'sym'  : named inputs are z3 constants, obligations are (path-condition => goal) formulas;
  * 'conc' : named inputs are Python numbers taken from a counter-model (replay) or from a random generator
             (bounded fallback / CPython cross-check); the real code runs natively WITHOUT shims and the same
             clauses are evaluated concretely.
"""
import math
import z3

R = z3.RealSort()
K = z3.IntSort()          # keys (asset symbols, portfolio ids): a totally ordered infinite set
B = z3.BoolSort()

DECIDE_RLIMIT = 250_000


class Unmodelled(BaseException):
    """A proxy was used in a way the engine does not model -> the obligation is UNDECIDED (never concretised)."""


class Abort(BaseException):
    """End of a path that is not an exit of the function (cut loop iteration finished, or infeasible)."""


class Reject(BaseException):
    """Concrete mode: the sampled input does not satisfy an assumption."""


class Ob:
    __slots__ = ('harness', 'clause', 'kind', 'props', 'pc', 'goal', 'meta', 'path', 'verdict', 'model',
                 'backend', 'seconds', 'rlimit', 'site')

    def __init__(self, harness, clause, kind, props, pc, goal, meta, path):
        self.harness, self.clause, self.kind, self.props = harness, clause, kind, props
        self.pc, self.goal, self.meta, self.path = pc, goal, meta, path
        self.verdict = self.model = self.backend = None
        self.seconds = 0.0
        self.rlimit = 0

    @property
    def oid(self):
        return '%s/%s' % (self.harness, self.clause)


class Ctx:
    """Verification context of one harness run (all of its paths)."""

    def __init__(self, harness_name, props, mode='sym', values=None, rng=None):
        self.harness, self.props, self.mode = harness_name, list(props), mode
        self.todo = [[]]
        self.obs = []
        self.seen = set()
        self.consts = {}
        self.values = values if values is not None else {}
        self.rng = rng
        self.npaths = 0
        self.path_log = []
        self.fresh_n = 0
        self.conc_results = []       # concrete mode: (clause, kind, bool, detail)
        self.notes = []
        self.keyorder = {}
        self.start([])

    # ---- path control ------------------------------------------------------------------------
    def start(self, prefix):
        self.prefix = list(prefix)
        self.pos = 0
        self.pc = []
        self.fresh_n = 0
        self.ghost = {}
        self.guards = []
        self.region = None
        self.quiet = 0
        if self.mode == 'sym':
            self.solver = z3.Solver()
            self.solver.set('rlimit', DECIDE_RLIMIT)
            self.solver.set('timeout', 1500)     # feasibility pruning only: unknown => both branches are explored
            # the library's global switch settings.PRINT_EVENTS (default True) is an INPUT: both values are explored
            try:
                from qstrader import settings as _qs
                _qs.PRINT_EVENTS = SymBool(self._const('settings.PRINT_EVENTS', B))
            except Exception:
                pass

    def assume(self, c):
        if self.mode == 'conc':
            if not truth(c):
                raise Reject(str(c)[:200])
            return
        c = tobool(c)
        if z3.is_true(c):
            return
        self.pc.append(c)
        self.solver.add(c)

    def decide(self, cond):
        sc = z3.simplify(cond)
        if z3.is_true(sc):
            return True
        if z3.is_false(sc):
            return False
        # the ORIGINAL condition is kept in the path condition (its sub-terms stay recognisable for `generalise`)
        if self.pos < len(self.prefix):
            d = self.prefix[self.pos]
        else:
            s = self.solver
            s.push(); s.add(cond); t = s.check(); s.pop()
            s.push(); s.add(z3.Not(cond)); f = s.check(); s.pop()
            t_ok, f_ok = t != z3.unsat, f != z3.unsat
            if t_ok and f_ok:
                self.todo.append(self.prefix[:self.pos] + [False])
                d = True
            elif t_ok:
                d = True
            elif f_ok:
                d = False
            else:
                raise Abort()
            self.prefix.append(d)
        self.pos += 1
        c = cond if d else z3.Not(cond)
        self.pc.append(c)
        self.solver.add(c)
        return d

    # ---- named inputs ------------------------------------------------------------------------
    def _const(self, name, sort):
        c = self.consts.get(name)
        if c is None:
            c = z3.Const(name, sort)
            self.consts[name] = c
        return c

    def fresh(self, name, sort):
        self.fresh_n += 1
        return self._const('%s!%d' % (name, self.fresh_n), sort)

    def real(self, name, gen=None):
        if self.mode == 'conc':
            return self._cval(name, gen or (lambda r: round(r.uniform(-50, 150), r.choice([0, 1, 2, 6])) + 0.0), float)
        return SymNum(self._const(name, R))

    def int(self, name, gen=None):
        if self.mode == 'conc':
            return self._cval(name, gen or (lambda r: r.randint(-6, 9)), lambda v: int(round(v)))
        c = self._const(name, z3.IntSort())
        return SymNum(z3.ToReal(c))

    def bool(self, name):
        if self.mode == 'conc':
            return bool(self._cval(name, lambda r: r.random() < 0.5, bool))
        return SymBool(self._const(name, B))

    def key(self, name):
        """An asset symbol / portfolio id (a str in concrete mode; order-isomorphic embedding into Int)."""
        if self.mode == 'conc':
            v = self._cval(name, lambda r: r.randint(0, 5), lambda v: int(round(v)))
            self.keyorder[key_to_str(v)] = v
            return key_to_str(v)
        k = SymKey(self._const(name, K))
        self.keyorder[name] = k
        kt = self.ghost.setdefault('keyterms', [])
        if not any(k.t.eq(x) for x in kt):
            kt.append(k.t)
            for u in list(self.ghost.setdefault('universals', [])):
                self.assume(u(k.t))
        return k

    def conc_keys(self):
        """concrete mode: the finite key universe = every key declared so far (sorted)"""
        return sorted(self.keyorder)

    def sel(self, arrname, sort, keystr, gen=None):
        """concrete mode: value of the (model / random) array `arrname` at a declared key"""
        kv = self.keyorder[keystr]
        name = '%s[%s]' % (arrname, keystr)
        if name in self.values:
            return self.values[name]
        if getattr(self, 'model', None) is not None:
            arr = z3.Const(arrname, z3.ArraySort(K, sort))
            v = self.model.eval(z3.Select(arr, z3.IntVal(kv)), model_completion=True)
            if z3.is_true(v) or z3.is_false(v):
                out = z3.is_true(v)
            elif z3.is_rational_value(v):
                f = v.as_fraction()
                out = float(f)
            elif z3.is_algebraic_value(v):
                out = float(v.approx(20).as_fraction())
            else:
                out = 0.0
        elif self.rng is not None and gen is not None:
            out = gen(self.rng)
        else:
            out = False if sort == B else 0.0
        self.values[name] = out
        return out

    def time(self, name, utc=False):
        """A timestamp: an instant, expressed in an arbitrary zone (utc=True: expressed in UTC)."""
        if self.mode == 'conc':
            import pandas as pd
            v = self._cval(name, lambda r: 1577836800 + r.randint(0, 40) * 21600 + r.choice([0, 52200, 75600, 75599, 52199, 52199.625, 75599.5, 0.25]), float)
            ts = pd.Timestamp(float(v), unit='s', tz='UTC')
            # the same instant may be expressed in any zone (comparisons are by instant)
            zi = 0 if utc else self._cval(name + '.zone', lambda r: r.choice([0, 0, 0, 1, 2, 3]), int)
            if zi:
                ts = ts.tz_convert(['UTC', 'Europe/Paris', 'America/New_York', 'Asia/Tokyo'][zi % 4])
            exact = None
            if getattr(self, 'model', None) is not None and name in (self.model_consts or {}):
                exact = self.model.eval(self.model_consts[name], model_completion=True)
            self.timeterms = getattr(self, 'timeterms', {})
            self.timeterms.setdefault(ts.value, exact if exact is not None else z3.RealVal(repr(float(ts.timestamp()))))
            return ts
        if utc:
            return SymTime(self._const(name, R), z3.RealVal(0))
        off = self._const(name + '.utc_offset', R)
        self.assume(z3.And(off >= -50400, off <= 50400))
        return SymTime(self._const(name, R), off)

    def tterm(self, ts):
        """concrete mode: the z3 value standing for a concrete timestamp (exact model value for declared times)"""
        tt = getattr(self, 'timeterms', {})
        if ts.value in tt:
            return tt[ts.value]
        return z3.RealVal(repr(float(ts.timestamp())))

    def ceval(self, term, gen=None, conv=float):
        """concrete mode: value of a z3 term (ghost function application, array cell) in the model / random"""
        name = 'term:' + str(term)
        if name in self.values:
            return self.values[name]
        if getattr(self, 'model', None) is not None:
            v = self.model.eval(term, model_completion=True)
            if z3.is_true(v) or z3.is_false(v):
                out = z3.is_true(v)
            elif z3.is_int_value(v):
                out = v.as_long()
            elif z3.is_rational_value(v):
                out = float(v.as_fraction())
            elif z3.is_algebraic_value(v):
                out = float(v.approx(20).as_fraction())
            else:
                raise Unmodelled('cannot concretise model value %s' % v)
        elif self.rng is not None and gen is not None:
            out = gen(self.rng)
        else:
            out = conv(0)
        self.values[name] = out
        return out

    def keyterm(self, keystr):
        """concrete mode: the z3 integer standing for a declared concrete key"""
        return z3.IntVal(self.keyorder[keystr])

    def _cval(self, name, gen, conv):
        if name in self.values:
            return conv(self.values[name])
        if self.rng is None:
            # model completion: symbol irrelevant to the counter-model
            v = conv(0)
        else:
            v = gen(self.rng)
        self.values[name] = v
        return conv(v)

    # ---- obligations --------------------------------------------------------------------------
    def ob(self, clause, goal, kind='P', props=None, extra=(), **meta):
        """Record obligation `clause`: under the current path condition (+extra), goal holds."""
        if self.quiet and kind == 'A' and clause.split('@')[0] in ('div-nonzero', 'nan-safe', 'not-none'):
            return          # definedness of SPEC-side terms (total functions), not of the code
        if self.region and 'region' not in meta:
            # input region of the property's quantifier that is reported separately (known-finding matching)
            clause, meta = '[%s]/%s' % (self.region, clause), dict(meta, region=self.region)
        if self.mode == 'conc':
            meta.pop('nopc', None)
            meta.pop('hyps', None)
            ok = truth(goal) if not extra or all(truth(e) for e in extra) else True
            self.conc_results.append((clause, kind, bool(ok), dict(meta, _props=list(props or self.props))))
            return
        goal = tobool(goal)
        if meta.pop('nopc', False):
            # a closed claim over generalised (fresh) variables: proved from the given hypotheses only (hence under any
            # path condition); a counterexample is a value of the generalised variable, not an input
            pc = [tobool(e) for e in extra] + [tobool(e) for e in meta.pop('hyps', [])]
            meta['generalised'] = True
        else:
            pc = list(self.pc) + list(self.guards) + [tobool(e) for e in extra]
        key = (clause, tuple(c.get_id() for c in pc), goal.get_id())
        if key in self.seen:
            return
        self.seen.add(key)
        if kind == 'A' and props:
            meta['_explicit'] = True      # an auxiliary obligation that only some of the harness's properties depend on
        o = Ob(self.harness, clause, kind, list(props or self.props), pc, goal, meta, self.npaths)
        self.obs.append(o)

    def note(self, text):
        if text not in self.notes:
            self.notes.append(text)


def generalise(c, term, formula, name='generalised'):
    """Generalise the (heavy) term occurring in `formula` to a fresh variable x.  Returns (goal[x], hypotheses[x]) where the
    hypotheses are exactly the path-condition conjuncts that mention the term, with the term replaced by x.
    Proving  forall x. hyps[x] => goal[x]  proves the original obligation (instantiate x := term; the hyps are in the pc)."""
    x = c.fresh(name, term.sort())
    hyps = []
    for p in list(c.pc) + list(c.guards):
        q = z3.substitute(p, (term, x))
        if not q.eq(p):
            hyps.append(q)
    return z3.substitute(formula, (term, x)), hyps


_CTX = [None]


def ctx():
    return _CTX[0]


def set_ctx(c):
    _CTX[0] = c


def key_to_str(v):
    return 'Eq:k%06d' % (int(v) + 500000)      # mixed case and a colon, like real symbols; fixed width keeps the order


def explore(c, fn, max_paths=4000):
    """Run harness `fn(c)` on every feasible path.  Returns list of (outcome, value) per path."""
    set_ctx(c)
    outs = []
    while c.todo:
        prefix = c.todo.pop()
        c.start(prefix)
        try:
            r = fn(c)
            outs.append(('exit', r))
        except Abort:
            outs.append(('abort', None))
        c.npaths += 1
        if c.npaths > max_paths:
            raise Unmodelled('path explosion in %s (> %d paths)' % (c.harness, max_paths))
    return outs


# ------------------------------------------------------------------------------------------------
# lifting and the clause DSL (works on proxies and on concrete values)
# ------------------------------------------------------------------------------------------------
def is_sym(x):
    return isinstance(x, (SymNum, SymBool, SymKey, SymTime, SymTod, z3.ExprRef))


def lift(x):
    """Python number / proxy -> z3 Real term."""
    if isinstance(x, SymNum):
        return x.t
    if isinstance(x, SymTime):
        return x.t
    if isinstance(x, SymTod):
        return x.t
    if isinstance(x, z3.ExprRef):
        return x
    if isinstance(x, bool):
        raise Unmodelled('bool used as number')
    if isinstance(x, int):
        return z3.RealVal(x)
    if isinstance(x, float):
        if math.isnan(x) or math.isinf(x):
            raise Unmodelled('nan/inf constant in arithmetic')
        return z3.RealVal(repr(x))
    try:
        import numpy as _np
        if isinstance(x, _np.floating):
            return z3.RealVal(repr(float(x)))
        if isinstance(x, _np.integer):
            return z3.RealVal(int(x))
    except ImportError:
        pass
    raise Unmodelled('cannot lift %r to a real term' % type(x))


def liftk(x):
    if isinstance(x, SymKey):
        return x.t
    if isinstance(x, z3.ExprRef):
        return x
    if isinstance(x, str):
        return keylit(x)
    raise Unmodelled('cannot lift %r to a key term' % type(x))


_KEYLIT = {}


def keylit(s):
    """A literal string used as a key: a distinct named Int constant."""
    c = _KEYLIT.get(s)
    if c is None:
        c = z3.Int('KEYLIT<%s>' % s)
        _KEYLIT[s] = c
    return c


def tobool(x):
    if isinstance(x, SymBool):
        return x.t
    if isinstance(x, z3.BoolRef):
        return x
    if isinstance(x, (bool,)):
        return z3.BoolVal(x)
    try:
        import numpy as _np
        if isinstance(x, _np.bool_):
            return z3.BoolVal(bool(x))
    except ImportError:
        pass
    raise Unmodelled('cannot lift %r to a boolean term' % type(x))


def truth(x):
    """Concrete truth value of a clause evaluated natively."""
    if isinstance(x, z3.BoolRef):
        s = z3.simplify(x)
        if z3.is_true(s):
            return True
        if z3.is_false(s):
            return False
        raise Unmodelled('symbolic clause in concrete mode: %s' % s)
    if isinstance(x, SymBool):
        return truth(x.t)
    return bool(x)


TOL_REL, TOL_ABS = 1e-9, 1e-9


def _anysym(*xs):
    return any(is_sym(x) for x in xs)


def _close(a, b, scale=0.0):
    a, b = float(a), float(b)
    if math.isnan(a) or math.isnan(b):
        return math.isnan(a) and math.isnan(b)
    return abs(a - b) <= TOL_ABS + TOL_REL * max(abs(a), abs(b), abs(float(scale)))


def _num(x):
    import pandas as pd
    if isinstance(x, pd.Timestamp):
        return x.timestamp()
    return x


def _ists(*xs):
    import pandas as pd
    return any(isinstance(x, pd.Timestamp) for x in xs)


def EQ(a, b, scale=0.0):
    if isinstance(a, (SymKey,)) or isinstance(b, (SymKey,)):
        return liftk(a) == liftk(b)
    if _anysym(a, b):
        return lift(a) == lift(b)
    if isinstance(a, str) or isinstance(b, str):
        return a == b
    if a is None or b is None:
        return a is b
    if _ists(a, b):
        return _num(a) == _num(b)          # instants are compared exactly
    return _close(_num(a), _num(b), scale)


def NE(a, b):
    return NOT(EQ(a, b))


def LE(a, b):
    if _anysym(a, b):
        return lift(a) <= lift(b)
    if _ists(a, b):
        return _num(a) <= _num(b)
    a, b = float(_num(a)), float(_num(b))
    return a <= b or _close(a, b)


def LT(a, b):
    if _anysym(a, b):
        return lift(a) < lift(b)
    if _ists(a, b):
        return _num(a) < _num(b)
    a, b = float(_num(a)), float(_num(b))
    return a < b and not _close(a, b)


def GE(a, b):
    return LE(b, a)


def GT(a, b):
    return LT(b, a)


def _b(x):
    return x.t if isinstance(x, SymBool) else x


def AND(*xs):
    xs = [_b(x) for x in xs]
    if any(isinstance(x, z3.ExprRef) for x in xs):
        return z3.And(*[tobool(x) for x in xs]) if xs else z3.BoolVal(True)
    return all(bool(x) for x in xs)


def OR(*xs):
    xs = [_b(x) for x in xs]
    if any(isinstance(x, z3.ExprRef) for x in xs):
        return z3.Or(*[tobool(x) for x in xs])
    return any(bool(x) for x in xs)


def NOT(x):
    x = _b(x)
    if isinstance(x, z3.ExprRef):
        return z3.Not(x)
    return not x


def IMPLIES(a, b):
    a, b = _b(a), _b(b)
    if isinstance(a, z3.ExprRef) or isinstance(b, z3.ExprRef):
        return z3.Implies(tobool(a), tobool(b))
    return (not a) or bool(b)


def IFF(a, b):
    a, b = _b(a), _b(b)
    if isinstance(a, z3.ExprRef) or isinstance(b, z3.ExprRef):
        return tobool(a) == tobool(b)
    return bool(a) == bool(b)


def ITE(c, a, b):
    c = _b(c)
    if isinstance(c, z3.ExprRef) or _anysym(a, b):
        return SymNum(z3.If(tobool(c), lift(a), lift(b)))
    return a if c else b


def _int_shaped(t):
    """syntactic: the term is built from ToReal(int), integer numerals, +, -, *, if-then-else"""
    if z3.is_rational_value(t):
        return t.denominator_as_long() == 1
    k = t.decl().kind() if z3.is_app(t) else None
    if k == z3.Z3_OP_TO_REAL:
        return True
    if k == z3.Z3_OP_ITE:
        return _int_shaped(t.arg(1)) and _int_shaped(t.arg(2))
    if k in (z3.Z3_OP_UMINUS, z3.Z3_OP_ADD, z3.Z3_OP_SUB, z3.Z3_OP_MUL):
        return all(_int_shaped(a) for a in t.children())
    return False


def ISINT(x):
    if _anysym(x):
        t = lift(x)
        if _int_shaped(t) or _int_shaped(z3.simplify(t)):
            return z3.BoolVal(True)
        return z3.IsInt(t)
    return _close(float(x), round(float(x)))


def ABS(x):
    if _anysym(x):
        t = lift(x)
        return SymNum(z3.If(t >= 0, t, -t))
    return abs(x)


def FLOOR(x):
    if _anysym(x):
        return SymNum(z3.ToReal(z3.ToInt(lift(x))))
    return math.floor(x)


def TRUNC(x):
    if _anysym(x):
        t = lift(x)
        return SymNum(z3.If(t >= 0, z3.ToReal(z3.ToInt(t)), -z3.ToReal(z3.ToInt(-t))))
    return math.trunc(x)


# rounding: uninterpreted with the properties the proofs may use (assumed contract of builtin round)
R0F = z3.Function('py_round0', R, R)        # round(x)    : nearest integer, ties to even
R2F = z3.Function('py_round2', R, R)        # round(x, 2) : nearest cent


def round_axioms(kind, t):
    r = (R0F if kind == 0 else R2F)(t)
    half = z3.RealVal('1/2') if kind == 0 else z3.RealVal('1/200')
    ax = [r - t <= half, t - r <= half, (R0F if kind == 0 else R2F)(-t) == -r]
    if kind == 0:
        ax.append(z3.IsInt(r))
    return ax


def ROUND0(x):
    if _anysym(x):
        t = lift(x)
        c = ctx()
        for a in round_axioms(0, t):
            c.assume(a)
        return SymNum(R0F(t))
    return round(x)


def ROUND2(x):
    if _anysym(x):
        t = lift(x)
        c = ctx()
        for a in round_axioms(2, t):
            c.assume(a)
        return SymNum(R2F(t))
    return round(x, 2)


# ------------------------------------------------------------------------------------------------
# proxies
# ------------------------------------------------------------------------------------------------
class SymBool:
    __slots__ = ('t',)

    def __init__(self, t):
        self.t = t

    def __bool__(self):
        return ctx().decide(self.t)

    def __and__(self, o):
        return SymBool(z3.And(self.t, tobool(o)))

    __rand__ = __and__

    def __or__(self, o):
        return SymBool(z3.Or(self.t, tobool(o)))

    __ror__ = __or__

    def __invert__(self):
        return SymBool(z3.Not(self.t))

    def __eq__(self, o):
        return SymBool(self.t == tobool(o))

    def __ne__(self, o):
        return SymBool(self.t != tobool(o))

    def __hash__(self):
        raise Unmodelled('hash of a symbolic boolean')

    def __repr__(self):
        return '<SymBool %s>' % self.t


def _div_site():
    import sys
    f = sys._getframe(2)
    while f and ('/pyvc/' in f.f_code.co_filename or '/contracts/' in f.f_code.co_filename):
        f = f.f_back
    if not f:
        return '?'
    return f.f_code.co_name          # (no line number: obligation ids must survive unrelated edits)


class SymNum:
    """A real-valued term (Python int and float alike; machine floats are treated as mathematical reals)."""
    __slots__ = ('t', 'nan')

    def __init__(self, t, nan=None):
        self.t = t
        self.nan = nan            # z3 Bool "this value is NaN" or None (= known not NaN)

    def _nanchk(self, o=None):
        for x in (self, o):
            n = getattr(x, 'nan', None)
            if n is not None:
                ctx().ob('nan-safe@%s' % _div_site(), z3.Not(n), kind='A')

    def _b(self, o, f):
        if isinstance(o, (SymKey, SymTime)):
            return NotImplemented
        self._nanchk(o)
        return SymNum(f(self.t, lift(o)))

    def __add__(self, o): return self._b(o, lambda a, b: a + b)
    def __radd__(self, o): return self._b(o, lambda a, b: b + a)
    def __sub__(self, o): return self._b(o, lambda a, b: a - b)
    def __rsub__(self, o): return self._b(o, lambda a, b: b - a)
    def __mul__(self, o): return self._b(o, lambda a, b: a * b)
    def __rmul__(self, o): return self._b(o, lambda a, b: b * a)

    def __truediv__(self, o):
        d = lift(o)
        ctx().ob('div-nonzero@%s' % _div_site(), d != 0, kind='A')
        return self._b(o, lambda a, b: a / b)

    def __rtruediv__(self, o):
        ctx().ob('div-nonzero@%s' % _div_site(), self.t != 0, kind='A')
        return self._b(o, lambda a, b: b / a)

    def __pow__(self, o):
        if isinstance(o, int) and 0 <= o <= 3:
            r = z3.RealVal(1)
            for _ in range(o):
                r = r * self.t
            return SymNum(r)
        raise Unmodelled('power')

    def __neg__(self): return SymNum(-self.t, self.nan)
    def __pos__(self): return self
    def __abs__(self):
        self._nanchk()
        return SymNum(z3.If(self.t >= 0, self.t, -self.t))

    def _c(self, o, f):
        if isinstance(o, (SymKey, str)) or o is None:
            return NotImplemented
        self._nanchk(o)
        return SymBool(f(self.t, lift(o)))

    def __lt__(self, o): return self._c(o, lambda a, b: a < b)
    def __le__(self, o): return self._c(o, lambda a, b: a <= b)
    def __gt__(self, o): return self._c(o, lambda a, b: a > b)
    def __ge__(self, o): return self._c(o, lambda a, b: a >= b)

    def __eq__(self, o):
        if isinstance(o, (SymKey, str, tuple, list, dict)) or o is None:
            return False
        self._nanchk(o)
        return SymBool(self.t == lift(o))

    def __ne__(self, o):
        if isinstance(o, (SymKey, str, tuple, list, dict)) or o is None:
            return True
        self._nanchk(o)
        return SymBool(self.t != lift(o))

    def __bool__(self):
        return ctx().decide(self.t != 0)

    def __hash__(self):
        raise Unmodelled('hash of a symbolic number')

    def __float__(self):
        raise Unmodelled('float() coercion of a symbolic number by C code')

    def __int__(self):
        raise Unmodelled('int() coercion of a symbolic number by C code')

    __index__ = __int__

    def __round__(self, nd=None):
        self._nanchk()
        if nd is None or nd == 0:
            return ROUND0(self)
        if nd == 2:
            return ROUND2(self)
        raise Unmodelled('round(x, %r)' % nd)

    def __floor__(self):
        self._nanchk()
        return SymNum(z3.ToReal(z3.ToInt(self.t)))

    def __ceil__(self):
        self._nanchk()
        return SymNum(-z3.ToReal(z3.ToInt(-self.t)))

    def __trunc__(self):
        self._nanchk()
        return TRUNC(self)

    def __str__(self):
        return OpaqueStr('<num>')

    def __format__(self, spec):
        return OpaqueStr('<num>')

    def __repr__(self):
        return '<SymNum %s>' % self.t


class OpaqueStr(str):
    """Text built from symbolic values: fine for messages/logging, an error if used as data."""

    def __eq__(self, o):
        raise Unmodelled('text built from symbolic values compared as data')

    def __ne__(self, o):
        raise Unmodelled('text built from symbolic values compared as data')

    def __hash__(self):
        raise Unmodelled('text built from symbolic values used as a key')

    def upper(self):
        return self

    def __mod__(self, a):
        return self

    def __add__(self, o):
        return self

    def __radd__(self, o):
        return self


class SymKey:
    """An asset symbol / portfolio id.  Only = and < are meaningful (and all that the code uses)."""
    __slots__ = ('t',)

    def __init__(self, t):
        self.t = t

    def _o(self, o):
        if isinstance(o, SymKey):
            return o.t
        if isinstance(o, str):
            return keylit(o)
        return None

    def __eq__(self, o):
        t = self._o(o)
        return False if t is None else SymBool(self.t == t)

    def __ne__(self, o):
        t = self._o(o)
        return True if t is None else SymBool(self.t != t)

    def __lt__(self, o): return SymBool(self.t < liftk(o))
    def __le__(self, o): return SymBool(self.t <= liftk(o))
    def __gt__(self, o): return SymBool(self.t > liftk(o))
    def __ge__(self, o): return SymBool(self.t >= liftk(o))

    def __hash__(self):
        raise Unmodelled('symbolic key reached a CPython hash table')

    def upper(self):
        return OpaqueStr('<KEY>')

    def __str__(self):
        return OpaqueStr('<key>')

    def __format__(self, spec):
        return OpaqueStr('<key>')

    def __repr__(self):
        return '<SymKey %s>' % self.t


# time: seconds since the epoch; DAY/TOD/WD are tied by axioms instantiated at each use
DAYF = z3.Function('DAY', R, z3.IntSort())
TODF = z3.Function('TOD', R, R)


def time_axioms(t):
    d, s = DAYF(t), TODF(t)
    return [t == 86400 * z3.ToReal(d) + s, s >= 0, s < 86400]


class SymTime:
    """an instant (seconds since the epoch).  `off` is the UTC offset of the zone the timestamp object is expressed in
    (None = unknown): comparisons are by instant, as for tz-aware pandas Timestamps; `replace(tzinfo=None)` yields the
    wall-clock reading t + off, which is zone-dependent."""
    __slots__ = ('t', 'off')

    def __init__(self, t, off=None):
        self.t = t
        self.off = off

    def replace(self, **kw):
        if set(kw) == {'tzinfo'} and kw['tzinfo'] is None:
            off = self.off
            if off is None:
                c = ctx()
                off = c.fresh('unknown_utc_offset', R)
                c.assume(z3.And(off >= -50400, off <= 50400))
            return SymNaive(self.t + off)
        raise Unmodelled('Timestamp.replace(%s)' % ', '.join(kw))

    def tz_convert(self, tz):
        return SymTime(self.t, None)

    def tz_localize(self, tz):
        raise Unmodelled('tz_localize of a symbolic timestamp')

    def normalize(self):
        raise Unmodelled('Timestamp.normalize()')

    def date(self):
        raise Unmodelled('Timestamp.date()')

    def _c(self, o, f):
        if o is None or isinstance(o, SymOpt):
            return NotImplemented
        return SymBool(f(self.t, lift(o)))

    def __lt__(self, o): return self._c(o, lambda a, b: a < b)
    def __le__(self, o): return self._c(o, lambda a, b: a <= b)
    def __gt__(self, o): return self._c(o, lambda a, b: a > b)
    def __ge__(self, o): return self._c(o, lambda a, b: a >= b)

    def __eq__(self, o):
        if not isinstance(o, (SymTime, SymNum)):
            return False
        return SymBool(self.t == lift(o))

    def __ne__(self, o):
        if not isinstance(o, (SymTime, SymNum)):
            return True
        return SymBool(self.t != lift(o))

    def __hash__(self):
        raise Unmodelled('hash of a symbolic timestamp')

    def strftime(self, fmt):
        return OpaqueStr('<time>')

    def _wall(self):
        """the wall-clock reading weekday()/time() refer to: the instant shifted by the zone's UTC offset"""
        if self.off is None:
            c = ctx()
            off = c.fresh('unknown_utc_offset', R)
            c.assume(z3.And(off >= -50400, off <= 50400))
            self.off = off
        w = z3.simplify(self.t + self.off)
        return w

    def weekday(self):
        c = ctx()
        w = self._wall()
        for a in time_axioms(w):
            c.assume(a)
        # 1970-01-01 (day 0) was a Thursday (weekday 3)
        return SymNum(z3.ToReal((DAYF(w) + 3) % 7))

    def time(self):
        c = ctx()
        w = self._wall()
        for a in time_axioms(w):
            c.assume(a)
        return SymTod(TODF(w))

    def __str__(self):
        return OpaqueStr('<time>')

    def __format__(self, spec):
        return OpaqueStr('<time>')

    def __repr__(self):
        return '<SymTime %s>' % self.t


class SymNaive:
    """a tz-naive wall-clock reading: only comparable with other naive readings"""
    __slots__ = ('t',)

    def __init__(self, t):
        self.t = t

    def _c(self, o, f):
        if not isinstance(o, SymNaive):
            raise Unmodelled('naive timestamp compared with %r' % type(o))
        return SymBool(f(self.t, o.t))

    def __lt__(self, o): return self._c(o, lambda a, b: a < b)
    def __le__(self, o): return self._c(o, lambda a, b: a <= b)
    def __gt__(self, o): return self._c(o, lambda a, b: a > b)
    def __ge__(self, o): return self._c(o, lambda a, b: a >= b)
    def __eq__(self, o): return self._c(o, lambda a, b: a == b)
    def __ne__(self, o): return self._c(o, lambda a, b: a != b)

    def __hash__(self):
        raise Unmodelled('hash of a symbolic naive timestamp')


class SymTod:
    """datetime.time as seconds of the day."""
    __slots__ = ('t',)

    def __init__(self, t):
        self.t = t if isinstance(t, z3.ExprRef) else z3.RealVal(repr(float(t)) if isinstance(t, float) else t)

    def _c(self, o, f):
        import datetime as _dt
        if isinstance(o, _dt.time):
            o = SymTod(o.hour * 3600 + o.minute * 60 + o.second + o.microsecond / 1e6)
        if not isinstance(o, SymTod):
            raise Unmodelled('time-of-day compared with %r' % type(o))
        r = z3.simplify(f(self.t, o.t))
        if z3.is_true(r):
            return True
        if z3.is_false(r):
            return False
        return SymBool(r)

    def __lt__(self, o): return self._c(o, lambda a, b: a < b)
    def __le__(self, o): return self._c(o, lambda a, b: a <= b)
    def __gt__(self, o): return self._c(o, lambda a, b: a > b)
    def __ge__(self, o): return self._c(o, lambda a, b: a >= b)
    def __eq__(self, o): return self._c(o, lambda a, b: a == b)

    def __hash__(self):
        raise Unmodelled('hash of symbolic time of day')


class SymOpt:
    """A value that may be None: flag + payload.  `x is None` is rewritten to __vc__.is_(x, None)."""
    __slots__ = ('isnone', 'val')

    def __init__(self, isnone, val):
        self.isnone, self.val = isnone, val

    def _need(self):
        ctx().ob('not-none@%s' % _div_site(), z3.Not(self.isnone), kind='A')
        return self.val

    def __lt__(self, o): return self._need() < o
    def __le__(self, o): return self._need() <= o
    def __gt__(self, o): return self._need() > o
    def __ge__(self, o): return self._need() >= o

    def __hash__(self):
        raise Unmodelled('hash of optional value')
