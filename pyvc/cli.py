"""check driver:  python -m pyvc.cli check <ID> [--tier quick|thorough] | replay <file> | baseline | list | lean"""
import argparse
import hashlib
import datetime
import importlib
import json
import multiprocessing as mp
import os
import pkgutil
import subprocess
import sys
import time
import traceback

VERIF = os.path.dirname(os.path.dirname(os.path.abspath(__file__)))
sys.path.insert(0, VERIF)

PROPS = {}
for _l in open(os.path.join(VERIF, 'properties.jsonl')):
    if _l.strip():
        _p = json.loads(_l)
        PROPS[_p['id']] = _p

LEVELS = {}          # property -> level, filled from MANIFEST


def _load_contracts():
    from pyvc import install
    install.install()
    import contracts
    for m in pkgutil.iter_modules(contracts.__path__):
        importlib.import_module('contracts.' + m.name)
    from pyvc import run
    return run


def _task(args):
    kind, name, extra = args
    t0 = time.time()
    try:
        run = _load_contracts()
        if kind == 'verify':
            r = run.verify_harness(name)
            r['task'] = 'verify'
            return r
        if kind == 'canary':
            from pyvc import install
            h = run.HARNESSES[name]
            label, owner, fname, old, new, expect = h.canaries[extra]
            undo = install.mutate(owner, fname, old, new)
            if undo is None:
                return {'task': 'canary', 'harness': name, 'label': label, 'status': 'skipped (pattern not found)'}
            run.FAST[0] = True
            try:
                r = run.verify_harness(name, do_replay=False)
            finally:
                run.FAST[0] = False
                undo()
            ref = [o['id'] for o in r['obligations'] if o['verdict'] == 'refuted']
            killed = bool(ref) and (expect is None or any(expect in x for x in ref))
            status = 'killed' if killed else 'SURVIVED'
            und = [o['id'] for o in r['obligations'] if o['verdict'] == 'undecided']
            if not killed and (und or r['error']) and h.conc:
                # the mutant leaves obligations undecided: the bounded run-time check of the same contract must catch it
                undo2 = install.mutate(owner, fname, old, new)
                try:
                    st = run.random_conc(h, 200, 7)
                finally:
                    if undo2:
                        undo2()
                if st['failures']:
                    status, ref = 'killed (by the bounded fallback; solver left it undecided)', [f['clause'] for f in st['failures']]
            return {'task': 'canary', 'harness': name, 'label': label, 'status': status,
                    'refuted': sorted(set(ref))[:6], 'error': r['error'], 'seconds': round(time.time() - t0, 2)}
        if kind == 'random':
            h = run.HARNESSES[name]
            st = run.random_conc(h, extra['n'], extra['seed'])
            st.update(task='random', harness=name, seconds=round(time.time() - t0, 2))
            return st
        if kind == 'crosscheck':
            h = run.HARNESSES[name]
            st = run.crosscheck(h, extra['n'], extra['seed'])
            st.update(task='crosscheck', harness=name, seconds=round(time.time() - t0, 2))
            return st
        if kind == 'bounded' and extra.get('ambient') and not extra.get('_child'):
            # the ambient conditions are process-wide (TZ, cwd, environment, stdout): a process of its own
            ctxm = mp.get_context('fork')
            rx, tx = ctxm.Pipe(duplex=False)

            def runner():
                tx.send(_task((kind, name, dict(extra, _child=True))))
                tx.close()
            pr = ctxm.Process(target=runner)
            pr.start()
            tx.close()
            try:
                r = rx.recv()
            except EOFError:
                r = {'task': kind, 'harness': name, 'module': name, 'crash': 'ambient run of %s died' % name}
            pr.join()
            return r
        if kind == 'bounded':
            from pyvc import install
            install.uninstall()              # bounded stand-ins run the pristine library
            if extra.get('ambient'):
                _ambient()
            mod = importlib.import_module('bounded.' + name)
            r = mod.run(tier=extra['tier'], seed=extra['seed'], budget_s=extra['budget_s'], jobs=extra.get('jobs', 1))
            if extra.get('ambient'):
                r['ambient'] = AMBIENT_TEXT
                for f in r.get('failures', []):
                    if isinstance(f.get('case'), dict):
                        f['case']['ambient'] = True
            r.update(task='bounded', module=name, seconds=round(time.time() - t0, 2), bound=getattr(mod, 'BOUND', ''),
                     clause_properties=getattr(mod, 'CLAUSE_PROPERTIES', None))
            return r
    except BaseException as e:
        if isinstance(e, (KeyboardInterrupt, SystemExit)):
            raise
        return {'task': kind, 'harness': name, 'module': name, 'crash': '%r\n%s' % (e, traceback.format_exc(limit=10))}


def load_known():
    p = os.path.join(VERIF, 'known_findings.json')
    if not os.path.exists(p):
        return []
    return json.load(open(p))


def finding_matches(entry, prop, oid, meta):
    if entry.get('status') != 'open' or entry.get('property') != prop:
        return False
    pat = entry.get('obligation', '')
    if '*' in pat:
        import fnmatch
        if not fnmatch.fnmatchcase(oid, pat.replace('[', '[[]')):
            return False
    elif pat != oid:
        return False
    w = entry.get('witness') or {}
    for k, v in w.items():
        if str((meta or {}).get(k)) != str(v):
            return False
    return True


AMBIENT_TEXT = ('ambient re-run: settings.PRINT_EVENTS = True (the library default; output discarded), process time zone '
                'America/New_York rules (TZ=EST5EDT,M3.2.0,M11.1.0), QSTRADER_CSV_DATA_DIR pointing at a decoy directory with differently '
                'priced files of the usual symbol names, current directory elsewhere')


def _ambient():
    """the conditions a checker tends to leave at their defaults: none of them is an input of any property, so every bounded
    module must give the same verdicts under them (this worker process is dedicated to one bounded run)"""
    import tempfile
    os.environ['PYVC_AMBIENT'] = '1'
    import qstrader.settings as _qs
    _qs.PRINT_EVENTS = True                  # (the bounded modules may have been imported - and have switched it off - before the fork)
    os.environ['TZ'] = 'EST5EDT,M3.2.0,M11.1.0'
    time.tzset()
    d = tempfile.mkdtemp(prefix='pyvc_decoy_')
    for i, sym in enumerate(['AAA', 'BBB', 'CCC', 'DDD', 'A', 'B', 'ABC', 'DEF', 'SPY', 'AGG', 'GHI']):
        with open(os.path.join(d, sym + '.csv'), 'w') as fh:
            fh.write('Date,Open,High,Low,Close,Adj Close,Volume\n')
            for k in range(2500):
                day = datetime.date(2015, 1, 1) + datetime.timedelta(days=k)
                px = 700.0 + 13 * i + (k % 17)
                fh.write('%s,%.2f,%.2f,%.2f,%.2f,%.2f,%d\n' % (day.isoformat(), px, px + 1, px - 1, px + 0.5, (px + 0.5) / 2, 1000 + k))
    os.environ['QSTRADER_CSV_DATA_DIR'] = d
    os.chdir(d)
    import atexit
    import shutil
    atexit.register(shutil.rmtree, d, True)
    devnull = os.open(os.devnull, os.O_WRONLY)
    os.dup2(devnull, 1)                      # whatever the library prints (also from child interpreters) is discarded


# a bounded module may also serve another property with a SUBSET of its clauses (the mechanism that property rests on)
EXTRA_BOUNDED = {
    'c06_csv': {'C07': ['future-rows-irrelevant', 'missing-cell-ffill', 'value-at-latest-observation', 'open-close-boundaries',
                        'row-order-independent', 'no-bar-before-t-gives-nan', 'cache-transparent', 'instant-not-wall-clock'],
                'C18': ['cache-transparent', 'row-order-independent'],
                # the sizers' "an unavailable price is rejected" rests on the source answering NaN before the first bar
                'C10': ['no-bar-before-t-gives-nan'], 'C11': ['no-bar-before-t-gives-nan'],
                # signals are fed the handler's (adjusted) close of the source the session was given
                'C16': ['cache-transparent', 'adjustment'],
                # a session's fills and equity rest on a source whose answers do not depend on what it was asked before
                'C08': ['cache-transparent']},
    # a clock that can be walked only once meets no schedule and runs no session the second time
    'c12_calendar': {'C13': ['every-traversal-is-complete', 'event-times-utc', 'dates-exactly-business-days'],
                     'C14': ['every-traversal-is-complete', 'event-times-utc', 'dates-exactly-business-days']},
    # the session module also decides the part of C13 that only a session can show: every scheduled instant is acted upon
    'c14_session': {'C13': ['rebalances-exactly-scheduled-after-burn-in', 'later-session-in-the-same-process-unaffected']},
}


def bounded_modules(prop):
    import bounded
    out = []
    for m in pkgutil.iter_modules(bounded.__path__):
        if m.name.startswith('_'):
            continue
        try:
            mod = importlib.import_module('bounded.' + m.name)
        except Exception as e:
            print('checker: cannot import bounded.%s: %r' % (m.name, e), file=sys.stderr)
            continue
        props = getattr(mod, 'PROPERTIES', None) or [getattr(mod, 'PROPERTY', None)]
        if prop in props or prop in EXTRA_BOUNDED.get(m.name, {}):
            out.append(m.name)
    return out


def repo_state():
    try:
        h = subprocess.run(['git', '-C', '/repo', 'rev-parse', '--short', 'HEAD'], capture_output=True, text=True).stdout.strip()
        d = subprocess.run(['git', '-C', '/repo', 'status', '--porcelain', '--', 'qstrader'], capture_output=True, text=True).stdout.strip()
        return h + ('+dirty' if d else '')
    except Exception:
        return '?'


def check(prop, tier, seed, jobs):
    t0 = time.time()
    run = _load_contracts()
    from pyvc import shims, install
    manifest = json.load(open(os.path.join(VERIF, 'MANIFEST.json')))
    entry = next((c for c in manifest['checks'] if c['property_id'] == prop), None)
    level = entry['level_claimed']['category'] if entry else 'other'
    bp0 = os.path.join(VERIF, 'baseline', 'obligations.json')
    tagged = set()
    if os.path.exists(bp0):
        # harnesses that carry a clause explicitly tagged with this property (recorded in the committed baseline)
        tagged = {c.split('/')[0] for c in json.load(open(bp0)).get(prop, {}).get('clauses', [])}
    hs = [h for h in run.HARNESSES.values() if prop in h.props or prop in h.also or h.name in tagged]
    run.KNOWN_REGIONS.update((e.get('witness') or {}).get('region') for e in load_known() if e.get('status') == 'open' and (e.get('witness') or {}).get('region'))
    tasks = [('verify', h.name, None) for h in hs]
    for h in hs:
        if prop not in h.props:
            continue                  # canaries of a harness run with the properties it primarily serves
        for i in range(len(h.canaries)):
            tasks.append(('canary', h.name, i))
    for h in hs:
        if h.conc:
            # run-time check of the same contracts on random concrete inputs (never counted as proved): a short run on every
            # change - it is what exercises the clauses that only exist natively - and a long one plus the CPython cross-check
            tasks.append(('random', h.name, {'n': 3000 if tier == 'thorough' else 60, 'seed': seed}))
            if tier == 'thorough':
                tasks.append(('crosscheck', h.name, {'n': 150, 'seed': seed}))
    bmods = bounded_modules(prop)
    for b in bmods:
        # a module that serves this property only through a few of its clauses (EXTRA_BOUNDED: composition with the property that
        # owns it) runs at the quick size in both tiers - its exhaustive run belongs to the owning property's thorough check
        btier = 'quick' if prop in EXTRA_BOUNDED.get(b, {}) else tier
        tasks.append(('bounded', b, {'tier': btier, 'seed': seed, 'budget_s': 25.0 if btier == 'quick' else 600.0,
                                     'jobs': 1 if btier == 'quick' else max(1, jobs // max(1, len(bmods)))}))
        # ... and once more under non-default ambient conditions (always the quick size; its own worker process)
        tasks.append(('bounded', b, {'tier': 'quick', 'seed': seed + 1, 'budget_s': 25.0, 'jobs': 1, 'ambient': True}))
    results = []
    # bounded stand-ins may start their own worker processes (thorough tier): they run in non-daemonic executor workers
    btasks = [t for t in tasks if t[0] == 'bounded']
    tasks = [t for t in tasks if t[0] != 'bounded']
    from concurrent.futures import ProcessPoolExecutor
    bex = ProcessPoolExecutor(max_workers=max(1, len(btasks)), mp_context=mp.get_context('fork')) if btasks else None
    bfut = [bex.submit(_task, t) for t in btasks] if bex else []
    if tasks:
        ctxm = mp.get_context('fork')
        with ctxm.Pool(min(jobs, len(tasks)), maxtasksperchild=1) as pool:
            for r in pool.imap_unordered(_task, tasks, chunksize=1):
                results.append(r)
    for f in bfut:
        results.append(f.result())
    if bex:
        bex.shutdown()
    crashes = [r for r in results if r.get('crash')]
    xres = [r for r in results if r.get('task') == 'crosscheck' and not r.get('crash')]
    for r in xres:
        if r['disagreements']:
            crashes.append({'crash': 'ENGINE CROSS-CHECK DISAGREEMENT in %s: %s' % (r['harness'], json.dumps(r['disagreements'][:2])[:900])})
    known = load_known()
    # Lean lemmas (code-independent corollaries over contracts): hash-stamped, re-checked when the file changed
    from contracts import common as _common
    lean = subprocess.run([os.path.join(VERIF, 'lean', 'check_lean.sh')] + (['--force'] if tier == 'thorough' and os.environ.get('VERIF_LEAN_FORCE') else []),
                          capture_output=True, text=True)
    lean_ok = lean.returncode == 0
    if not lean_ok:
        crashes.append({'crash': 'Lean lemma file rejected: ' + (lean.stdout + lean.stderr)[-800:]})

    # ------------------------------------------------------------------ deductive part
    clauses = {}            # oid -> aggregate
    undecided_harness = {}
    nobs = ndis = 0
    solver_s = 0.0
    backends = {}
    samples = []
    for r in results:
        if r.get('task') != 'verify' or r.get('crash'):
            continue
        if r['error']:
            undecided_harness[r['harness']] = r['error']
        for o in r['obligations']:
            # obligations of the property + every auxiliary obligation (invariant init/preservation/frame, callee
            # preconditions, definedness) of the harnesses its clauses are proved in: their proofs depend on those
            if prop not in o['props'] and (o['kind'] != 'A' or (o.get('meta') or {}).get('_explicit')):
                continue
            nobs += 1
            solver_s += o['seconds']
            backends[o['backend']] = backends.get(o['backend'], 0) + 1
            a = clauses.setdefault(o['id'], {'id': o['id'], 'kind': o['kind'], 'instances': 0, 'discharged': 0,
                                             'refuted': [], 'undecided': 0, 'harness': r['harness']})
            a['instances'] += 1
            if o['verdict'] == 'discharged':
                a['discharged'] += 1
                ndis += 1
                if len(samples) < 4 and 'goal' in o:
                    samples.append({'obligation': o['id'], 'goal': o['goal'], 'path_condition_tail': o['pc_tail'],
                                    'verdict': 'unsat (discharged)', 'backend': o['backend']})
            elif o['verdict'] == 'refuted':
                a['refuted'].append(o)
            else:
                a['undecided'] += 1
                a.setdefault('undecided_obs', []).append(o)

    baseline = {}
    bp = os.path.join(VERIF, 'baseline', 'obligations.json')
    if os.path.exists(bp):
        baseline = json.load(open(bp)).get(prop, {})
    missing = sorted(set(baseline.get('clauses', [])) - set(clauses)) if baseline else []

    violations, known_lines, undecided, notes = [], [], [], []
    known_undecided = []
    nknown = 0
    for oid, a in sorted(clauses.items()):
        for o in a['refuted']:
            rp = o.get('replay') or {}
            kf = next((e for e in known if finding_matches(e, prop, oid, o.get('meta'))), None)
            engine_sensitive = o['kind'] == 'A' or o['clause'] == 'no-unexpected-exception'
            if not engine_sensitive or rp.get('reproduced'):
                if engine_sensitive and not rp.get('reproduced'):
                    undecided.append((oid, 'auxiliary obligation refuted, not reproduced natively'))
                    continue
                if kf is not None:
                    known_lines.append((kf, oid))
                    nknown += 1
                else:
                    violations.append((oid, o))
            elif kf is not None:
                known_undecided.append((kf, oid))
                nknown += 1
            else:
                undecided.append((oid, 'auxiliary obligation (or an exception under the proxies) refuted; the native replay satisfies every property clause'))
        for o in a.get('undecided_obs', []):
            kf = next((e for e in known if finding_matches(e, prop, oid, o.get('meta'))), None)
            if kf is not None:
                # inside the input region / raise site of a listed finding: decided by the native run of the same contract
                known_undecided.append((kf, oid))
                nknown += 1
            else:
                undecided.append((oid, 'solver returned unknown'))
                break
    for m in missing:
        undecided.append((m, 'clause of the committed baseline was not generated on this run'))
    for hname, err in undecided_harness.items():
        undecided.append((hname + '/*', err.splitlines()[0][:300]))

    # ------------------------------------------------------------------ canaries
    can = [r for r in results if r.get('task') == 'canary' and not r.get('crash')]
    # a canary is a vacuity alarm only where its harness verified on this tree: a harness left undecided (restructured code,
    # loop shape without a spec) cannot kill anything and says so itself
    und_h = set(undecided_harness) | {clauses[o]['harness'] for o, _ in undecided if o in clauses} \
        | {h for m in missing for h in run.HARNESSES if m.startswith(h + '/')}
    survived = [r for r in can if r['status'] == 'SURVIVED' and r['harness'] not in und_h]
    for r in can:
        if r['status'] == 'SURVIVED' and r['harness'] in und_h:
            r['status'] = 'not decided (harness undecided on this tree)'

    # ------------------------------------------------------------------ bounded / random parts
    bres = [r for r in results if r.get('task') == 'bounded' and not r.get('crash')]
    rres = [r for r in results if r.get('task') == 'random' and not r.get('crash')]
    fallback = []
    if undecided or known_undecided:
        # bounded run-time check of the same contracts on the harnesses with undecided clauses
        names = sorted({clauses[o]['harness'] for o, _ in undecided if o in clauses} | set(undecided_harness)
                       | {clauses[o]['harness'] for _, o in known_undecided if o in clauses})
        ft = [('random', n, {'n': 600, 'seed': seed}) for n in names if n in run.HARNESSES and run.HARNESSES[n].conc]
        if ft:
            ctxm = mp.get_context('fork')
            with ctxm.Pool(min(jobs, len(ft)), maxtasksperchild=1) as pool:
                fallback = [r for r in pool.imap_unordered(_task, ft, chunksize=1)]
            crashes += [r for r in fallback if r.get('crash')]
            fallback = [r for r in fallback if not r.get('crash')]
    bviol = []
    for r in bres:
        only = EXTRA_BOUNDED.get(r['module'], {}).get(prop)
        cp = r.get('clause_properties')
        if only is None and cp:
            only = [cl for cl, ps in cp.items() if prop in ps]
        for f in r.get('failures', []):
            if only is not None and f['clause'] not in only:
                continue
            oid = 'bounded:%s/%s' % (r['module'], f['clause'])
            kf = next((e for e in known if finding_matches(e, prop, oid, f.get('case'))), None)
            if kf is not None:
                known_lines.append((kf, oid))
            else:
                bviol.append((oid, r['module'], f))
    for r in rres + fallback:
        for f in r.get('failures', []):
            if f['kind'] != 'P' or prop not in (f.get('meta') or {}).get('_props', [prop]):
                continue
            oid = '%s/%s' % (r['harness'], f['clause'])
            kf = next((e for e in known if finding_matches(e, prop, oid, f.get('meta'))), None)
            if kf is not None:
                known_lines.append((kf, oid))
            else:
                bviol.append((oid, 'random:' + r['harness'], f))

    # ------------------------------------------------------------------ output
    os.makedirs(os.path.join(VERIF, 'replays', prop), exist_ok=True)
    printed = set()
    for kf, oid in known_lines:
        key = (kf.get('obligation'), json.dumps(kf.get('witness'), sort_keys=True))
        if key in printed:
            continue
        printed.add(key)
        print('KNOWN-FINDING: property=%s %s %s' % (prop, oid, kf.get('what', '')))
    nviol = 0
    seen_v = set()
    for oid, o in violations:
        if oid in seen_v:
            continue
        seen_v.add(oid)
        nviol += 1
        rp = o.get('replay') or {}
        path = _write_replay(prop, oid, {'property': prop, 'obligation': oid, 'kind': o['kind'], 'tree': repo_state(),
                                         'solver': {'backend': o['backend'], 'verdict': 'sat (obligation refuted)',
                                                    'model': o.get('model'), 'rlimit_used': o['rlimit'],
                                                    'goal': o.get('goal'), 'path_condition_tail': o.get('pc_tail')},
                                         'meta': o.get('meta'), 'harness': clauses[oid]['harness'],
                                         'inputs': rp.get('inputs'), 'native': rp})
        suffix = '' if rp.get('reproduced') else ' no-failing-input-found'
        print('VIOLATION property=%s replay=%s obligation=%s%s' % (prop, path, oid, suffix))
    for oid, src, f in bviol:
        if oid in seen_v:
            continue
        seen_v.add(oid)
        nviol += 1
        path = _write_replay(prop, oid, {'property': prop, 'obligation': oid, 'kind': 'bounded', 'tree': repo_state(),
                                         'source': src, 'failure': f})
        print('VIOLATION property=%s replay=%s obligation=%s' % (prop, path, oid))

    # undecided clauses are decided by the bounded run-time check of the same contract (concrete mode of the harness) or, for
    # harnesses without a concrete mode (session level), by the bounded stand-ins of the property, which ran on this tree
    need = {clauses[o]['harness'] for o, _ in undecided if o in clauses} | set(undecided_harness)
    have = {r['harness'] for r in fallback}
    rest = need - have
    fb_ok = bool(undecided) and not bviol and (not rest or (bool(bres) and all(not run.HARNESSES[n].conc for n in rest if n in run.HARNESSES)))
    status = 0
    if nviol:
        status = 1
    elif crashes:
        status = 3
    elif survived:
        status = 3
    elif undecided and not fb_ok:
        status = 2
    if hs and not nobs and not undecided_harness:
        status = status or 3
        notes.append('zero obligations generated')

    # ------------------------------------------------------------------ evidence
    nobs_req = nobs - nknown          # obligation instances outside the input regions / raise sites of listed known findings
    proved_all = (nobs_req > 0 and ndis == nobs_req and not undecided)
    ev_level = level
    if level == 'proof' and not proved_all:
        ev_level = 'other'
    cov = {
        'obligations': nobs_req, 'discharged': ndis,
        'known_finding_obligation_instances_refuted': nknown,
        'checker_cmd': './check %s --tier %s' % (prop, tier),
        'trusted_base': sorted(set(shims.TRUSTED)) + ['z3 4.x/5.x (python API), cvc5 1.0.3 for z3-unknowns', 'CPython 3.12 executes the repository bytecode; AST rewrite (pyvc/xform.py) preserves everything it does not cut'],
        'explanation': _explanation(prop, hs, nobs, ndis, bres, can, undecided, fb_ok),
        'functions_under_contract': sorted({f for h in hs for f in h.functions}),
        'harnesses': [{'name': r['harness'], 'layer': r['layer'], 'paths': r['paths'], 'obligation_instances': len(r['obligations']),
                       'seconds': round(r['seconds'], 2), 'error': r['error'], 'notes': r['notes']}
                      for r in results if r.get('task') == 'verify' and not r.get('crash')],
        'clauses': {oid: {'kind': a['kind'], 'instances': a['instances'], 'discharged': a['discharged'],
                          'refuted': len(a['refuted']), 'undecided': a['undecided']} for oid, a in sorted(clauses.items())},
        'backends': backends, 'solver_seconds': round(solver_s, 2),
        'undecided': [{'clause': o, 'why': w} for o, w in undecided],
        'fallback_bounded_runtime_check': [{k: r[k] for k in ('harness', 'tried', 'accepted', 'seconds')} | {'failures': len(r['failures'])} for r in fallback],
        'canaries': [{k: r.get(k) for k in ('harness', 'label', 'status', 'refuted')} for r in can],
        'known_findings_reported': sorted({oid for _, oid in known_lines}),
        'samples': samples,
        'repo_tree': repo_state(),
        'cpython_crosscheck': [{'harness': r['harness'], 'inputs_compared': r['compared'], 'disagreements': len(r['disagreements'])} for r in xres],
        'lean_lemmas': {'file': 'lean/Lemmas.lean', 'status': (lean.stdout.strip().splitlines() or ['?'])[-1], 'cited_by_the_contracts_of_this_run': sorted(_common.LEMMAS_USED) or 'see contracts/*.py (lemma(...))'},
        'rewritten_functions': sorted(install.rewritten_texts()),
    }
    if bres or rres:
        ev = sum(r.get('evaluations', 0) for r in bres) + sum(r.get('accepted', 0) for r in rres)
        dn = sum(r.get('distinct_nontrivial', 0) for r in bres) + sum(r.get('accepted', 0) for r in rres)
        cov['bounded'] = [{'module': r['module'], 'evaluations': r.get('evaluations'), 'distinct_nontrivial': r.get('distinct_nontrivial'),
                           'rule': r.get('rule'), 'exhaustive': r.get('exhaustive'), 'bound': r.get('bound'),
                           'clauses': r.get('clauses'), 'n_failures': r.get('n_failures'), 'seconds': r.get('seconds'),
                           'samples': (r.get('samples') or [])[:3]} for r in bres]
        cov['random_contract_runs'] = [{'harness': r['harness'], 'tried': r['tried'], 'accepted': r['accepted'],
                                        'failures': len(r['failures'])} for r in rres]
        cov['evaluations'] = ev
        cov['distinct_nontrivial'] = dn
        cov['rule'] = ' | '.join(str(r.get('rule')) for r in bres) or 'random concrete inputs through the same contract harness'
        cov['exhaustive'] = bool(bres) and all(r.get('exhaustive') for r in bres)
        for r in bres:
            for s in (r.get('samples') or [])[:2]:
                cov['samples'].append({'bounded_case': s})
    if not cov['samples']:
        cov['samples'] = [{'note': 'no sample recorded'}]
    if ev_level in ('exploration', 'fault_enumeration'):
        cov.setdefault('evaluations', max(1, nobs))
        cov.setdefault('distinct_nontrivial', max(2, len(clauses)))
        cov.setdefault('rule', 'see explanation')
    evidence = {
        'property_id': prop, 'tier': tier, 'seed': seed, 'level': ev_level, 'coverage': cov,
        'assumptions': _assumptions(prop, hs),
        'wall_s': round(time.time() - t0, 2), 'violations': nviol,
    }
    if crashes:
        evidence['coverage']['checker_crashes'] = [c['crash'][:600] for c in crashes]
    # evidence describes /repo itself; a run against a scratch copy (QSTRADER_ROOT) or by the seeded-change tools
    # (PYVC_SCRATCH_EVIDENCE=1, /repo temporarily patched) writes its record next to the replays instead
    edir = 'evidence' if (os.path.realpath(os.environ.get('QSTRADER_ROOT', '/repo')) == '/repo' and not os.environ.get('PYVC_SCRATCH_EVIDENCE')) \
        else os.path.join('replays', '_scratch_evidence')
    os.makedirs(os.path.join(VERIF, edir), exist_ok=True)
    with open(os.path.join(VERIF, edir, prop + '.json'), 'w') as f:
        json.dump(evidence, f, indent=1, default=str)
    # summary on stderr-ish (stdout lines that are not VIOLATION are informational)
    print('%s tier=%s: obligations %d discharged %d | clauses %d | canaries %d killed %d survived %d | bounded modules %d | undecided %d%s | %.1fs'
          % (prop, tier, nobs, ndis, len(clauses), len(can), sum(r['status'].startswith('killed') for r in can), len(survived), len(bres),
             len(undecided), ' (bounded fallback passed)' if fb_ok else '', time.time() - t0))
    for o, w in undecided[:12]:
        print('  undecided: %s: %s' % (o, w))
    slow = sorted(((r.get('seconds', 0), r.get('task'), r.get('harness') or r.get('module'), r.get('label', '')) for r in results), reverse=True)[:3]
    if slow and slow[0][0] > 20:
        print('  slowest tasks: ' + '; '.join('%.0fs %s %s %s' % x for x in slow))
    for r in survived:
        print('  CANARY SURVIVED (vacuity alarm, checker error): %s / %s' % (r['harness'], r['label']))
    for c in crashes:
        print('  CHECKER CRASH: %s' % c['crash'][:1500])
    for n in notes:
        print('  note: ' + n)
    return status


def _write_replay(prop, oid, doc):
    safe = ''.join(ch if ch.isalnum() or ch in '._-' else '_' for ch in oid)[:150]
    path = os.path.join('replays', prop, safe + '.json')
    with open(os.path.join(VERIF, path), 'w') as f:
        json.dump(doc, f, indent=1, default=str)
    return path


def _explanation(prop, hs, nobs, ndis, bres, can, undecided, fb_ok):
    s = ('Contract-based deductive verification with pyvc: the real qstrader functions were executed on z3-backed proxies '
         '(all paths, loops cut by invariants, callees replaced by their contracts); %d obligation instances were generated from '
         '/repo\'s current source for this property and %d discharged (unsat). ' % (nobs, ndis))
    if can:
        s += '%d in-memory canary mutants were refuted (vacuity guard). ' % sum(r['status'].startswith('killed') for r in can)
    if bres:
        s += ('Bounded part (NOT counted as proved): %s. ' % '; '.join('%s: %s cases, exhaustive=%s' % (r['module'], r.get('evaluations'), r.get('exhaustive')) for r in bres))
    if undecided:
        s += '%d clauses were NOT proved on this run%s. ' % (len(undecided), ' and were decided by the bounded run-time check of the same contract' if fb_ok else '')
    return s


def _assumptions(prop, hs):
    from pyvc import shims
    out = list(sorted(set(shims.TRUSTED)))
    out += ['asset symbols and portfolio ids are strings, modelled as a totally ordered infinite set',
            'termination is not proved', 'exceptions other than those raised explicitly or by missing attributes/keys are ignored',
            'console output, logging text and exception messages are not specified']
    for h in hs:
        for a in getattr(h.fn, 'assumes', []):
            out.append('%s: %s' % (h.name, a))
    return out


def replay(path):
    doc = json.load(open(path if os.path.isabs(path) else os.path.join(VERIF, path)))
    if doc.get('kind') == 'bounded':
        src = doc.get('source', '')
        if src.startswith('random:'):
            run = _load_contracts()
            res = run.replay_conc(run.HARNESSES[src.split(':', 1)[1]], dict(doc['failure']['inputs']))
            bad = [r for r in res if not r[2]]
            print(json.dumps({'reproduced': bool(bad), 'failed': [r[0] for r in bad]}, indent=1))
            return 1 if bad else 0
        mod = importlib.import_module('bounded.' + src)
        r = mod.replay(doc['failure']['case'])
        print(json.dumps(r, indent=1, default=str))
        return 1 if r.get('reproduced') else 0
    run = _load_contracts()
    h = run.HARNESSES[doc['harness']]
    vals = {k: run.num(v) for k, v in (doc.get('inputs') or doc['solver']['model'] or {}).items()}
    res = run.replay_conc(h, vals)
    bad = [r for r in res if not r[2]]
    print(json.dumps({'obligation': doc['obligation'], 'reproduced': any(r[0] == doc['obligation'].split('/', 1)[1] for r in bad),
                      'native_failed_clauses': [r[0] for r in bad]}, indent=1))
    return 1 if bad else 0


def baseline():
    run = _load_contracts()
    out = {}
    ctxm = mp.get_context('fork')
    with ctxm.Pool(16, maxtasksperchild=1) as pool:
        results = pool.map(_task, [('verify', n, None) for n in run.HARNESSES], chunksize=1)
    for r in results:
        if r.get('crash'):
            print('crash', r['crash'])
            continue
        for o in r['obligations']:
            for p in o['props']:
                d = out.setdefault(p, {'clauses': set(), 'tree': repo_state()})
                if o['verdict'] == 'discharged' and o['kind'] == 'P':
                    d['clauses'].add(o['id'])
    for p in out:
        out[p]['clauses'] = sorted(out[p]['clauses'])
    os.makedirs(os.path.join(VERIF, 'baseline'), exist_ok=True)
    json.dump(out, open(os.path.join(VERIF, 'baseline', 'obligations.json'), 'w'), indent=1, sort_keys=True)
    print({p: len(v['clauses']) for p, v in sorted(out.items())})
    return 0


def main():
    ap = argparse.ArgumentParser()
    ap.add_argument('cmd')
    ap.add_argument('arg', nargs='?')
    ap.add_argument('--tier', default=os.environ.get('VERIF_TIER', 'quick'))
    ap.add_argument('--jobs', type=int, default=int(os.environ.get('VERIF_JOBS', '16')))
    a = ap.parse_args()
    seed = int(os.environ.get('VERIF_SEED', '0') or 0)
    if a.cmd == 'check':
        try:
            rc = check(a.arg, a.tier, seed, a.jobs)
        except Exception as e:
            traceback.print_exc()
            rc = 3
        sys.exit(rc)
    if a.cmd == 'replay':
        sys.exit(replay(a.arg))
    if a.cmd == 'baseline':
        sys.exit(baseline())
    if a.cmd == 'list':
        run = _load_contracts()
        for n, h in sorted(run.HARNESSES.items()):
            print(n, h.props, h.layer, len(h.canaries))
        sys.exit(0)
    sys.exit(3)


if __name__ == '__main__':
    main()
