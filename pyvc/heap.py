"""Symbolic collections, regions (heap-as-arrays), loop cutting, and the __vc__ namespace used by rewritten code."""
import builtins
import collections
import queue as _queue

import z3

from . import core
from .core import (SymNum, SymBool, SymKey, SymTime, SymTod, SymOpt, OpaqueStr, Unmodelled, Abort, lift, liftk,
                   tobool, ctx, R, K, B, keylit)

AKB = z3.ArraySort(K, B)
AKR = z3.ArraySort(K, R)
EMPTY = z3.K(K, False)
SUM = z3.Function('SUM', AKB, AKR, R)          # finite sum over a key set; unfolded by the engine only
CARD = z3.Function('CARD', AKB, z3.IntSort())

UNBOUND = type('Unbound', (), {'__repr__': lambda s: '<unbound>'})()
LOOPSPEC = {}            # loop id -> factory(lid, iterable, env) -> loop object


def _k(name='k'):
    return ctx().fresh(name, K)


# ------------------------------------------------------------------------------- universals / key terms
def add_universal(fn):
    """fn(k) -> BoolRef holds for every key k; instantiated by the engine at every key term of interest."""
    c = ctx()
    c.ghost.setdefault('universals', []).append(fn)
    for k in list(c.ghost.setdefault('keyterms', [])):
        c.assume(fn(k))


def add_keyterm(k):
    c = ctx()
    kt = c.ghost.setdefault('keyterms', [])
    if any(k.eq(x) for x in kt):
        return
    kt.append(k)
    for u in list(c.ghost.setdefault('universals', [])):
        c.assume(u(k))


def fresh_key(name='k'):
    k = _k(name)
    add_keyterm(k)
    return k


def ob_forall(clause, fn, kind='P', name='w', **kw):
    """obligation: for every key w, fn(w).  (fresh skolem; universals are instantiated at it first)"""
    c = ctx()
    if c.mode == 'conc':
        raise Unmodelled('ob_forall in concrete mode: use explicit witnesses')
    w = fresh_key(name)
    c.ob(clause, fn(w), kind=kind, **kw)


def choice(name, on_true=None, on_false=None):
    """fork on a fresh boolean; hooks add the facts of each branch (skolem witness / universal)."""
    c = ctx()
    b = c.fresh(name, B)
    d = c.decide(b)
    if d and on_true:
        on_true()
    if (not d) and on_false:
        on_false()
    return d


def eff_dom(dom, cond):
    if cond is None:
        return dom
    k = z3.Const('__k', K)
    return z3.Lambda([k], SymIter(dom, None, cond).member(k))


# ------------------------------------------------------------------------------- merged evaluation
def merged_eval(fn, assumptions=()):
    """Evaluate the PURE function fn() on a generic element: explore all of its sub-paths and merge the results into
    one term (if-then-else over the sub-path conditions) instead of forking the enclosing path.
    `assumptions` hold inside only (e.g. membership of the generic key)."""
    c = ctx()
    if c.mode != 'sym':
        return fn()
    outer = (c.prefix, c.pos, c.todo)
    base = len(c.pc)
    results = []
    todo = [[]]
    try:
        while todo:
            pre = todo.pop()
            c.prefix, c.pos, c.todo = list(pre), 0, todo
            c.solver.push()
            try:
                for a in assumptions:
                    c.solver.add(a)
                    c.pc.append(a)
                nb = len(c.pc)
                try:
                    v = fn()
                except Abort:
                    continue
                results.append((list(c.pc[nb:]), v))
            finally:
                c.solver.pop()
                del c.pc[base:]
            if len(results) > 200:
                raise Unmodelled('merged evaluation explodes')
    finally:
        c.prefix, c.pos, c.todo = outer
    if not results:
        raise Abort()
    return _merge(results)


def _merge(results):
    vals = [v for _, v in results]
    v0 = vals[0]
    if len(results) == 1:
        return v0
    if all(v is v0 for v in vals):
        return v0
    conds = [z3.And(*pc) if pc else z3.BoolVal(True) for pc, _ in results]
    if all(isinstance(v, SymKey) for v in vals) and all(v.t.eq(v0.t) for v in vals):
        return v0
    if all(isinstance(v, tuple) for v in vals) and len({len(v) for v in vals}) == 1:
        return tuple(_merge([(pc, v[i]) for (pc, v) in results]) for i in range(len(v0)))
    if all(isinstance(v, dict) for v in vals) and all(set(v) == set(v0) for v in vals):
        return {k: _merge([(pc, v[k]) for (pc, v) in results]) for k in v0}
    if all(isinstance(v, (SymBool, bool, z3.BoolRef)) for v in vals):
        t = tobool(vals[-1])
        for cnd, v in zip(reversed(conds[:-1]), reversed(vals[:-1])):
            t = z3.If(cnd, tobool(v), t)
        return SymBool(t)
    if all(isinstance(v, (SymNum, int, float)) and not isinstance(v, bool) for v in vals):
        t = lift(vals[-1])
        for cnd, v in zip(reversed(conds[:-1]), reversed(vals[:-1])):
            t = z3.If(cnd, lift(v), t)
        return SymNum(t)
    raise Unmodelled('cannot merge results of types %s' % sorted({type(v).__name__ for v in vals}))


# ------------------------------------------------------------------------------------------ SymIter
class SymIter:
    """An abstract finite iterable indexed by a key set: element elem(k) for each k in dom with cond(k)."""

    def __init__(self, dom, elem, cond=None, order='arb'):
        self.dom0, self.elem, self.cond, self.order = dom, elem, cond, order

    @property
    def dom(self):
        return eff_dom(self.dom0, self.cond)

    def member(self, k):
        m = z3.Select(self.dom0, k)
        if self.cond is None:
            return m
        # the filter condition is only meaningful for members of the source: evaluated (merged) under that assumption
        kt = ctx().ghost.setdefault('keyterms', [])
        n = len(kt)
        try:
            cnd = tobool(merged_eval(lambda: self.cond(k), [m]))
        except Abort:
            cnd = z3.BoolVal(False)
        finally:
            del kt[n:]
        return z3.And(m, cnd)

    def gelem(self, k):
        """element at the GENERIC (bound) key k as one merged term; universals are instantiated at k inside"""
        def f():
            add_keyterm(k)
            return self.elem(k)
        kt = ctx().ghost.setdefault('keyterms', [])
        n = len(kt)
        try:
            return merged_eval(f, [z3.Select(self.dom0, k)])
        finally:
            del kt[n:]

    def __iter__(self):
        raise Unmodelled('CPython iteration over a symbolic collection (loop not rewritten?)')

    def __vc_sum__(self):
        k = z3.Const('__k', K)
        return SymNum(SUM(self.dom, z3.Lambda([k], lift(self.gelem(k)))))

    def __vc_any__(self):
        w = {}

        def yes():
            k = fresh_key('any_w')
            ctx().assume(z3.And(self.member(k), tobool(self.gelem(k))))

        def no():
            add_universal(lambda k: z3.Implies(self.member(k), z3.Not(tobool(self.gelem(k)))))
        return choice('any', yes, no)

    def __vc_all__(self):
        def yes():
            add_universal(lambda k: z3.Implies(self.member(k), tobool(self.gelem(k))))

        def no():
            k = fresh_key('all_w')
            ctx().assume(z3.And(self.member(k), z3.Not(tobool(self.gelem(k)))))
        return choice('all', yes, no)

    def __vc_len__(self):
        return card(self.dom)

    def __vc_list__(self):
        return self

    def __vc_sorted__(self, key, reverse):
        if reverse:
            raise Unmodelled('sorted(reverse=True)')
        g = z3.Const('__g', K)
        e = self.elem(g)
        kv = key(e) if key is not None else e
        if isinstance(kv, tuple):
            kv = kv[0]
        if not (isinstance(kv, SymKey) and kv.t.eq(g)):
            raise Unmodelled('sorted() of a symbolic collection by something other than its key')
        return SymIter(self.dom0, self.elem, self.cond, 'asc')

    def __vc_set__(self):
        g = z3.Const('__g', K)
        e = self.elem(g)
        if not (isinstance(e, SymKey) and e.t.eq(g)):
            raise Unmodelled('set() of non-key elements')
        return SymSet(self.dom)

    def __vc_bool__(self):
        return SymBool(self.dom != EMPTY)

    def __vc_loop__(self):
        return self


def card(dom):
    c = CARD(dom)
    x = ctx()
    x.assume(c >= 0)
    x.assume((c == 0) == (dom == EMPTY))
    return SymNum(z3.ToReal(c))


class SymSet:
    def __init__(self, dom):
        self.dom = dom

    @staticmethod
    def _dom_of(o):
        if isinstance(o, SymSet):
            return o.dom
        if isinstance(o, SymIter):
            return o.__vc_set__().dom
        if isinstance(o, (set, frozenset, list, tuple)):
            k = z3.Const('__k', K)
            return z3.Lambda([k], z3.Or(*[k == liftk(x) for x in o])) if o else EMPTY
        raise Unmodelled('set operation with %r' % type(o))

    def union(self, o):
        k = z3.Const('__k', K)
        return SymSet(z3.Lambda([k], z3.Or(z3.Select(self.dom, k), z3.Select(self._dom_of(o), k))))

    __or__ = union

    def __sub__(self, o):
        k = z3.Const('__k', K)
        return SymSet(z3.Lambda([k], z3.And(z3.Select(self.dom, k), z3.Not(z3.Select(self._dom_of(o), k)))))

    def __rsub__(self, o):
        k = z3.Const('__k', K)
        return SymSet(z3.Lambda([k], z3.And(z3.Select(self._dom_of(o), k), z3.Not(z3.Select(self.dom, k)))))

    def _it(self, order='arb'):
        return SymIter(self.dom, lambda k: SymKey(k), None, order)

    def __vc_list__(self):
        return self._it()

    def __vc_sorted__(self, key, reverse):
        if key is not None or reverse:
            raise Unmodelled('sorted(set, key/reverse)')
        return self._it('asc')

    def __vc_len__(self):
        return card(self.dom)

    def __vc_loop__(self):
        return self._it()

    def __vc_in__(self, x):
        return SymBool(z3.Select(self.dom, liftk(x)))

    def __iter__(self):
        raise Unmodelled('CPython iteration over a symbolic set')


# ------------------------------------------------------------------------------------------- SymMap
class RecView:
    def __init__(self, m, k):
        self.m, self.k = m, k

    def __getitem__(self, f):
        if f not in self.m.cols:
            raise KeyError(f)
        return SymNum(z3.Select(self.m.cols[f], self.k))

    def __setitem__(self, f, v):
        self.m._col_store(f, self.k, v)


class SymMap:
    """dict[key -> number] (column '') or dict[key -> {'field': number, ...}] as dom + one array per column."""

    def __init__(self, dom, cols, order=None):
        self.dom, self.cols = dom, dict(cols)

    @classmethod
    def fresh(cls, name, fields=('',)):
        c = ctx()
        return cls(c._const(name + '.dom', AKB), {f: c._const('%s.%s' % (name, f or 'val'), AKR) for f in fields})

    @classmethod
    def empty(cls):
        return cls(EMPTY, {})

    def copy(self):
        return SymMap(self.dom, self.cols)

    @property
    def isrec(self):
        return '' not in self.cols and bool(self.cols)

    def _col_store(self, f, kt, v):
        arr = self.cols.get(f)
        if arr is None:
            arr = z3.K(K, z3.RealVal(0))
        self.cols[f] = z3.Store(arr, kt, lift(v))

    def value(self, kt):
        if '' in self.cols:
            return SymNum(z3.Select(self.cols[''], kt))
        return RecView(self, kt)

    def has(self, k):
        return SymBool(z3.Select(self.dom, liftk(k)))

    def __vc_in__(self, k):
        return self.has(k)

    def __getitem__(self, k):
        kt = liftk(k)
        if not bool(self.has(k)):
            raise KeyError(k)
        return self.value(kt)

    def get(self, k, default=None):
        kt = liftk(k)
        if bool(self.has(k)):
            return self.value(kt)
        return default

    def __setitem__(self, k, v):
        kt = liftk(k)
        add_keyterm(kt)
        if isinstance(v, dict):
            if '' in self.cols:
                raise Unmodelled('record stored into a numeric map')
            for f, x in v.items():
                self._col_store(f, kt, x)
        else:
            if self.isrec:
                raise Unmodelled('number stored into a record map')
            self._col_store('', kt, v)
        self.dom = z3.Store(self.dom, kt, True)

    def __delitem__(self, k):
        if not bool(self.has(k)):
            raise KeyError(k)
        self.dom = z3.Store(self.dom, liftk(k), False)

    def keys(self):
        return SymIter(self.dom, lambda k: SymKey(k))

    def values(self):
        return SymIter(self.dom, lambda k: self.value(k))

    def items(self):
        return SymIter(self.dom, lambda k: (SymKey(k), self.value(k)))

    def __iter__(self):
        raise Unmodelled('CPython iteration over a symbolic dict (loop not rewritten?)')

    def __vc_loop__(self):
        return self.keys()

    def __vc_len__(self):
        return card(self.dom)

    def __vc_list__(self):
        return self.keys()

    def __vc_set__(self):
        return SymSet(self.dom)

    def __vc_sorted__(self, key, reverse):
        return self.keys().__vc_sorted__(key, reverse)

    def __vc_bool__(self):
        return SymBool(self.dom != EMPTY)

    def __eq__(self, o):
        if isinstance(o, dict) and not o:
            return SymBool(self.dom == EMPTY)
        raise Unmodelled('comparison of symbolic dicts')

    __hash__ = None

    def update(self, o):
        m = merge(self, o)
        self.dom, self.cols = m.dom, m.cols


def merge(*ms):
    """{**a, **b, ...}: later maps win"""
    if all(isinstance(m, dict) for m in ms):
        out = {}
        for m in ms:
            out.update(m)
        return out
    acc = None
    for m in ms:
        if isinstance(m, dict):
            sm = SymMap.empty()
            for kk, v in m.items():
                sm[kk] = v
            m = sm
        if not isinstance(m, SymMap):
            raise Unmodelled('merge of %r' % type(m))
        if acc is None:
            acc = m.copy()
            continue
        k = z3.Const('__k', K)
        cols = {}
        for f in set(acc.cols) | set(m.cols):
            a = acc.cols.get(f, z3.K(K, z3.RealVal(0)))
            b = m.cols.get(f, z3.K(K, z3.RealVal(0)))
            cols[f] = z3.Lambda([k], z3.If(z3.Select(m.dom, k), z3.Select(b, k), z3.Select(a, k)))
        acc = SymMap(z3.Lambda([k], z3.Or(z3.Select(acc.dom, k), z3.Select(m.dom, k))), cols)
    return acc if acc is not None else {}


class OptTimeMap:
    """dict[key -> Optional[timestamp]] (DynamicUniverse.asset_dates): dom + is-None flag + value arrays"""

    def __init__(self, name):
        c = ctx()
        self.dom = c._const(name + '.dom', AKB)
        self.isnone = c._const(name + '.isnone', AKB)
        self.val = c._const(name + '.val', AKR)

    def items(self):
        return SymIter(self.dom, lambda k: (SymKey(k), SymOpt(z3.Select(self.isnone, k), SymTime(z3.Select(self.val, k)))))

    def keys(self):
        return SymIter(self.dom, lambda k: SymKey(k))

    def __iter__(self):
        raise Unmodelled('CPython iteration over a symbolic dict')

    def __vc_loop__(self):
        return self.keys()


# ------------------------------------------------------------------------------------------- Region
class Region:
    """dict[key -> object of class cls]: dom + one z3 array per data field; d[k] yields a *view*: an instance of a
    dynamically created subclass of the REAL class whose data attributes route to Select/Store."""

    def __init__(self, cls, name, fields, keyfield=None, consts=None):
        self.cls, self.name, self.fields, self.keyfield = cls, name, dict(fields), keyfield
        c = ctx()
        self.dom = c._const(name + '.dom', AKB)
        self.f = {f: c._const('%s.%s' % (name, f), AKR) for f, ty in fields.items()}
        self.consts = dict(consts or {})
        self.viewcls = make_view_class(cls)

    def snapshot(self):
        return (self.dom, dict(self.f))

    def view(self, kt):
        v = object.__new__(self.viewcls)
        object.__setattr__(v, '_r', self)
        object.__setattr__(v, '_k', kt)
        return v

    def read(self, f, kt):
        ty = self.fields[f]
        t = z3.Select(self.f[f], kt)
        return SymTime(t) if ty == 'time' else SymNum(t)

    def has(self, k):
        return SymBool(z3.Select(self.dom, liftk(k)))

    __vc_in__ = has

    def __getitem__(self, k):
        if not bool(self.has(k)):
            raise KeyError(k)
        return self.view(liftk(k))

    def __setitem__(self, k, obj):
        kt = liftk(k)
        add_keyterm(kt)
        d = vars(obj)
        for f, val in list(d.items()):
            if f in self.f:
                self.f[f] = z3.Store(self.f[f], kt, lift(val))
            elif f == self.keyfield:
                ctx().ob('region-key-field@%s' % self.name, liftk(val) == kt, kind='A')
            elif f in self.consts:
                pass
            else:
                raise Unmodelled('field %s of %s is not modelled by region %s' % (f, type(obj).__name__, self.name))
        self.dom = z3.Store(self.dom, kt, True)
        d.clear()
        obj.__class__ = self.viewcls                 # the alias now IS the view (sound aliasing)
        object.__setattr__(obj, '_r', self)
        object.__setattr__(obj, '_k', kt)

    def __delitem__(self, k):
        if not bool(self.has(k)):
            raise KeyError(k)
        self.dom = z3.Store(self.dom, liftk(k), False)

    def keys(self):
        return SymIter(self.dom, lambda k: SymKey(k))

    def values(self):
        return SymIter(self.dom, lambda k: self.view(k))

    def items(self):
        return SymIter(self.dom, lambda k: (SymKey(k), self.view(k)))

    def __vc_loop__(self):
        return self.keys()

    def __vc_len__(self):
        return card(self.dom)

    def __iter__(self):
        raise Unmodelled('CPython iteration over a region')

    def __eq__(self, o):
        if isinstance(o, dict) and not o:
            return SymBool(self.dom == EMPTY)
        raise Unmodelled('comparison of regions')

    __hash__ = None


_viewcls = {}


def make_view_class(cls):
    if cls in _viewcls:
        return _viewcls[cls]

    def __getattr__(self, name):        # only reached for data fields (methods/properties live on cls)
        r, k = object.__getattribute__(self, '_r'), object.__getattribute__(self, '_k')
        if name in r.f:
            return r.read(name, k)
        if name == r.keyfield:
            return SymKey(k)
        if name in r.consts:
            return r.consts[name]
        raise AttributeError(name)

    def __setattr__(self, name, val):
        r, k = object.__getattribute__(self, '_r'), object.__getattribute__(self, '_k')
        if name not in r.f:
            raise Unmodelled('assignment to unmodelled field %s of a %s view' % (name, r.cls.__name__))
        r.f[name] = z3.Store(r.f[name], k, lift(val))

    v = type('View_' + cls.__name__, (cls,), {'__getattr__': __getattr__, '__setattr__': __setattr__})
    _viewcls[cls] = v
    return v


# ------------------------------------------------------------------------------------ integer-indexed arrays
class StopHere(BaseException):
    """the function under verification left the modelled fragment (e.g. entered pandas): the harness stops there"""


def _ix(i):
    t = lift(i)
    return z3.ToInt(t)


class SymArr:
    """numpy float array of symbolic length: z3 Array(Int, Real) + bounds obligations"""

    def __init__(self, arr, n):
        self.arr, self.n = arr, n

    def _bounds(self, i):
        ctx().ob('array-index-within-bounds', z3.And(_ix(i) >= 0, z3.ToReal(_ix(i)) < lift(self.n)), kind='A')

    def __getitem__(self, i):
        self._bounds(i)
        return SymNum(z3.Select(self.arr, _ix(i)))

    def __setitem__(self, i, v):
        self._bounds(i)
        self.arr = z3.Store(self.arr, _ix(i), lift(v))

    def __vc_len__(self):
        return self.n


class SymIndex:
    def __init__(self, n):
        self.n = n

    def __vc_len__(self):
        return self.n


class SymRange:
    def __init__(self, lo, hi):
        self.lo, self.hi = lo, hi

    def __vc_loop__(self):
        return self

    def __iter__(self):
        raise Unmodelled('CPython iteration over a symbolic range')


# -------------------------------------------------------------------------------------------- lists
class SymList:
    """A list that the code only appends to / iterates: symbolic prefix (opaque) + appended items."""

    def __init__(self, prefix_name=None):
        self.prefix, self.items = prefix_name, []

    def append(self, x):
        self.items.append(x)

    def __vc_len__(self):
        if self.prefix is None:
            return len(self.items)
        raise Unmodelled('len of a list with symbolic prefix')

    def __iter__(self):
        if self.prefix is None:
            return iter(self.items)
        raise Unmodelled('iteration over a list with symbolic prefix')


# ------------------------------------------------------------------------------------------- queue
class _QueueNew:
    """a freshly constructed, empty queue.Queue()"""
    def __init__(self):
        self.items = collections.deque()

    @property
    def queue(self):
        return self.items

    def put(self, x):
        self.items.append(x)

    def get(self):
        return self.items.popleft()

    def empty(self):
        return not self.items

    def qsize(self):
        return len(self.items)


class _QueueMod:
    Queue = _QueueNew

    def __getattr__(self, n):
        return getattr(_queue, n)


queue = _QueueMod()
core_trusted = 'queue.Queue = FIFO sequence (put appends, get removes the head, empty <=> length 0, qsize = length)'


def vc_ordered_dict(*a, **k):
    if a or k:
        return collections.OrderedDict(*a, **k)
    return new_dict(())


def vc_deque(it=(), maxlen=None):
    return collections.deque(it, maxlen)


# -------------------------------------------------------------------------------------------- loops
class MapLoopSpec:
    """Structured invariant of a loop over a key domain.
        scal(L, env, done) -> list of (name, BoolRef)              scalar facts
        pd(L, env, k)      -> list of (name, BoolRef)              facts for every processed key k
        pw(L, env, k)      -> list of (name, BoolRef)              facts for every key of the iterated domain
       env maps carried variable names to their current values."""

    def scal(self, L, env, done):
        return []

    def pd(self, L, env, k):
        return []

    def pw(self, L, env, k):
        return []

    def havoc(self, L, env, names):
        return None

    def kernel(self, L, env, k):
        """obligations establishing pd at the key just processed (may use the iteration's locals); default: pd itself"""
        return self.pd(L, env, k)

    def sums(self, L, env):
        """summand arrays f of the fold facts  acc == SUM(done, f): the engine unfolds the definition of SUM for them"""
        return []


def _typed_havoc(L, name, v):
    c = ctx()
    tag = '%s.%s' % (L.tag, name)
    if v is UNBOUND or v is None:
        return v
    if isinstance(v, bool):
        return v
    if isinstance(v, (SymNum, int, float)):
        return SymNum(c.fresh(tag, R))
    if isinstance(v, SymMap):
        return SymMap(c.fresh(tag + '.dom', AKB), {f: c.fresh('%s.%s' % (tag, f or 'val'), AKR) for f in v.cols})
    if isinstance(v, dict) and not v:
        raise Unmodelled('havoc of an empty concrete dict %s in %s: loop spec must type it' % (name, L.lid))
    if isinstance(v, (SymKey,)):
        return SymKey(c.fresh(tag, K))
    if isinstance(v, Region):
        raise Unmodelled('havoc of a region requires a loop spec')
    return v       # objects (self, views, stubs): heap effects are governed by the loop spec


def _in_place(old, new):
    """havoc of a dictionary that the loop mutates: the OBJECT keeps its identity (it may be aliased from the heap, e.g. kept
    on `self`), only its content becomes the fresh symbolic content"""
    if isinstance(new, SymMap) and new is not old:
        if isinstance(old, LazyDict):
            old._m = new
            dict.clear(old)
            return old
        if isinstance(old, SymMap):
            old.dom, old.cols = new.dom, dict(new.cols)
            return old
    return new


def check_state(lid, state, known):
    """a hand-written loop object covers the loop-carried state named in `known`; any other state the body carries from one
    iteration to the next is not covered by its invariant: everything after the loop is then UNDECIDED"""
    extra = [n for n in state if n not in known]
    if extra:
        raise Unmodelled('loop %s carries state %s that its invariant does not cover' % (lid, ', '.join(extra)))


class _quiet:
    """spec-side evaluation: no definedness obligations"""

    def __enter__(self):
        ctx().quiet += 1

    def __exit__(self, *a):
        ctx().quiet -= 1


class MapLoop:
    def __init__(self, lid, it, env, spec, tag=None):
        self.lid, self.it, self.spec = lid, it, spec or MapLoopSpec()
        self.tag = tag or lid.split('#')[0].split('.')[-1] + '.loop'
        self.dom = it.dom
        c = ctx()
        self.done = c.fresh(self.tag + '.done', AKB)
        self.entry_env = dict(env)
        self.k = None

    def _short(self):
        return self.lid.split('#', 1)[1]

    def havoc(self, env, names, state=()):
        c = ctx()
        # invariant on entry (A-obligation), with the pre-loop values
        env0 = dict(env)
        self.env0 = env0
        for f in self.spec.sums(self, env0):
            c.assume(SUM(EMPTY, f) == 0)                      # definition of a finite sum: empty set
        for n, f in self.spec.scal(self, env0, EMPTY):
            c.ob('#%s:init/%s' % (self._short(), n), f, kind='A')
        custom = self.spec.havoc(self, env, names) or {}
        out = []
        for n in names:
            new = custom[n] if n in custom else _typed_havoc(self, n, env.get(n))
            out.append(_in_place(env.get(n), new))
        return tuple(out)

    def _assume_inv(self, env, done):
        c = ctx()
        for n, f in self.spec.scal(self, env, done):
            c.assume(f)
        def u1(k):
            with _quiet():
                return z3.Implies(z3.Select(done, k), z3.And(z3.Select(self.dom, k), *[f for _, f in self.spec.pd(self, env, k)]))

        def u2(k):
            with _quiet():
                return z3.Implies(z3.Select(self.dom, k), z3.And(z3.BoolVal(True), *[f for _, f in self.spec.pw(self, env, k)]))
        add_universal(u1)
        add_universal(u2)

    def more(self, env):
        self.env1 = dict(env)
        self._assume_inv(env, self.done)
        c = ctx()
        k = c.fresh(self.tag + '.k', K)
        # exists an unprocessed key?
        d = c.decide(self.done != self.dom)
        if d:
            c.assume(z3.Select(self.dom, k))
            c.assume(z3.Not(z3.Select(self.done, k)))
            add_keyterm(k)
            self.k = k
        else:
            pass
        return d

    def next(self, env):
        return self.it.elem(self.k)

    def preserved(self, env):
        c = ctx()
        done2 = z3.Store(self.done, self.k, True)
        for f in self.spec.sums(self, env):                   # definition of a finite sum: one more (new) element
            c.assume(SUM(done2, f) == SUM(self.done, f) + z3.Select(f, self.k))
        for n, f in self.spec.scal(self, env, done2):
            c.ob('#%s:preserved/%s' % (self._short(), n), f, kind='A')
        with _quiet():
            kern = self.spec.kernel(self, env, self.k)
        for item in kern:
            n, f = item[0], item[1]
            c.ob('#%s:kernel/%s' % (self._short(), n), f, kind='P', **(item[2] if len(item) > 2 else {}))
        w = fresh_key('frame_w')
        pre = [w != self.k, z3.Select(self.done, w)]
        with _quiet():
            fr = self.spec.pd(self, env, w)
        for n, f in fr:
            c.ob('#%s:frame/%s' % (self._short(), n), f, kind='A', extra=pre)
        raise Abort()

    def exit(self, env, names):
        return tuple(env.get(n) for n in names)


def _lookup_spec(lid):
    """exact loop id first; otherwise bind BY SHAPE: the registered spec with the same fingerprint (loop kind + iterable /
    condition text) whose static ordinal equals the number of loops of that shape entered so far on this path - so that
    moving a loop into a helper method or renaming the method does not lose its invariant.  (A spec bound to the wrong loop
    can only fail its own entry/preservation obligations, never prove anything it should not.)"""
    c = ctx()
    parts = lid.split('#')
    fp = parts[1] if len(parts) > 2 else None
    cnt = c.ghost.setdefault('loops_entered', {})
    dyn = cnt.get(fp, 0)
    cnt[fp] = dyn + 1
    fac = LOOPSPEC.get(lid)
    if fac is not None or fp is None:
        return fac
    same = sorted(k for k in LOOPSPEC if k.split('#')[1:2] == [fp])
    # (the function may be called several times on one path - an earlier call, then the call under test - hence the modulus)
    cands = [k for k in same if k.rsplit('#', 1)[-1] == str(dyn % len(same))] if same else []
    if len(cands) == 1:
        c.note('loop %s bound by shape to the invariant registered for %s' % (lid, cands[0]))
        return LOOPSPEC[cands[0]]
    return None


def loop(lid, iterable, env):
    if hasattr(iterable, '__vc_loop__'):
        it = iterable.__vc_loop__()
        fac = _lookup_spec(lid)
        if fac is None:
            # no invariant for this loop shape (the loop was added or restructured): everything after it is undecided
            _nospec(lid)
        return fac(lid, it, env)
    return None


def _nospec(lid):
    raise Unmodelled('no loop spec matches %s' % lid)


def wloop(lid, env):
    if ctx() is None or ctx().mode != 'sym':
        return None
    fac = _lookup_spec(lid)
    if fac is None:
        return None
    return fac(lid, None, env)


# ----------------------------------------------------------------------------- __vc__ namespace
def comp(kind, f, it, cond):
    if hasattr(it, '__vc_loop__') or isinstance(it, SymIter):
        src = it if isinstance(it, SymIter) else it.__vc_loop__()
        if not isinstance(src, SymIter):
            raise Unmodelled('comprehension over %r' % type(it))
        c2 = None
        if cond is not None or src.cond is not None:
            def c2(k, src=src, cond=cond):
                parts = []
                if src.cond is not None:
                    parts.append(tobool(src.cond(k)))
                if cond is not None:
                    parts.append(tobool(cond(src.elem(k))))
                return z3.And(*parts)
        if kind in ('list', 'gen'):
            return SymIter(src.dom0, lambda k: f(src.elem(k)), c2, src.order)
        if kind == 'set':
            g0 = z3.Const('__g', K)
            probe = f(src.elem(g0))
            if not (isinstance(probe, SymKey) and z3.eq(probe.t, g0)):
                # a set of COMPUTED values removes duplicates by value: not a per-key collection any more
                raise Unmodelled('set comprehension over computed values')
            return SymIter(src.dom0, lambda k: f(src.elem(k)), c2, 'arb').__vc_set__()
        if kind == 'dict':
            g = z3.Const('__g', K)
            kk, vv = SymIter(src.dom0, lambda k: f(src.elem(k))).gelem(g)
            if not (isinstance(kk, SymKey) and kk.t.eq(g)):
                raise Unmodelled('dict comprehension re-keying a symbolic collection')
            dom = eff_dom(src.dom0, c2)
            if isinstance(vv, dict):
                return SymMap(dom, {fld: z3.Lambda([g], lift(x)) for fld, x in vv.items()})
            return SymMap(dom, {'': z3.Lambda([g], lift(vv))})
        raise Unmodelled(kind)
    # concrete iterable: CPython semantics
    if kind == 'list':
        return [f(x) for x in it if cond is None or cond(x)]
    if kind == 'gen':
        return (f(x) for x in it if cond is None or cond(x))
    if kind == 'set':
        return {f(x) for x in it if cond is None or cond(x)}
    if kind == 'dict':
        prs = [f(x) for x in it if cond is None or cond(x)]
        return new_dict(tuple(prs))
    raise Unmodelled(kind)


def unpack(e, n):
    if isinstance(e, tuple):
        return e
    return tuple(e)


def _issym(x):
    return isinstance(x, (SymNum, SymBool, SymKey, SymTime, SymTod, SymOpt))


def new_dict(pairs):
    if any(isinstance(k, SymKey) for k, _ in pairs):
        m = SymMap.empty()
        for k, v in pairs:
            m[k] = v
        return m
    if ctx() is not None and ctx().mode == 'sym' and all(isinstance(k, str) for k, _ in pairs):
        d = LazyDict()
        for k, v in pairs:
            dict.__setitem__(d, k, v)
        return d
    return builtins.dict(pairs)


class LazyDict(dict):
    """`{}` in symbolic mode: a real dict until a symbolic key is stored, then it delegates to a SymMap."""

    def __init__(self):
        super().__init__()
        self._m = None

    def _sym(self):
        if self._m is None:
            m = SymMap.empty()
            for k, v in super().items():
                m[k] = v
            self._m = m
        return self._m

    def __setitem__(self, k, v):
        if self._m is not None or isinstance(k, SymKey):
            self._sym()[k] = v
        else:
            super().__setitem__(k, v)

    def __getitem__(self, k):
        if self._m is not None or isinstance(k, SymKey):
            return self._sym()[k]
        return super().__getitem__(k)

    def __delitem__(self, k):
        if self._m is not None or isinstance(k, SymKey):
            del self._sym()[k]
        else:
            super().__delitem__(k)

    def __vc_in__(self, k):
        if self._m is not None or isinstance(k, SymKey):
            return self._sym().has(k)
        return super().__contains__(k)

    def __contains__(self, k):
        r = self.__vc_in__(k)
        return bool(r)

    def update(self, o=(), **kw):
        if self._m is not None or isinstance(o, (SymMap, LazyDict)) and getattr(o, '_m', o) is not None:
            o = o._sym() if isinstance(o, LazyDict) else o
            self._sym().update(o)
        else:
            super().update(o, **kw)

    def _deleg(name):
        def f(self, *a, **k):
            if self._m is not None:
                return getattr(self._m, name)(*a, **k)
            return getattr(dict, name)(self, *a, **k)
        return f
    keys = _deleg('keys')
    values = _deleg('values')
    items = _deleg('items')
    get = _deleg('get')

    def __iter__(self):
        if self._m is not None:
            raise Unmodelled('CPython iteration over a symbolic dict')
        return super().__iter__()

    def __len__(self):
        if self._m is not None:
            raise Unmodelled('len() by C code on a symbolic dict')
        return super().__len__()

    def __vc_len__(self):
        return self._m.__vc_len__() if self._m is not None else super().__len__()

    def __getattr__(self, n):
        if n.startswith('__vc_') and self.__dict__.get('_m') is not None:
            return getattr(self._m, n)
        raise AttributeError(n)

    @property
    def dom(self):
        return self._sym().dom

    @property
    def cols(self):
        return self._sym().cols


def new_list(elts):
    return builtins.list(elts)


def new_set(elts):
    if any(isinstance(e, SymKey) for e in elts):
        return SymSet(SymSet._dom_of(list(elts)))
    return builtins.set(elts)


def is_(a, b, neg):
    if isinstance(a, SymOpt) and b is None:
        r = SymBool(z3.Not(a.isnone) if neg else a.isnone)
        return r
    if isinstance(b, SymOpt) and a is None:
        return SymBool(z3.Not(b.isnone) if neg else b.isnone)
    r = a is b
    return (not r) if neg else r


def in_(x, coll, neg):
    if hasattr(coll, '__vc_in__'):
        r = coll.__vc_in__(x)
        if isinstance(r, SymBool):
            return SymBool(z3.Not(r.t)) if neg else r
        return (not r) if neg else r
    if isinstance(coll, SymIter):
        g = z3.Const('__g', K)
        e = coll.elem(g)
        if isinstance(e, SymKey) and e.t.eq(g):
            r = SymBool(coll.member(liftk(x)))
            return SymBool(z3.Not(r.t)) if neg else r
        raise Unmodelled('membership in a symbolic list of non-keys')
    if isinstance(x, SymKey):
        # symbolic key in a concrete collection of strings
        if isinstance(coll, (dict, list, tuple, set, frozenset)) or hasattr(coll, 'keys'):
            items = list(coll.keys()) if hasattr(coll, 'keys') else list(coll)
            if all(isinstance(i, (str, SymKey)) for i in items):
                t = z3.Or(*[x.t == liftk(i) for i in items]) if items else z3.BoolVal(False)
                return SymBool(z3.Not(t) if neg else t)
        raise Unmodelled('symbolic key tested against %r' % type(coll))
    if isinstance(x, (SymNum, SymTime)):
        raise Unmodelled('symbolic value tested for membership in %r' % type(coll))
    r = x in coll
    return (not r) if neg else r


FMT_KEY = {}      # literal -> function(args) -> key term, for literals whose result is used as DATA (buffer keys)


def fmt(lit, args):
    a = args if isinstance(args, tuple) else (args,)
    if any(_issym(x) or isinstance(x, (OpaqueStr,)) or type(x).__name__ == 'OpaqueId' for x in a):
        h = FMT_KEY.get(lit)
        if h is not None:
            return h(a)
        return OpaqueStr('<text>')
    return lit % args


def _guarded(thunk, guard_terms):
    c = ctx()
    if c is None or not guard_terms:
        return thunk()
    n = len(c.guards)
    c.guards.extend(guard_terms)
    try:
        return thunk()
    finally:
        del c.guards[n:]


def and_(*thunks):
    vals = []
    for t in thunks:
        v = _guarded(t, list(vals))
        if isinstance(v, SymBool):
            vals.append(v.t)
        elif isinstance(v, z3.BoolRef):
            vals.append(v)
        elif not v:
            return v if not vals else SymBool(z3.BoolVal(False))
        # concrete truthy: contributes nothing (value semantics of `and` for truthy non-bools not needed)
    if not vals:
        return v
    return SymBool(z3.And(*vals))


def or_(*thunks):
    vals = []
    for t in thunks:
        v = _guarded(t, [z3.Not(x) for x in vals])
        if isinstance(v, SymBool):
            vals.append(v.t)
        elif isinstance(v, z3.BoolRef):
            vals.append(v)
        elif v:
            return v if not vals else SymBool(z3.BoolVal(True))
    if not vals:
        return v
    return SymBool(z3.Or(*vals))


def not_(v):
    if isinstance(v, SymBool):
        return SymBool(z3.Not(v.t))
    return not v


def ite(c, a, b):
    if isinstance(c, SymBool):
        x, y = _guarded(a, [c.t]), _guarded(b, [z3.Not(c.t)])
        return SymNum(z3.If(c.t, lift(x), lift(y)))
    return a() if c else b()


def prebind(env, names):
    return tuple(env.get(n, UNBOUND) for n in names)


class VCNamespace:
    UNBOUND = UNBOUND
    prebind = staticmethod(prebind)
    comp = staticmethod(comp)
    unpack = staticmethod(unpack)
    loop = staticmethod(loop)
    wloop = staticmethod(wloop)
    new_dict = staticmethod(new_dict)
    new_list = staticmethod(new_list)
    new_set = staticmethod(new_set)
    merge = staticmethod(merge)
    is_ = staticmethod(is_)
    in_ = staticmethod(in_)
    fmt = staticmethod(fmt)
    and_ = staticmethod(and_)
    or_ = staticmethod(or_)
    not_ = staticmethod(not_)
    ite = staticmethod(ite)
