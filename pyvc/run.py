"""Harness registry, per-harness verification (explore all paths, discharge every obligation), replay."""
import fractions
import json
import os
import random
import time
import traceback

import z3

from . import core, install, heap
from .core import Ctx, Unmodelled, Abort, Reject, explore, set_ctx

OB_RLIMIT = 15_000_000            # deterministic z3 resource limit per obligation (>= 100x the largest need seen)

HARNESSES = {}
KNOWN_REGIONS = set()  # input regions of open known findings: short solver budget there (the native fallback decides)
FAST = [False]         # canary runs: short solver budget (a mutant left undecided goes to the bounded fallback)


class Harness:
    def __init__(self, name, fn, props, layer, functions, doc, also=()):
        self.name, self.fn, self.props, self.layer, self.functions, self.doc = name, fn, props, layer, functions, doc
        self.also = list(also)      # properties for which this harness also runs; only explicitly tagged obligations count
        self.canaries = []          # (label, owner-getter, funcname, old, new, expected-clause-substring)
        self.conc = True            # harness text supports concrete mode (replay / bounded fallback)


def harness(name, props, layer='L0', functions=(), also=()):
    def deco(fn):
        h = Harness(name, fn, list(props), layer, list(functions), (fn.__doc__ or '').strip(), also)
        HARNESSES[name] = h
        fn.harness = h
        return fn
    return deco


def canary(label, owner, funcname, old, new, expect=None):
    """In-memory mutant of the real source that the harness must refute (standing vacuity check)."""
    def deco(fn):
        fn.harness.canaries.append((label, owner, funcname, old, new, expect))
        return fn
    return deco


# ----------------------------------------------------------------------------------------------- solving
def _val(v):
    if v is None:
        return None
    if z3.is_rational_value(v):
        return str(v.as_fraction())
    if z3.is_int_value(v):
        return v.as_long()
    if z3.is_algebraic_value(v):
        return str(v.approx(20).as_fraction())
    if z3.is_true(v):
        return True
    if z3.is_false(v):
        return False
    return str(v)


def num(s):
    """model value -> float"""
    if isinstance(s, bool) or s is None:
        return s
    if isinstance(s, int):
        return s
    try:
        return float(fractions.Fraction(s))
    except (ValueError, ZeroDivisionError):
        return s


def discharge(ob):
    s = z3.Solver()
    s.set('rlimit', OB_RLIMIT)
    # wall-clock safety net only; the deterministic limit is rlimit.  A `False` goal asks for a model of the whole path
    # condition (feasibility of an unexpected exception): kept short, the native fallback decides it otherwise
    fast = z3.is_false(ob.goal) or FAST[0] or ob.meta.get('region') in KNOWN_REGIONS
    s.set('timeout', (2500 if FAST[0] else 6000) if fast else 40000)
    for p in ob.pc:
        s.add(p)
    s.add(z3.Not(ob.goal))
    t0 = time.time()
    try:
        r = s.check()
    except z3.Z3Exception as e:
        r = z3.unknown
    ob.seconds = time.time() - t0
    ob.backend = 'z3'
    try:
        st = s.statistics()
        ob.rlimit = int(st.get_key_value('rlimit count')) if 'rlimit count' in st.keys() else 0
    except Exception:
        ob.rlimit = 0
    if r == z3.unsat:
        ob.verdict = 'discharged'
    elif r == z3.sat:
        ob.verdict = 'refuted'
        ob.model = s.model()
    else:
        ob.verdict = 'undecided'
        ob.meta['reason'] = 'z3: ' + s.reason_unknown()
        _try_cvc5(ob, s)
    return ob


def _try_cvc5(ob, s):
    """second back end for queries z3 leaves unknown (quantifier-free, no lambdas)"""
    if FAST[0]:
        return
    try:
        import subprocess
        txt = s.to_smt2()
        if 'lambda' in txt:
            return
        t0 = time.time()
        p = subprocess.run(['/usr/bin/cvc5', '--lang=smt2', '--tlimit=20000', '--nl-ext-tplanes'], input=txt, capture_output=True,
                           text=True, timeout=40)
        out = p.stdout.strip().splitlines()
        ob.seconds += time.time() - t0
        if out and out[0] == 'unsat':
            ob.verdict, ob.backend = 'discharged', 'cvc5'
    except Exception:
        pass


class ModelValues(dict):
    """name -> value mapping backed by a z3 model (concrete replay)"""

    def __init__(self, model, consts):
        super().__init__()
        self.model, self.consts = model, consts

    def __contains__(self, name):
        return dict.__contains__(self, name) or name in self.consts

    def __getitem__(self, name):
        if dict.__contains__(self, name):
            return dict.__getitem__(self, name)
        v = num(_val(self.model.eval(self.consts[name], model_completion=True)))
        self[name] = v
        return v


def model_dict(ob, consts):
    out = {}
    for n, c in consts.items():
        if z3.is_array(c) or '!' in n and False:
            continue
        try:
            out[n] = _val(ob.model.eval(c, model_completion=True))
        except z3.Z3Exception:
            pass
    return out


def replay_conc(h, values, model=None, consts=None):
    """Run harness h natively (no shims) on concrete inputs; returns list of (clause, kind, ok, meta) or raises Reject."""
    was = install._state['installed']
    install.uninstall()
    try:
        c = Ctx(h.name, h.props, mode='conc', values=values)
        c.model, c.model_consts = model, consts
        if model is not None and consts:
            # the finite key universe of the replay: every key constant of the symbolic run (declared witnesses AND the
            # engine's own skolems such as loop keys), at its model value
            for nm, k in consts.items():
                if k.sort() == core.K and not z3.is_array(k):
                    try:
                        v = model.eval(k, model_completion=True).as_long()
                        c.keyorder[core.key_to_str(v)] = v
                    except Exception:
                        pass
        set_ctx(c)
        try:
            _native(h, c)
        except Abort:
            pass
        return c.conc_results
    finally:
        set_ctx(None)
        if was:
            install.install()


def verify_harness(name, do_replay=True):
    """Symbolic verification of one harness.  Returns a picklable result dict."""
    h = HARNESSES[name]
    t0 = time.time()
    res = {'harness': name, 'props': h.props, 'layer': h.layer, 'functions': h.functions, 'obligations': [], 'paths': 0,
           'error': None, 'notes': [], 'seconds': 0.0}
    c = Ctx(name, h.props)
    try:
        explore(c, _wrap(h, c))
    except Unmodelled as e:
        res['error'] = 'Unmodelled: %s' % e
    except Exception as e:
        res['error'] = 'engine: %s\n%s' % (repr(e), traceback.format_exc(limit=8))
    finally:
        set_ctx(None)
    res['paths'] = c.npaths
    res['notes'] = c.notes
    res['explore_seconds'] = time.time() - t0
    nsamp = 0
    for ob in c.obs:
        discharge(ob)
        d = {'id': ob.oid, 'clause': ob.clause, 'kind': ob.kind, 'props': ob.props, 'verdict': ob.verdict,
             'backend': ob.backend, 'seconds': round(ob.seconds, 4), 'rlimit': ob.rlimit, 'meta': _jsonable(ob.meta),
             'npc': len(ob.pc)}
        if ob.verdict != 'discharged' or (nsamp < 3 and ob.kind == 'P' and len(ob.pc) > 3):
            # pretty-printing z3 terms is slow: only for samples and for everything not discharged
            nsamp += ob.verdict == 'discharged'
            d['goal'] = _short(ob.goal)
            d['pc_tail'] = [_short(p) for p in ob.pc[-4:]]
        if ob.verdict == 'refuted':
            d['model'] = model_dict(ob, c.consts)
            if do_replay and h.conc:
                d['replay'] = _replay_ob(h, ob, c)
        res['obligations'].append(d)
        if FAST[0] and ob.verdict == 'refuted':
            break              # canary run: one refutation is all that is asked for
    res['seconds'] = time.time() - t0
    return res


def _native(h, c):
    """run the harness natively with the library's global switch PRINT_EVENTS as one more input (model value in a replay,
    random otherwise); whatever the library prints is discarded"""
    import contextlib
    import io
    from qstrader import settings as _qs
    _qs.PRINT_EVENTS = bool(c.bool('settings.PRINT_EVENTS'))
    try:
        with contextlib.redirect_stdout(io.StringIO()):
            return h.fn(c)
    finally:
        _qs.PRINT_EVENTS = False


def _wrap(h, c):
    def run(c):
        try:
            return h.fn(c)
        except (Abort, Unmodelled):
            raise
        except Exception as e:
            # an exception the contract did not anticipate: the documented behaviour is normal termination
            tb = traceback.extract_tb(e.__traceback__)
            site = next(('%s:%d' % (f.name, f.lineno) for f in reversed(tb) if '/pyvc/' not in f.filename and '/contracts/' not in f.filename), '?')
            c.ob('no-unexpected-exception', z3.BoolVal(False), kind='P', exc=type(e).__name__, site=site, msg=str(e)[:160])
            return None
    return run


def _replay_ob(h, ob, c):
    try:
        vals = ModelValues(ob.model, c.consts)
        results = replay_conc(h, vals, ob.model, c.consts)
    except Reject as e:
        return {'reproduced': False, 'why': 'model violates an assumption natively (float rounding?): %s' % e}
    except Unmodelled as e:
        return {'reproduced': False, 'why': 'replay not possible: %s' % e}
    except Abort:
        return {'reproduced': False, 'why': 'replay path aborted'}
    except Exception as e:
        if ob.clause == 'no-unexpected-exception' and type(e).__name__ == ob.meta.get('exc'):
            return {'reproduced': True, 'observed': 'raises %s: %s' % (type(e).__name__, str(e)[:200]), 'inputs': _jsonable(dict(vals))}
        return {'reproduced': False, 'why': 'native run raised %r' % (e,), 'inputs': _jsonable(dict(vals))}
    bad = [(cl, k, m) for cl, k, ok, m in results if not ok]
    same = [x for x in bad if x[0] == ob.clause]
    out = {'inputs': _jsonable(dict(vals)), 'native_failed_clauses': sorted({x[0] for x in bad})}
    if same:
        out['reproduced'] = True
        out['observed'] = _jsonable(same[0][2])
    elif bad and ob.kind == 'A':
        pbad = [x for x in bad if x[1] == 'P']
        out['reproduced'] = bool(pbad)
        out['property_clauses_violated'] = sorted({x[0] for x in pbad})
    else:
        out['reproduced'] = False
        out['why'] = 'the real code satisfies the clause on the concretised model (abstraction or tolerance)'
    return out


def random_conc(h, n, seed):
    """bounded run-time check of the same contract: random concrete inputs through the real code until n of them meet the
    precondition (at most min(12n, n+6000) drawn - rejected draws cost nothing but the generator)"""
    rng = random.Random(seed)
    stats = {'tried': 0, 'accepted': 0, 'failures': [], 'clauses': {}}
    was = install._state['installed']
    install.uninstall()
    try:
        while stats['accepted'] < n and stats['tried'] < min(12 * n, n + 6000):
            c = Ctx(h.name, h.props, mode='conc', values={}, rng=rng)
            c.model = c.model_consts = None
            set_ctx(c)
            stats['tried'] += 1
            try:
                _native(h, c)
            except Reject:
                continue
            except Abort:
                pass
            except Unmodelled:
                raise
            except Exception as e:
                tb = traceback.extract_tb(e.__traceback__)
                site = next(('%s:%d' % (f.name, f.lineno) for f in reversed(tb) if '/pyvc/' not in f.filename and '/contracts/' not in f.filename), '?')
                c.conc_results.append(('no-unexpected-exception', 'P', False, {'exc': type(e).__name__, 'site': site, 'msg': str(e)[:160]}))
            stats['accepted'] += 1
            for cl, k, ok, m in c.conc_results:
                e = stats['clauses'].setdefault(cl, [0, 0])
                e[0] += 1
                if not ok:
                    e[1] += 1
                    if e[1] == 1 and len(stats['failures']) < 40:       # the first failing input of every distinct clause
                        stats['failures'].append({'clause': cl, 'kind': k, 'inputs': _jsonable(c.values), 'meta': _jsonable(m)})
    finally:
        set_ctx(None)
        if was:
            install.install()
    return stats


def _short(t, n=240):
    s = str(t).replace('\n', ' ')
    s = ' '.join(s.split())
    return s if len(s) <= n else s[:n] + '...'


def _jsonable(x):
    try:
        json.dumps(x)
        return x
    except (TypeError, ValueError):
        if isinstance(x, dict):
            return {str(k): _jsonable(v) for k, v in x.items()}
        if isinstance(x, (list, tuple)):
            return [_jsonable(v) for v in x]
        return str(x)


def crosscheck(h, n, seed):
    """CPython cross-check of the engine (DESIGN 2.9): the harness in concrete mode on the PRISTINE library and on the
    library with shims + mechanically rewritten functions installed must agree clause by clause on the same inputs."""
    out = {'tried': 0, 'compared': 0, 'disagreements': []}
    for i in range(n):
        res = []
        for installed in (False, True):
            rng = random.Random(seed * 7919 + i)
            (install.install if installed else install.uninstall)()
            c = Ctx(h.name, h.props, mode='conc', values={}, rng=rng)
            c.model = c.model_consts = None
            set_ctx(c)
            try:
                try:
                    h.fn(c)
                    r = [(cl, ok) for cl, k, ok, m in c.conc_results]
                except Reject:
                    r = 'reject'
                except Abort:
                    r = [(cl, ok) for cl, k, ok, m in c.conc_results]
                except Unmodelled as e:
                    r = 'unmodelled: %s' % e
                except Exception as e:
                    r = 'exception %s' % type(e).__name__
            finally:
                set_ctx(None)
            res.append(r)
        install.install()
        out['tried'] += 1
        if res[0] == 'reject' and res[1] == 'reject':
            continue
        out['compared'] += 1
        if res[0] != res[1] and len(out['disagreements']) < 5:
            out['disagreements'].append({'sample': i, 'pristine': str(res[0])[:3000], 'installed': str(res[1])[:3000]})
    return out
