"""Bounded stand-in for property C17: performance statistics equal their definitions for every positive
equity curve (returns / cumulative returns, weekly-monthly-yearly aggregates, drawdown series, maximum
drawdown and its duration, CAGR, Sharpe, Sortino), are invariant under a positive rescaling of equity, and
the tear-sheet and the JSON export report the same numbers.

All `spec_*` functions are written from the property statement in plain Python (datetime, math, lists).
They never call the code under test.
"""
import datetime
import hashlib
import itertools
import json
import math
import os
import random
import tempfile
import time
import warnings

import numpy as np
import pandas as pd

os.environ.setdefault('MPLBACKEND', 'Agg')  # the tear-sheet module imports pyplot; never open a GUI backend

import qstrader  # noqa: E402
from qstrader import settings
import qstrader.statistics.performance as perf
from qstrader.statistics.json_statistics import JSONStatistics
from qstrader.statistics.tearsheet import TearsheetStatistics

assert os.path.realpath(qstrader.__file__).startswith(
    os.path.realpath(os.environ.get("QSTRADER_ROOT", "/repo"))
), qstrader.__file__
settings.PRINT_EVENTS = os.environ.get("PYVC_AMBIENT") == "1"      # (ambient re-run: the library default True, output discarded)

PROPERTY = "C17"
PROPERTIES = ["C17"]

SMALL_FACTORS = (0.9, 1.0, 1.1)
SMALL_STARTS = ('2015-12-21', '2020-12-21', '2024-02-20')
STARTS = ('2015-12-21', '2020-12-21', '2024-02-20', '2023-12-20', '2019-12-23', '2018-06-01')
SCALES = (0.001, 3.0, 1234.5678, 1.0e6)

BOUND = (
    "Positive equity curves of length 2-400 on Monday-Friday date indexes starting 2015-12-21, 2020-12-21, "
    "2024-02-20, 2023-12-20, 2019-12-23 or 2018-06-01 (crossing month, year, leap-day and ISO-week-53/1 "
    "boundaries), index either datetime.date objects (what the backtest produces) or a DatetimeIndex, "
    "periods in {252, 252, 52, 12, 365, 365.25, 50.4} (annualisation factors need not be whole numbers); kinds: monotone up, monotone down, first-point-is-peak, flat stretches, "
    "random walks, down-then-up, exact-level curves (exact ties with earlier peaks) and the small curves made of "
    "daily factors {0.9, 1.0, 1.1}. Each curve is also re-run multiplied by one of {0.001, 3, 1234.5678, 1e6}. "
    "quick: seeded sample of 200 curves (random.Random(seed)): 4 fixed, 70 of the small curves, 6 year-spanning curves (one per kind, length 262-400) and 120 sampled curves. "
    "thorough: ALL small curves of length 2-6 over the three factors x three start dates (1089, exhaustive) "
    "plus 3000 sampled curves. Tolerance rel 1e-9 / abs 1e-12; durations and group keys exact."
)

CLAUSES = (
    'cumulative-returns',
    'weekly-aggregates-compound-to-total', 'monthly-aggregates-compound-to-total',
    'yearly-aggregates-compound-to-total',
    'drawdown-series', 'max-drawdown', 'drawdown-duration', 'cagr', 'sharpe', 'sortino',
    'scale-invariance', 'tearsheet-json-agree',
)

RULE = (
    "Cases are (start date, index flavour, periods, scale, equity list); generated from random.Random(seed) "
    "(per chunk in thorough) or enumerated (small curves); deduplicated by sha1 of the canonical JSON of "
    "(start, index, periods, equity). A case is non-trivial when the equity is not constant. Sharpe is "
    "skipped (not counted) when the population deviation of the returns is <= 1e-6 x max|r|; Sortino when "
    "there is no negative return or the deviation of the negative returns is <= 1e-6 x max|r<0| (one negative "
    "return, or all equal up to rounding: the quotient is rounding noise). Duration (a discrete quantity) is "
    "checked against the reporters only when no two equity values of different flat runs are within 1e-9 of "
    "each other (otherwise exp/log rounding inside the reporters decides ties); the direct call of "
    "create_drawdowns is always checked, ties included."
)


# --------------------------------------------------------------------------------------------------
# Spec (independent, pure Python, from the property statement)
# --------------------------------------------------------------------------------------------------
def spec_business_days(start_iso, n):
    d = datetime.date.fromisoformat(start_iso)
    out = []
    while len(out) < n:
        if d.weekday() < 5:
            out.append(d)
        d += datetime.timedelta(days=1)
    return out


def spec_returns(equity):
    return [0.0] + [equity[t] / equity[t - 1] - 1.0 for t in range(1, len(equity))]


def spec_cumulative(returns):
    out = []
    c = 1.0
    for r in returns:
        c *= (1.0 + r)
        out.append(c)
    return out


def spec_group_key(kind, d):
    if kind == 'weekly':
        return (d.year, d.month, d.isocalendar()[1])
    if kind == 'monthly':
        return (d.year, d.month)
    return (d.year,)


def spec_aggregate(dates, returns, kind):
    """{group key: compounded return of the group}, groups being calendar (year, month, ISO week) /
    (year, month) / (year,)."""
    prod = {}
    for d, r in zip(dates, returns):
        k = spec_group_key(kind, d)
        prod[k] = prod.get(k, 1.0) * (1.0 + r)
    return {k: v - 1.0 for k, v in prod.items()}


def spec_drawdowns(values):
    """drawdown_t = 1 - v_t / max(v_0..v_t) (running maximum INCLUDING the first observation);
    max drawdown; longest run of consecutive dates strictly under water."""
    dd = []
    hwm = None
    run = 0
    longest = 0
    for v in values:
        hwm = v if hwm is None or v > hwm else hwm
        dd.append(1.0 - v / hwm)
        if v < hwm:
            run += 1
            longest = max(longest, run)
        else:
            run = 0
    return dd, max(dd), longest


def _mean(xs):
    return math.fsum(xs) / len(xs)


def _pstdev(xs):
    m = _mean(xs)
    return math.sqrt(math.fsum((x - m) ** 2 for x in xs) / len(xs))


def spec_cagr(c_final, n_obs, periods):
    return c_final ** (float(periods) / n_obs) - 1.0


def spec_sharpe(returns, periods):
    """None when the denominator is degenerate."""
    big = max(abs(r) for r in returns)
    sd = _pstdev(returns)
    if big == 0.0 or sd <= 1e-6 * big:
        return None
    return math.sqrt(periods) * _mean(returns) / sd


def spec_sortino(returns, periods):
    neg = [r for r in returns if r < 0]
    if not neg:
        return None
    sd = _pstdev(neg)
    if sd <= 1e-6 * max(abs(r) for r in neg):
        return None
    return math.sqrt(periods) * _mean(returns) / sd


def spec_ambiguous(equity):
    """True when two equity values that are not part of one flat run are within 1e-9 (relative) of each other:
    then rounding inside exp(cumsum(log(1+r))) may decide whether a level is 'under water'."""
    run = 0
    tagged = []
    for t, e in enumerate(equity):
        if t and e != equity[t - 1]:
            run += 1
        tagged.append((e, run))
    tagged.sort()
    for (a, ra), (b, rb) in zip(tagged, tagged[1:]):
        if ra != rb and abs(b - a) <= 1e-9 * abs(b):
            return True
    return False


def first_point_is_strict_peak_somewhere(equity):
    """whether at some date every value after the first one so far is still strictly below the first value
    (the only situation in which a high-water mark that forgets the first observation is wrong)."""
    m = None
    for v in equity[1:]:
        m = v if m is None or v > m else m
        if m < equity[0]:
            return True
    return False


# --------------------------------------------------------------------------------------------------
# helpers
# --------------------------------------------------------------------------------------------------
def _close(a, b):
    try:
        a = float(a)
        b = float(b)
    except Exception:
        return False
    if math.isnan(a) or math.isnan(b) or math.isinf(a) or math.isinf(b):
        return False
    return math.isclose(a, b, rel_tol=1e-9, abs_tol=1e-12)


def _close_or_same(a, b):
    """library-vs-library comparison: both nan / both the same inf count as equal."""
    try:
        a = float(a)
        b = float(b)
    except Exception:
        return False
    if math.isnan(a) or math.isnan(b):
        return math.isnan(a) and math.isnan(b)
    if math.isinf(a) or math.isinf(b):
        return a == b
    return math.isclose(a, b, rel_tol=1e-9, abs_tol=1e-12)


def _list_close(obs, exp, cmp=_close):
    """first differing position or None."""
    if len(obs) != len(exp):
        return 'len %d != %d' % (len(obs), len(exp))
    for i, (o, e) in enumerate(zip(obs, exp)):
        if not cmp(o, e):
            return i
    return None


def _js(x):
    if isinstance(x, (np.floating, np.integer)):
        x = x.item()
    if isinstance(x, float) and (math.isnan(x) or math.isinf(x)):
        return repr(x)
    if isinstance(x, (int, float, str, bool)) or x is None:
        return x
    if isinstance(x, (list, tuple)):
        return [_js(i) for i in x]
    if isinstance(x, dict):
        return {str(k): _js(v) for k, v in x.items()}
    return repr(x)


def _short(xs, at=None, width=4):
    """a JSON-able excerpt of a long list around position `at`."""
    xs = list(xs)
    if len(xs) <= 2 * width + 1:
        return _js(xs)
    if not isinstance(at, int):
        at = 0
    lo = max(0, at - width)
    return {'from_index': lo, 'values': _js(xs[lo:at + width + 1]), 'len': len(xs)}


class _Acc(object):
    def __init__(self):
        self.clauses = {c: [0, 0] for c in CLAUSES}
        self.failures = []
        self.n_failures = 0

    def check(self, clause, ok, case, where, observed, expected):
        c = self.clauses[clause]
        c[0] += 1
        if not ok:
            c[1] += 1
            self.n_failures += 1
            if len(self.failures) < 60:
                fc = dict(case)
                fc['first_point_is_strict_peak_somewhere'] = first_point_is_strict_peak_somewhere(case['equity'])
                fc['clause'] = clause
                fc['where'] = where
                self.failures.append({'clause': clause, 'case': _js(fc), 'observed': _js(observed),
                                      'expected': _js(expected), '_size': len(case['equity'])})

    def merge(self, other):
        for k, (a, b) in other.clauses.items():
            self.clauses[k][0] += a
            self.clauses[k][1] += b
        self.n_failures += other.n_failures
        self.failures.extend(other.failures)
        self.failures.sort(key=lambda f: f['_size'])
        del self.failures[60:]


def _call(fn, *a, **kw):
    try:
        return fn(*a, **kw)
    except Exception as e:
        return 'EXC:%s:%s' % (type(e).__name__, e)


def _index(dates, flavour):
    if flavour == 'ts':
        return pd.DatetimeIndex([pd.Timestamp(d.isoformat()) for d in dates])
    return pd.Index(list(dates), dtype=object)


def _agg_to_dict(series):
    out = {}
    for k, v in series.items():
        if not isinstance(k, tuple):
            k = (k,)
        out[tuple(int(i) for i in k)] = float(v)
    return out


def _vals(tuple_list):
    return [v for _, v in tuple_list]


def _check_hc(acc, case, block, dates, rr, via):
    """the chart-ready forms of the aggregates carry the same numbers: monthly [month-1, year ordinal, 100 x value] for every
       (year, month) of the curve, yearly 100 x value in year order"""
    exp_m = spec_aggregate(dates, rr, 'monthly')
    years = sorted({k[0] for k in exp_m})
    got = {}
    dup = False
    for row in block.get('monthly_agg_returns_hc', []):
        try:
            key = (years[int(row[1])], int(row[0]) + 1)
        except Exception:
            key = ('bad-row', tuple(row))
        dup = dup or key in got
        got[key] = float(row[2]) / 100.0
    ok = (not dup) and sorted(got, key=str) == sorted(exp_m, key=str) and all(_close(got[k], exp_m[k]) for k in exp_m)
    acc.check('monthly-aggregates-compound-to-total', ok, case, {'via': via, 'what': 'monthly_agg_returns_hc'},
              sorted(got.items(), key=str)[:6], sorted(exp_m.items())[:6])
    exp_y = spec_aggregate(dates, rr, 'yearly')
    want = [exp_y[k] for k in sorted(exp_y)]
    goty = [float(v) / 100.0 for v in block.get('yearly_agg_returns_hc', [])]
    ok = len(goty) == len(want) and all(_close(a, b) for a, b in zip(goty, want))
    acc.check('yearly-aggregates-compound-to-total', ok, case, {'via': via, 'what': 'yearly_agg_returns_hc'}, goty[:6], want[:6])


def _reporters(dates, equity, flavour, periods):
    """Run the two real reporters on one curve; returns (json_stats_dict, tearsheet_dict) or error strings."""
    idx = _index(dates, flavour)
    df = pd.DataFrame({'Equity': list(equity)}, index=idx)

    def _json():
        # the constructor runs _calculate_returns(curve) and _calculate_statistics(curve) on the frame
        js = JSONStatistics(equity_curve=df.copy(), target_allocations=pd.DataFrame(), periods=periods)
        return js.statistics['strategy']

    def _tear():
        ts = TearsheetStatistics(strategy_equity=df.copy(), periods=periods)
        return ts.get_results(df.copy())

    return _call(_json), _call(_tear)


# --------------------------------------------------------------------------------------------------
# One case
# --------------------------------------------------------------------------------------------------
def _run_case_inner(case, acc):
    equity = [float(e) for e in case['equity']]
    n = len(equity)
    periods = case['periods']
    flavour = case['index']
    dates = spec_business_days(case['start'], n)
    idx = _index(dates, flavour)

    r = spec_returns(equity)
    c = spec_cumulative(r)
    total = equity[-1] / equity[0]
    ambiguous = spec_ambiguous(equity)
    dd, mdd, dur = spec_drawdowns(c)
    dd_e, mdd_e, dur_e = spec_drawdowns(equity)
    s_r = pd.Series(r, index=idx)
    s_c = pd.Series(c, index=idx)

    # ---- direct calls of qstrader.statistics.performance on the spec's returns / cumulative returns ----
    for kind in ('weekly', 'monthly', 'yearly'):
        clause = '%s-aggregates-compound-to-total' % kind
        got = _call(lambda: _agg_to_dict(perf.aggregate_returns(s_r, kind)))
        exp = spec_aggregate(dates, r, kind)
        if isinstance(got, str):
            acc.check(clause, False, case, {'via': 'aggregate_returns', 'what': 'runs'}, got, None)
            continue
        acc.check(clause, sorted(got) == sorted(exp), case, {'via': 'aggregate_returns', 'what': 'group-keys'},
                  sorted(got)[:8], sorted(exp)[:8])
        if sorted(got) == sorted(exp):
            bad = [k for k in exp if not _close(got[k], exp[k])]
            acc.check(clause, not bad, case, {'via': 'aggregate_returns', 'what': 'group-values'},
                      [[list(k), got[k]] for k in bad[:3]], [[list(k), exp[k]] for k in bad[:3]])
        prod = 1.0
        for v in got.values():
            prod *= (1.0 + v)
        acc.check(clause, _close(prod, total), case, {'via': 'aggregate_returns', 'what': 'compound-to-total'},
                  prod, total)

    # on the cumulative-return series, and on the raw equity levels (exact ties with earlier peaks survive there)
    held = []
    for via, ser, x_dd, x_mdd, x_dur in (('create_drawdowns(cum_returns)', s_c, dd, mdd, dur),
                                         ('create_drawdowns(equity)', pd.Series(equity, index=idx), dd_e, mdd_e, dur_e)):
        res = _call(perf.create_drawdowns, ser)
        if isinstance(res, str):
            for clause in ('drawdown-series', 'max-drawdown', 'drawdown-duration'):
                acc.check(clause, False, case, {'via': via, 'what': 'runs'}, res, None)
        else:
            held.append((via, res, x_dd))
            o_dd = [float(x) for x in res[0].tolist()]
            at = _list_close(o_dd, x_dd)
            acc.check('drawdown-series', at is None, case, {'via': via, 'first_diff_at': at},
                      _short(o_dd, at), _short(x_dd, at))
            acc.check('max-drawdown', _close(res[1], x_mdd), case, {'via': via}, res[1], x_mdd)
            acc.check('drawdown-duration', int(res[2]) == x_dur, case, {'via': via}, res[2], x_dur)

    # a result handed out stays what it was when another curve is evaluated afterwards (the tearsheet holds the strategy's
    # drawdowns while it evaluates the benchmark)
    _call(perf.create_drawdowns, pd.Series(list(reversed(equity)), index=idx))      # another curve of the same length
    for via, res, x_dd in held:
        o_dd = [float(x) for x in res[0].tolist()]
        at = _list_close(o_dd, x_dd)
        acc.check('drawdown-series', at is None, case, {'via': via, 'what': 're-read after the later calls', 'first_diff_at': at},
                  _short(o_dd, at), _short(x_dd, at))

    got = _call(perf.create_cagr, s_c, periods)
    exp = _call(spec_cagr, c[-1], n, periods)
    if not isinstance(exp, str):
        acc.check('cagr', _close(got, exp), case, {'via': 'create_cagr'}, got, exp)
    sh = spec_sharpe(r, periods)
    if sh is not None:
        got = _call(perf.create_sharpe_ratio, s_r, periods)
        acc.check('sharpe', _close(got, sh), case, {'via': 'create_sharpe_ratio'}, got, sh)
    so = None if ambiguous else spec_sortino(r, periods)
    if so is not None:
        got = _call(perf.create_sortino_ratio, s_r, periods)
        acc.check('sortino', _close(got, so), case, {'via': 'create_sortino_ratio'}, got, so)
    neg = [x for x in r if x < 0]
    if len(neg) == 1 and _mean(r) != 0.0:
        # exactly ONE losing period: the population deviation of a single value is exactly 0, the ratio is +-infinity
        got = _call(perf.create_sortino_ratio, s_r, periods)
        exp_inf = math.copysign(float('inf'), _mean(r))
        acc.check('sortino', _close_or_same(got, exp_inf), case, {'via': 'create_sortino_ratio', 'what': 'one-losing-period'}, got, exp_inf)

    # ---- the two reporters on the equity frame ----
    js, tear = _reporters(dates, equity, flavour, periods)
    if isinstance(js, str) or isinstance(tear, str):
        acc.check('tearsheet-json-agree', False, case, {'what': 'reporters-run'}, [js if isinstance(js, str) else 'ok',
                  tear if isinstance(tear, str) else 'ok'], 'both run')
        return
    j_r, j_c, j_dd = _vals(js['returns']), _vals(js['cum_returns']), _vals(js['drawdowns'])
    t_r = [float(x) for x in tear['returns'].tolist()]
    t_c = [float(x) for x in tear['cum_returns'].tolist()]
    t_dd = [float(x) for x in tear['drawdowns'].tolist()]

    exp_c = [e / equity[0] for e in equity]
    for via, o_r, o_c in (('json', j_r, j_c), ('tearsheet', t_r, t_c)):
        at = _list_close(o_r, r)
        acc.check('cumulative-returns', at is None, case, {'via': via, 'what': 'returns', 'first_diff_at': at},
                  _short(o_r, at), _short(r, at))
        at = _list_close(o_c, exp_c)
        acc.check('cumulative-returns', at is None, case,
                  {'via': via, 'what': 'cumulative==equity/first', 'first_diff_at': at},
                  _short(o_c, at), _short(exp_c, at))
    for via, o_dd, o_m, o_d in (('json', j_dd, js['max_drawdown'], js['max_drawdown_duration']),
                                ('tearsheet', t_dd, tear['max_drawdown'], tear['max_drawdown_duration'])):
        at = _list_close(o_dd, dd_e)
        acc.check('drawdown-series', at is None, case, {'via': via, 'first_diff_at': at},
                  _short(o_dd, at), _short(dd_e, at))
        acc.check('max-drawdown', _close(o_m, mdd_e), case, {'via': via}, o_m, mdd_e)
        if not ambiguous:
            acc.check('drawdown-duration', int(o_d) == dur_e, case, {'via': via}, o_d, dur_e)
    for kind, key in (('monthly', 'monthly_agg_returns'), ('yearly', 'yearly_agg_returns')):
        clause = '%s-aggregates-compound-to-total' % kind
        got = {}
        for k, v in js[key]:
            got[tuple(int(i) for i in (k if isinstance(k, tuple) else (k,)))] = float(v)
        exp = spec_aggregate(dates, r, kind)
        ok = sorted(got) == sorted(exp) and all(_close(got[k], exp[k]) for k in exp)
        acc.check(clause, ok, case, {'via': 'json', 'what': key}, sorted(got.items())[:6], sorted(exp.items())[:6])
    _check_hc(acc, case, js, dates, r, 'json')
    exp = _call(spec_cagr, total, n, periods)
    if not isinstance(exp, str):
        acc.check('cagr', _close(js['cagr'], exp), case, {'via': 'json'}, js['cagr'], exp)
    if sh is not None:
        acc.check('sharpe', _close(js['sharpe'], sh), case, {'via': 'json'}, js['sharpe'], sh)
        acc.check('sharpe', _close(tear['sharpe'], sh), case, {'via': 'tearsheet'}, tear['sharpe'], sh)
    if so is not None:
        acc.check('sortino', _close(js['sortino'], so), case, {'via': 'json'}, js['sortino'], so)

    # ---- a benchmark curve gets ITS OWN statistics (the reversed curve on the same dates), the strategy block is unaffected ----
    rev = list(reversed(equity))
    r_b = spec_returns(rev)
    jb = _call(lambda: JSONStatistics(equity_curve=pd.DataFrame({'Equity': list(equity)}, index=idx),
                                      target_allocations=pd.DataFrame(), periods=periods,
                                      benchmark_curve=pd.DataFrame({'Equity': rev}, index=idx)).statistics)
    if isinstance(jb, str) or 'benchmark' not in jb:
        acc.check('tearsheet-json-agree', False, case, {'what': 'json-with-benchmark-runs'}, jb if isinstance(jb, str) else sorted(jb), 'runs')
    else:
        for block, rr, tot in (('benchmark', r_b, rev[-1] / rev[0]), ('strategy', r, total)):
            for kind, key in (('monthly', 'monthly_agg_returns'), ('yearly', 'yearly_agg_returns')):
                got = {}
                for k, v in jb[block][key]:
                    got[tuple(int(i) for i in (k if isinstance(k, tuple) else (k,)))] = float(v)
                exp = spec_aggregate(dates, rr, kind)
                ok = sorted(got) == sorted(exp) and all(_close(got[k], exp[k]) for k in exp)
                acc.check('%s-aggregates-compound-to-total' % kind, ok, case, {'via': 'json+benchmark', 'block': block, 'what': key},
                          sorted(got.items())[:6], sorted(exp.items())[:6])
            _check_hc(acc, case, jb[block], dates, rr, 'json+benchmark/' + block)
            exp = _call(spec_cagr, tot, n, periods)
            if not isinstance(exp, str):
                acc.check('cagr', _close(jb[block]['cagr'], exp), case, {'via': 'json+benchmark', 'block': block}, jb[block]['cagr'], exp)
            at = _list_close(_vals(jb[block]['returns']), rr)
            acc.check('cumulative-returns', at is None, case, {'via': 'json+benchmark', 'block': block, 'what': 'returns', 'first_diff_at': at},
                      _short(_vals(jb[block]['returns']), at), _short(rr, at))
        mdd_b = spec_drawdowns(rev)[1]
        acc.check('max-drawdown', _close(jb['benchmark']['max_drawdown'], mdd_b), case, {'via': 'json+benchmark', 'block': 'benchmark'},
                  jb['benchmark']['max_drawdown'], mdd_b)

    # ---- the SAME frame object exported again after its Equity column was replaced: the second export is about the new values ----
    df_re = pd.DataFrame({'Equity': list(equity)}, index=idx)
    first = _call(lambda: JSONStatistics(equity_curve=df_re, target_allocations=pd.DataFrame(), periods=periods).statistics['strategy'])
    df_re['Equity'] = rev
    second = _call(lambda: JSONStatistics(equity_curve=df_re, target_allocations=pd.DataFrame(), periods=periods).statistics['strategy'])
    if isinstance(first, str) or isinstance(second, str):
        acc.check('tearsheet-json-agree', False, case, {'what': 'json-exported-twice-runs'}, [str(first)[:80], str(second)[:80]], 'runs')
    else:
        at = _list_close(_vals(second['returns']), r_b)
        acc.check('cumulative-returns', at is None, case, {'via': 'json, frame re-exported with new equity', 'what': 'returns', 'first_diff_at': at},
                  _short(_vals(second['returns']), at), _short(r_b, at))
        exp = _call(spec_cagr, rev[-1] / rev[0], n, periods)
        if not isinstance(exp, str):
            acc.check('cagr', _close(second['cagr'], exp), case, {'via': 'json, frame re-exported with new equity'}, second['cagr'], exp)

    # ---- tear-sheet and JSON export report the same numbers ----
    for name, a, b in (('sharpe', tear['sharpe'], js['sharpe']),
                       ('max_drawdown', tear['max_drawdown'], js['max_drawdown']),
                       ('max_drawdown_pct', tear['max_drawdown_pct'], js['max_drawdown']),
                       ('max_drawdown_duration', tear['max_drawdown_duration'], js['max_drawdown_duration'])):
        acc.check('tearsheet-json-agree', _close_or_same(a, b), case, {'what': name}, a, b)
    for name, a, b in (('returns', t_r, j_r), ('cum_returns', t_c, j_c), ('drawdowns', t_dd, j_dd),
                       ('equity', [float(x) for x in tear['equity'].tolist()], _vals(js['equity_curve']))):
        at = _list_close(a, b, _close_or_same)
        acc.check('tearsheet-json-agree', at is None, case, {'what': name, 'first_diff_at': at},
                  _short(a, at), _short(b, at))

    # ---- unchanged when equity is multiplied by a positive constant ----
    k = case['scale']
    scaled = [e * k for e in equity]
    js2, tear2 = _reporters(dates, scaled, flavour, periods)
    if isinstance(js2, str) or isinstance(tear2, str):
        acc.check('scale-invariance', False, case, {'what': 'reporters-run-on-scaled'}, [_js(js2)[:200] if
                  isinstance(js2, str) else 'ok', tear2 if isinstance(tear2, str) else 'ok'], 'both run')
        return
    amb2 = ambiguous or spec_ambiguous(scaled)
    degenerate_sharpe = sh is None
    degenerate_sortino = so is None or spec_sortino(spec_returns(scaled), periods) is None or amb2
    scal = [('json.max_drawdown', js['max_drawdown'], js2['max_drawdown']),
            ('json.cagr', js['cagr'], js2['cagr']),
            ('json.mean_returns', js['mean_returns'], js2['mean_returns']),
            ('json.stdev_returns', js['stdev_returns'], js2['stdev_returns']),
            ('json.annualised_vol', js['annualised_vol'], js2['annualised_vol']),
            ('tearsheet.max_drawdown', tear['max_drawdown'], tear2['max_drawdown'])]
    if not degenerate_sharpe:
        scal += [('json.sharpe', js['sharpe'], js2['sharpe']), ('tearsheet.sharpe', tear['sharpe'], tear2['sharpe'])]
    if not degenerate_sortino:
        scal += [('json.sortino', js['sortino'], js2['sortino'])]
    for name, a, b in scal:
        acc.check('scale-invariance', _close_or_same(a, b), case, {'what': name, 'scale': k}, b, a)
    if not amb2:
        for name, a, b in (('json.max_drawdown_duration', js['max_drawdown_duration'], js2['max_drawdown_duration']),
                           ('tearsheet.max_drawdown_duration', tear['max_drawdown_duration'],
                            tear2['max_drawdown_duration'])):
            acc.check('scale-invariance', int(a) == int(b), case, {'what': name, 'scale': k}, b, a)
    lists = [('json.returns', j_r, _vals(js2['returns'])), ('json.cum_returns', j_c, _vals(js2['cum_returns'])),
             ('json.drawdowns', j_dd, _vals(js2['drawdowns'])),
             ('json.monthly_agg_returns', [v for _, v in js['monthly_agg_returns']],
              [v for _, v in js2['monthly_agg_returns']]),
             ('json.yearly_agg_returns', [v for _, v in js['yearly_agg_returns']],
              [v for _, v in js2['yearly_agg_returns']]),
             ('tearsheet.drawdowns', t_dd, [float(x) for x in tear2['drawdowns'].tolist()])]
    for name, a, b in lists:
        at = _list_close(b, a, _close_or_same)
        acc.check('scale-invariance', at is None, case, {'what': name, 'scale': k, 'first_diff_at': at},
                  _short(b, at), _short(a, at))
    # the equity itself is the only thing that scales
    at = _list_close(_vals(js2['equity_curve']), scaled)
    acc.check('scale-invariance', at is None, case, {'what': 'json.equity_curve', 'scale': k, 'first_diff_at': at},
              _short(_vals(js2['equity_curve']), at), _short(scaled, at))


def _run_case(case, acc):
    with warnings.catch_warnings():
        warnings.simplefilter('ignore')
        with np.errstate(all='ignore'):
            try:
                _run_case_inner(case, acc)
            except Exception as e:  # never raise on a property failure
                acc.check('tearsheet-json-agree', False, case, {'what': 'unexpected-exception'},
                          'EXC:%s:%s' % (type(e).__name__, e), 'no exception')


# --------------------------------------------------------------------------------------------------
# Case generators
# --------------------------------------------------------------------------------------------------
def _mk(kind, start, flavour, periods, scale, equity):
    return {'kind': kind, 'start': start, 'index': flavour, 'periods': periods, 'scale': scale,
            'equity': [float(e) for e in equity]}


def _small_case(word, start, i):
    e = [100.0]
    for f in word:
        e.append(e[-1] * f)
    return _mk('small', start, ('date', 'ts')[i % 2], 252, SCALES[i % len(SCALES)], e)


def _all_small():
    i = 0
    for n in range(1, 6):
        for w in itertools.product(SMALL_FACTORS, repeat=n):
            for s in SMALL_STARTS:
                yield _small_case(w, s, i)
                i += 1


def _length(rng):
    return rng.choice((rng.randint(2, 10), rng.randint(11, 80), rng.randint(81, 259), rng.randint(260, 400)))


KINDS = ('up', 'down', 'peak-first', 'flat', 'rw', 'rw', 'down-then-up', 'levels', 'small5')


def _gen_curve(rng, kind=None, n=None):
    kind = kind or rng.choice(KINDS)
    n = n or _length(rng)
    e0 = rng.choice((100.0, 1.0, 1000000.0, 37.5, 0.02))
    sigma = rng.choice((0.001, 0.01, 0.01, 0.04))
    if kind == 'up':
        e = [e0]
        for _ in range(n - 1):
            e.append(e[-1] * (1.0 + rng.uniform(1e-5, 0.03)))
    elif kind == 'down':
        e = [e0]
        for _ in range(n - 1):
            e.append(e[-1] * (1.0 - rng.uniform(1e-5, 0.03)))
    elif kind == 'peak-first':
        w = [1.0]
        for _ in range(n - 2):
            w.append(w[-1] * math.exp(rng.gauss(0.0, sigma)))
        top = max(w) * (1.0 + rng.uniform(1e-4, 0.2))
        e = [e0] + [e0 * x / top for x in w]
    elif kind == 'flat':
        e = [e0]
        for _ in range(n - 1):
            e.append(e[-1] if rng.random() < 0.6 else e[-1] * math.exp(rng.gauss(0.0, sigma)))
    elif kind == 'down-then-up':
        e = [e0]
        turn = rng.randint(1, max(1, n - 1))
        for t in range(1, n):
            f = (1.0 - rng.uniform(0, 0.02)) if t <= turn else (1.0 + rng.uniform(0, 0.04))
            e.append(e[-1] * f)
    elif kind == 'levels':
        levels = (1.0, 1.25, 0.5, 2.0, 0.75)
        e = [e0 * rng.choice(levels) for _ in range(n)]
    elif kind == 'small5':
        n = min(n, rng.randint(2, 9))
        e = [e0]
        for _ in range(n - 1):
            e.append(e[-1] * rng.choice((0.8, 0.9, 1.0, 1.1, 1.25)))
    else:
        drift = rng.choice((0.0, 0.0005, -0.0005))
        e = [e0]
        for _ in range(n - 1):
            e.append(e[-1] * math.exp(rng.gauss(drift, sigma)))
    return _mk(kind, rng.choice(STARTS), rng.choice(('date', 'ts')), rng.choice((252, 252, 52, 12, 365, 365.25, 50.4)),
               rng.choice(SCALES), e)


def _quick_cases(seed):
    rng = random.Random('c17-quick-%s' % seed)
    small = rng.sample(list(_all_small()), 70)
    fixed = [
        _mk('known-first-peak', '2015-12-21', 'date', 252, 3.0, [100.0, 90.0, 80.0, 85.0]),
        _mk('levels', '2020-12-21', 'ts', 252, 3.0, [1.0, 1.25, 1.0, 1.25, 0.5, 1.25, 1.5, 1.5, 1.0]),
        _mk('two-points', '2024-02-20', 'date', 252, 0.001, [100.0, 101.0]),
        _mk('constant', '2024-02-20', 'ts', 252, 1234.5678, [5.0, 5.0, 5.0]),
        _mk('one-losing-period', '2024-02-20', 'date', 252, 3.0, [100.0, 101.0, 100.5, 102.0, 103.0, 103.5]),
        _mk('one-losing-period', '2020-12-21', 'ts', 52, 1.0, [100.0, 99.0, 99.0, 99.0, 99.5]),
        # losses of one or two cents on an account of a million: tiny, not degenerate
        _mk('cent-losses', '2019-03-01', 'date', 252, 1.0, [1000000.0, 1000250.0, 1000249.99, 1000600.0, 1000599.98, 1000900.0,
                                                               1000899.99, 1001300.0, 1001299.98, 1001700.0]),
    ]
    rest = []
    # make sure every kind and the long (year-spanning) lengths occur
    for kind in ('up', 'down', 'peak-first', 'flat', 'rw', 'down-then-up'):
        rest.append(_gen_curve(rng, kind, rng.randint(262, 400)))
    for _ in range(120):
        c = _gen_curve(rng)
        if len(c['equity']) > 259 and rng.random() < 0.6:
            c = _gen_curve(rng, c['kind'], rng.randint(2, 120))
        rest.append(c)
    out = list(fixed)
    # interleave small and sampled curves so a budget cut keeps the mix
    while small or rest:
        if rest:
            out.append(rest.pop(0))
        if small:
            out.append(small.pop(0))
        if rest:
            out.append(rest.pop(0))
    return out


def _thorough_chunks(seed):
    chunks = []
    cur = []
    for c in _all_small():
        cur.append(c)
        if len(cur) == 60:
            chunks.append(cur)
            cur = []
    if cur:
        chunks.append(cur)
    for i in range(120):
        rng = random.Random('c17-thorough-%s-%d' % (seed, i))
        chunks.append([_gen_curve(rng) for _ in range(25)])
    return chunks


def _key(case):
    k = {x: case[x] for x in ('start', 'index', 'periods', 'equity')}
    return hashlib.sha1(json.dumps(k, sort_keys=True).encode()).hexdigest()


def _nontrivial(case):
    return any(e != case['equity'][0] for e in case['equity'])


def _plot_check(acc):
    """plot_results() (Agg backend, nothing shown): the statistics drawn for strategy and benchmark are those of the curves
       that were SUPPLIED - here a strategy that starts later than its benchmark (a burn-in)"""
    case = _mk('plot-with-earlier-benchmark', '2019-01-02', 'ts', 252, 1.0, [100.0 + 3.0 * ((i * 7) % 11) - 0.5 * i for i in range(60)])
    try:
        import matplotlib
        matplotlib.use('Agg', force=True)
        import matplotlib.pyplot as plt
    except Exception:
        return
    equity = case['equity']
    dates = spec_business_days(case['start'], len(equity))
    idx = _index(dates, 'ts')
    bench = pd.DataFrame({'Equity': [200.0 - 1.5 * ((i * 5) % 13) + 0.25 * i for i in range(len(equity))]}, index=idx)
    strat = pd.DataFrame({'Equity': equity[20:]}, index=idx[20:])
    seen = []
    ts = TearsheetStatistics(strategy_equity=strat.copy(), benchmark_equity=bench.copy(), periods=252)
    real = ts.get_results

    def spy(df):
        seen.append((list(df.index), [float(x) for x in df['Equity']]))
        return real(df)
    ts.get_results = spy
    # ... and the drawdown figures printed in the text panel are computed on each curve's OWN cumulative returns
    import qstrader.statistics.tearsheet as _tsm
    dd_args = []
    real_dd = _tsm.perf.create_drawdowns

    in_panel = [False]

    def dd_spy(series, *a, **k):
        if in_panel[0]:                      # (only the calls made while the text panel is drawn)
            dd_args.append([float(x) for x in list(series)])
        return real_dd(series, *a, **k)
    real_panel = ts._plot_txt_curve

    def panel(*a, **k):
        in_panel[0] = True
        try:
            return real_panel(*a, **k)
        finally:
            in_panel[0] = False
    ts._plot_txt_curve = panel
    _tsm.perf.create_drawdowns = dd_spy
    try:
        out = _call(lambda: ts.plot_results(filename=os.path.join(tempfile.gettempdir(), 'c17_plot_%d.png' % os.getpid())))
    finally:
        _tsm.perf.create_drawdowns = real_dd
    try:
        plt.close('all')
        os.remove(os.path.join(tempfile.gettempdir(), 'c17_plot_%d.png' % os.getpid()))
    except Exception:
        pass
    if isinstance(out, str):
        acc.check('tearsheet-json-agree', False, case, {'what': 'plot_results runs'}, out, 'runs')
        return
    want_b = (list(bench.index), [float(x) for x in bench['Equity']])
    want_s = (list(strat.index), [float(x) for x in strat['Equity']])
    acc.check('tearsheet-json-agree', want_b in seen, case, {'what': 'plot_results: benchmark statistics computed on the supplied benchmark curve'},
              [(str(i[0]), len(i)) for i, _ in seen], (str(want_b[0][0]), len(want_b[0])))
    acc.check('tearsheet-json-agree', want_s in seen, case, {'what': 'plot_results: strategy statistics computed on the supplied strategy curve'},
              [(str(i[0]), len(i)) for i, _ in seen], (str(want_s[0][0]), len(want_s[0])))
    cum_b = [e / want_b[1][0] for e in want_b[1]]
    cum_s = [e / want_s[1][0] for e in want_s[1]]
    for name, cum in (('benchmark', cum_b), ('strategy', cum_s)):
        hit = any(len(a) == len(cum) and all(_close(x, y) for x, y in zip(a, cum)) for a in dd_args)
        acc.check('max-drawdown', hit, case, {'what': 'plot_results: the %s drawdown figures are computed on the %s curve' % (name, name)},
                  [(len(a), a[:2]) for a in dd_args][:6], (len(cum), cum[:2]))


def _run_chunk(cases):
    acc = _Acc()
    keys = []
    for case in cases:
        _run_case(case, acc)
        keys.append((_key(case), _nontrivial(case)))
    return acc, keys


# --------------------------------------------------------------------------------------------------
# Public interface
# --------------------------------------------------------------------------------------------------
def run(tier="quick", seed=0, budget_s=20.0, jobs=1):
    t0 = time.time()
    acc = _Acc()
    seen = {}
    evaluations = 0
    complete = True
    with warnings.catch_warnings():
        warnings.simplefilter('ignore')
        _plot_check(acc)
    if tier == 'quick':
        cases = _quick_cases(seed)
        for case in cases:
            if time.time() - t0 > budget_s * 0.92:
                complete = False
                break
            _run_case(case, acc)
            evaluations += 1
            seen[_key(case)] = _nontrivial(case)
        pool_cases = cases[:evaluations]
        exhaustive = False
    else:
        chunks = _thorough_chunks(seed)
        if jobs and jobs > 1:
            import multiprocessing
            ctx = multiprocessing.get_context('fork')
            with ctx.Pool(int(jobs)) as pool:
                results = pool.map(_run_chunk, chunks, chunksize=1)
        else:
            results = [_run_chunk(ch) for ch in chunks]
        for part, keys in results:
            acc.merge(part)
            evaluations += len(keys)
            for k, nt in keys:
                seen[k] = nt
        pool_cases = [c for ch in chunks for c in ch[:2]]
        exhaustive = True  # all small curves enumerated; the long curves are sampled (see BOUND)
    samples = []
    kinds_seen = set()
    for c in pool_cases:
        if c['kind'] not in kinds_seen and _nontrivial(c) and len(samples) < 6:
            kinds_seen.add(c['kind'])
            s = dict(c)
            if len(s['equity']) > 10:
                s['equity'] = s['equity'][:10] + ['... %d more' % (len(c['equity']) - 10)]
            samples.append(_js(s))
    acc.failures.sort(key=lambda f: f['_size'])
    failures = [{k: v for k, v in f.items() if k != '_size'} for f in acc.failures[:25]]
    return {
        'property': PROPERTY,
        'tier': tier,
        'seed': seed,
        'evaluations': evaluations,
        'distinct_nontrivial': sum(1 for v in seen.values() if v),
        'rule': RULE,
        'samples': samples,
        'exhaustive': bool(exhaustive and complete),
        'clauses': {k: {'checked': v[0], 'failed': v[1]} for k, v in acc.clauses.items()},
        'n_failures': acc.n_failures,
        'failures': failures,
        'elapsed_s': round(time.time() - t0, 2),
    }


def replay(case):
    """Re-run one failure's case on the real code; reproduced iff the same clause fails (same place if known)."""
    case = dict(case)
    clause = case.pop('clause', None)
    where = case.pop('where', None)
    case.pop('first_point_is_strict_peak_somewhere', None)
    case.setdefault('kind', 'replay')
    case.setdefault('index', 'date')
    case.setdefault('periods', 252)
    case.setdefault('scale', 3.0)
    acc = _Acc()
    if case.get('kind') == 'plot-with-earlier-benchmark':
        with warnings.catch_warnings():
            warnings.simplefilter('ignore')
            _plot_check(acc)
    else:
        _run_case(case, acc)
    hit = None
    for f in acc.failures:
        if (clause is None or f['clause'] == clause) and (where is None or f['case'].get('where') == _js(where)):
            hit = f
            break
    if hit is None:
        for f in acc.failures:
            if clause is None or f['clause'] == clause:
                hit = f
                break
    if hit is None:
        return {'reproduced': False, 'clause': clause, 'observed': None, 'expected': None}
    return {'reproduced': True, 'clause': hit['clause'], 'observed': hit['observed'], 'expected': hit['expected']}


if __name__ == '__main__':
    import sys
    _tier = sys.argv[1] if len(sys.argv) > 1 else 'quick'
    _jobs = int(sys.argv[2]) if len(sys.argv) > 2 else (16 if _tier == 'thorough' else 1)
    print(json.dumps(run(tier=_tier, seed=0, jobs=_jobs), indent=1, default=str))
