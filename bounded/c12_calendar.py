"""Bounded stand-in for property C12: the simulation clock is strictly increasing and covers exactly
business days.

Code under test (the REAL one): qstrader.simulation.daily_bday.DailyBusinessDaySimulationEngine.
Oracle: bounded/_calendar_spec.py (pure `datetime`, written from the statement of C12).

Reading of the statement used here
----------------------------------
* start / end are tz-aware UTC `pd.Timestamp`s (as in every documented example).
* A date d is "in the range" iff  start <= d@time-of-day(start) <= end.  The quantifier restricts to pairs whose
  end time of day is not before the start's, where this is the same as  start.date() <= d <= end.date()
  (both forms are evaluated and asserted equal on every generated case: `oracle_self_check`).
* For each Monday-Friday date in range, in date order, and for no other date:
  [pre_market d 00:00]?  market_open d 14:30  market_close d 21:00  [post_market d 23:59]?   (all UTC).
* ValueError from the constructor iff end < start (as instants); nothing else may raise.

Clauses
-------
dates-exactly-business-days  the sequence of distinct dates carried by the emitted events (in emission order,
                             consecutive events on one date grouped) equals the oracle's business-day list
event-types-and-order        on every emitted date the event types are a duplicate-free sub-list of
                             (pre_market, market_open, market_close, post_market) in that order that contains both
                             market_open and market_close
flags-respected              on every emitted date pre_market is present iff the flag is on; same for post_market
event-times-utc              every event's time of day is the one the statement gives for its type
                             (00:00 / 14:30 / 21:00 / 23:59, zero seconds and sub-seconds)
timestamps-tz-utc            every `ts` is a tz-aware pd.Timestamp with UTC offset zero
strictly-increasing          ts strictly increases over the whole run (real Timestamp comparison)
end-before-start-rejected    constructor raises ValueError iff end < start
"""
import datetime as _dt
import json
import multiprocessing
import os
import random
import sys
import time

import pandas as pd
import pytz

import qstrader
import qstrader.settings
from qstrader.simulation.daily_bday import DailyBusinessDaySimulationEngine

from bounded import _calendar_spec as cal

assert os.path.abspath(qstrader.__file__).startswith(
    os.path.abspath(os.environ.get("QSTRADER_ROOT", "/repo"))
), "qstrader resolves to %s" % qstrader.__file__
qstrader.settings.PRINT_EVENTS = os.environ.get("PYVC_AMBIENT") == "1"

PROPERTY = "C12"

CLAUSES = (
    "dates-exactly-business-days",
    "event-types-and-order",
    "event-times-utc",
    "strictly-increasing",
    "flags-respected",
    "end-before-start-rejected",
    "timestamps-tz-utc",
    "every-traversal-is-complete",
)

START_TODS = ((0, 0), (14, 30), (9, 30, 15))
FLAGS = ((False, False), (False, True), (True, False), (True, True))
MAX_FAILURES = 25

BOUND = (
    "(Quick tier only: five extra ranges first - four starting 1958-1969, before or across 1970-01-01, with start times 14:30, 09:30:15 and 00:00, and one ending at 23:59:59.)  Start date: every date 2015-12-15 .. 2032-03-15 (5935 dates: every weekday alignment, every month and year "
    "end, the leap days 2016/2020/2024/2028-02-29).  For each start date and each start time of day in {00:00, "
    "14:30, 09:30:15} UTC (the last carries seconds: event stamps are exact minutes whatever the start's seconds): (a) end = start date + L days at 23:59 for L in {0,1,2,3,4,5,6,7,8,9,10,31,33,70,366,800}; "
    "(b) end = start date + L days at the start's own time of day (edge of 'end time of day not before the "
    "start's'; L=0 is end == start) for L in {0,1,3,7,31}; each of (a),(b) with all four pre/post-market flag "
    "combinations; (c) rejected shapes end < start: start - 1 minute, start - 1 day, the previous day 23:59, 7 "
    "and 800 days earlier at 23:59, and for the 14:30 start the same day at 00:00 (one flag combination each, "
    "rotating).  thorough = the whole product (about 1.06 million engine runs), exhaustive.  quick = a fixed "
    "boundary set of start dates (one full week incl. weekend-only and single-day ranges, +-2 days around every "
    "leap day, every year end, twelve month ends that fall on a weekend, the window ends) x lengths "
    "{0,1,2,3,5,7} x both start times x four flags plus shapes (b),(c), followed by a random.Random(seed) sample "
    "of 700 draws of (start date, length, start time, shape) from the full product, each accepted shape with all "
    "four flag combinations (the time budget is only a safety net); not exhaustive."
)

RULE = (
    "A case is (start instant, end instant, pre_market flag, post_market flag); cases are deduplicated on that "
    "4-tuple before execution, so `evaluations` counts distinct engine constructions.  A case is non-trivial iff "
    "the oracle expects at least one event (the range contains a Monday-Friday date) or expects the ValueError "
    "(end < start); accepted ranges with no business day (weekend-only) are executed and checked but not counted "
    "as non-trivial."
)

_UTC_ZERO = _dt.timedelta(0)


# ---------------------------------------------------------------------------------------------
# building inputs / observing outputs
# ---------------------------------------------------------------------------------------------
def _ts(dt):
    """naive-UTC datetime -> tz-aware UTC pd.Timestamp (the documented way of building the inputs)."""
    return pd.Timestamp(dt, tz=pytz.UTC)


def _fields(ts):
    return (ts.year, ts.month, ts.day, ts.hour, ts.minute, ts.second, ts.microsecond,
            getattr(ts, "nanosecond", 0))


def _render_fields(f):
    s = "%04d-%02d-%02dT%02d:%02d:%02d" % f[:6]
    if f[6] or f[7]:
        s += ".%06d%03d" % (f[6], f[7])
    return s


def _is_utc_timestamp(ts):
    if not isinstance(ts, pd.Timestamp):
        return False
    if ts.tzinfo is None:
        return False
    return ts.utcoffset() == _UTC_ZERO


def make_case(start, end, pre, post):
    return {"start": cal.iso(start), "end": cal.iso(end), "pre_market": bool(pre), "post_market": bool(post)}


def _case_key(case):
    return (case["start"], case["end"], case["pre_market"], case["post_market"])


def _case_size(case):
    s = cal.parse_iso(case["start"])
    e = cal.parse_iso(case["end"])
    return (abs((e - s).total_seconds()), case["start"], case["end"], case["pre_market"], case["post_market"])


# ---------------------------------------------------------------------------------------------
# the check of one case: returns [(clause, ok, observed, expected)], nontrivial, sample
# ---------------------------------------------------------------------------------------------
def check_case(case, bdays_cache=None):
    start = cal.parse_iso(case["start"])
    end = cal.parse_iso(case["end"])
    pre = case["pre_market"]
    post = case["post_market"]
    results = []

    expect_reject = end < start
    if not expect_reject:
        # an EARLIER clock over the same two dates at other times of day (a calendar is a function of the instants, not of the dates)
        o_start, o_end = start.replace(hour=14, minute=30, second=0), end.replace(hour=0, minute=0, second=0)
        if o_start <= o_end:
            try:
                DailyBusinessDaySimulationEngine(_ts(o_start), _ts(o_end), pre_market=True, post_market=False)
            except Exception:
                pass
    try:
        engine = DailyBusinessDaySimulationEngine(_ts(start), _ts(end), pre_market=pre, post_market=post)
        observed_ctor = "accepted"
    except ValueError:
        engine = None
        observed_ctor = "ValueError"
    except Exception as exc:                       # any other exception is never what the statement asks for
        engine = None
        observed_ctor = "%s: %s" % (type(exc).__name__, exc)
    expected_ctor = "ValueError" if expect_reject else "accepted"
    results.append(("end-before-start-rejected", observed_ctor == expected_ctor, observed_ctor, expected_ctor))
    if expect_reject or engine is None:
        return results, expect_reject, None

    # oracle (business days depend on the range only; shared between the four flag combinations)
    key = (case["start"], case["end"])
    if bdays_cache is not None and key in bdays_cache:
        bdays = bdays_cache[key]
    else:
        bdays = cal.business_days_in_range(start, end)
        if cal.tod_not_before(start, end):
            by_date = [d for d in cal.dates_in_range_by_date(start, end) if cal.is_business_day(d)]
            assert by_date == bdays, ("oracle_self_check", case)
        if bdays_cache is not None:
            bdays_cache.clear()
            bdays_cache[key] = bdays
    day_types = cal.expected_day_types(pre, post)

    try:
        # another clock with the OPPOSITE flags is built, and stays alive, before this one is walked: flags belong to the object
        other = DailyBusinessDaySimulationEngine(_ts(start), _ts(end), pre_market=not pre, post_market=not post)
        events = list(engine)
        raw = [(ev.ts, ev.event_type) for ev in events]
        del other
    except Exception as exc:
        results.append(("dates-exactly-business-days", False, "%s: %s" % (type(exc).__name__, exc),
                        "%d business days" % len(bdays)))
        return results, bool(bdays), None

    # --- the clock is a function of (start, end, flags): a second traversal, and one begun after an abandoned traversal,
    #     yield the same events as the first (ranges of at most 12 business days, to keep the thorough tier affordable)
    if len(bdays) <= 12:
        try:
            it = iter(engine)
            for _ in range(min(2, len(raw))):
                next(it)
            del it
            again = [(ev.ts, ev.event_type) for ev in engine]
            ok2 = again == raw
            obs2 = "second traversal: %d events%s" % (len(again), "" if ok2 or not again else ", first " + repr(again[0]))
        except Exception as exc:
            ok2, obs2 = False, "%s: %s" % (type(exc).__name__, exc)
        results.append(("every-traversal-is-complete", ok2, obs2, "the %d events of the first traversal" % len(raw)))

    # --- observation: group consecutive events by calendar date
    groups = []            # [(date, [types], [fields])]
    obs_fields = []
    tz_bad = None
    for ts, typ in raw:
        if tz_bad is None and not _is_utc_timestamp(ts):
            tz_bad = (repr(ts), typ)
        try:
            f = _fields(ts)
        except Exception:
            f = (1, 1, 1, 0, 0, 0, 0, 0)
        obs_fields.append(f)
        d = _dt.date(f[0], f[1], f[2])
        if groups and groups[-1][0] == d:
            groups[-1][1].append(typ)
        else:
            groups.append((d, [typ]))

    # dates-exactly-business-days
    obs_dates = [g[0] for g in groups]
    if obs_dates == bdays:
        results.append(("dates-exactly-business-days", True, None, None))
    else:
        so, se = set(obs_dates), set(bdays)
        extra = sorted(so - se)
        missing = sorted(se - so)
        observed = {"n_dates": len(obs_dates), "extra": [d.isoformat() for d in extra[:5]], "n_extra": len(extra),
                    "missing": [d.isoformat() for d in missing[:5]], "n_missing": len(missing),
                    "repeated_or_out_of_order": len(obs_dates) != len(so) or obs_dates != sorted(obs_dates)}
        expected = {"n_dates": len(bdays), "first": bdays[0].isoformat() if bdays else None,
                    "last": bdays[-1].isoformat() if bdays else None}
        results.append(("dates-exactly-business-days", False, observed, expected))

    if raw:
        # event-types-and-order
        bad = None
        for d, types in groups:
            st = set(types)
            canon = [t for t in cal.CANONICAL_EVENT_ORDER if t in st]
            if types != canon or "market_open" not in st or "market_close" not in st:
                bad = (d, types)
                break
        if bad is None:
            results.append(("event-types-and-order", True, None, None))
        else:
            results.append(("event-types-and-order", False,
                            {"date": bad[0].isoformat(), "types": [str(t) for t in bad[1]]},
                            {"types": day_types}))

        # flags-respected
        bad = None
        for d, types in groups:
            if (("pre_market" in types) != pre) or (("post_market" in types) != post):
                bad = (d, types)
                break
        if bad is None:
            results.append(("flags-respected", True, None, None))
        else:
            results.append(("flags-respected", False,
                            {"date": bad[0].isoformat(), "types": [str(t) for t in bad[1]]},
                            {"pre_market_present": pre, "post_market_present": post}))

        # event-times-utc
        bad = None
        for (ts, typ), f in zip(raw, obs_fields):
            tod = cal.EVENT_TOD.get(typ)
            if tod is None:
                continue                      # unknown type: reported by event-types-and-order
            if f[3:] != (tod[0], tod[1], 0, 0, 0):
                bad = (typ, f)
                break
        if bad is None:
            results.append(("event-times-utc", True, None, None))
        else:
            results.append(("event-times-utc", False,
                            {"event_type": bad[0], "ts": _render_fields(bad[1])},
                            {"event_type": bad[0], "time_of_day": "%02d:%02d:00" % cal.EVENT_TOD[bad[0]]}))

        # timestamps-tz-utc
        if tz_bad is None:
            results.append(("timestamps-tz-utc", True, None, None))
        else:
            results.append(("timestamps-tz-utc", False, {"ts": tz_bad[0], "event_type": tz_bad[1]},
                            "tz-aware pd.Timestamp with UTC offset 0"))

        # strictly-increasing (real Timestamp comparison, independent of the oracle)
        if len(raw) >= 2:
            bad = None
            try:
                prev = raw[0][0]
                for i in range(1, len(raw)):
                    cur = raw[i][0]
                    if not (prev < cur):
                        bad = (i, repr(prev), repr(cur))
                        break
                    prev = cur
            except Exception as exc:
                bad = (-1, "%s: %s" % (type(exc).__name__, exc), "")
            if bad is None:
                results.append(("strictly-increasing", True, None, None))
            else:
                results.append(("strictly-increasing", False,
                                {"index": bad[0], "previous": bad[1], "current": bad[2]},
                                "previous < current"))

    sample = {"case": case, "expected_business_days": len(bdays), "expected_events": len(bdays) * len(day_types),
              "observed_events": len(raw),
              "observed_first": [[_render_fields(f), str(t)] for f, (_, t) in list(zip(obs_fields, raw))[:4]]}
    return results, bool(bdays), sample


# ---------------------------------------------------------------------------------------------
# case generation
# ---------------------------------------------------------------------------------------------
def _shape_a(d, tod, length):
    return cal.at(d, tod), cal.at(d + length * cal.DAY, cal.END_TOD)


def _shape_b(d, tod, length):
    return cal.at(d, tod), cal.at(d + length * cal.DAY, tod)


def _reject_ends(d, tod):
    start = cal.at(d, tod)
    ends = [start - _dt.timedelta(minutes=1), start - cal.DAY, cal.at(d - cal.DAY, cal.END_TOD),
            cal.at(d - 7 * cal.DAY, cal.END_TOD), cal.at(d - 800 * cal.DAY, cal.END_TOD)]
    if tod != (0, 0):
        ends.append(cal.at(d, (0, 0)))
    return start, ends


def cases_for_start_date(d, lengths_a=cal.RANGE_LENGTHS, lengths_b=cal.EQUAL_TOD_LENGTHS, reject=True):
    """All cases of the stated bound whose start date is d (no duplicates)."""
    out = []
    seen = set()

    def add(start, end, pre, post):
        c = make_case(start, end, pre, post)
        k = _case_key(c)
        if k not in seen:
            seen.add(k)
            out.append(c)

    for tod in START_TODS:
        for length in lengths_a:
            s, e = _shape_a(d, tod, length)
            for pre, post in FLAGS:
                add(s, e, pre, post)
        for length in lengths_b:
            s, e = _shape_b(d, tod, length)
            for pre, post in FLAGS:
                add(s, e, pre, post)
        if reject:
            s, ends = _reject_ends(d, tod)
            for i, e in enumerate(ends):
                pre, post = FLAGS[(d.toordinal() + i) % 4]
                add(s, e, pre, post)
    return out


def _quick_cases(seed):
    """Generator of the quick tier's cases: core set, boundary set, then the seeded sample."""
    # core: a handful of cases that exercise every clause, run first whatever the budget
    wed = _dt.date(2020, 1, 8)
    s, e = _shape_a(wed, (0, 0), 9)
    for pre, post in FLAGS:
        yield make_case(s, e, pre, post)
    yield make_case(cal.at(wed, (14, 30)), cal.at(wed, (0, 0)), True, True)          # rejected
    yield make_case(cal.at(wed, (14, 30)), cal.at(wed, (14, 30)), True, True)        # end == start, accepted
    yield make_case(cal.at(_dt.date(2020, 1, 11), (0, 0)), cal.at(_dt.date(2020, 1, 12), cal.END_TOD),
                    True, True)                                                      # weekend only
    # dates before and across 1970-01-01 (negative epoch values) with a start that is not midnight, and an end with seconds
    for d, tod, length in ((_dt.date(1969, 12, 29), (14, 30), 9), (_dt.date(1965, 3, 10), (9, 30, 15), 6),
                           (_dt.date(1969, 12, 31), (14, 30), 1), (_dt.date(1958, 8, 1), (0, 0), 4)):
        s, e = _shape_a(d, tod, length)
        for pre, post in FLAGS:
            yield make_case(s, e, pre, post)
    s, e = cal.at(wed, (0, 0)), cal.at(wed + 6 * cal.DAY, (23, 59, 59))
    for pre, post in FLAGS:
        yield make_case(s, e, pre, post)
    # boundary set
    for d in cal.boundary_start_dates():
        for c in cases_for_start_date(d, lengths_a=(0, 1, 2, 3, 5, 7), lengths_b=(0, 1, 3), reject=True):
            yield c
    # seeded sample from the full product
    rng = random.Random(seed)
    dates = cal.window_dates()
    shapes = [("a", L) for L in cal.RANGE_LENGTHS] + [("b", L) for L in cal.EQUAL_TOD_LENGTHS] + [("r", 0)]
    for _ in range(QUICK_SAMPLE_DRAWS):
        d = dates[rng.randrange(len(dates))]
        tod = START_TODS[rng.randrange(len(START_TODS))]
        kind, length = shapes[rng.randrange(len(shapes))]
        if kind == "a":
            s, e = _shape_a(d, tod, length)
        elif kind == "b":
            s, e = _shape_b(d, tod, length)
        else:
            s, ends = _reject_ends(d, tod)
            e = ends[rng.randrange(len(ends))]
            yield make_case(s, e, *FLAGS[rng.randrange(4)])
            continue
        for pre, post in FLAGS:
            yield make_case(s, e, pre, post)


# ---------------------------------------------------------------------------------------------
# accumulation
# ---------------------------------------------------------------------------------------------
class _Acc(object):
    def __init__(self):
        self.evaluations = 0
        self.nontrivial = 0
        self.clauses = dict((c, {"checked": 0, "failed": 0}) for c in CLAUSES)
        self.n_failures = 0
        self.failures = []          # [(size, failure dict)]
        self.samples = []

    def add_case(self, case, bdays_cache=None, want_sample=False):
        results, nontrivial, sample = check_case(case, bdays_cache)
        self.evaluations += 1
        if nontrivial:
            self.nontrivial += 1
        for clause, ok, observed, expected in results:
            self.clauses[clause]["checked"] += 1
            if not ok:
                self.clauses[clause]["failed"] += 1
                self.n_failures += 1
                fc = dict(case)
                fc["clause"] = clause
                self.failures.append((_case_size(case), {"clause": clause, "case": fc,
                                                         "observed": observed, "expected": expected}))
        if len(self.failures) > 4 * MAX_FAILURES:
            self.trim()
        if want_sample and sample is not None:
            self.samples.append(sample)

    def trim(self):
        self.failures.sort(key=lambda t: (t[0], t[1]["clause"]))
        del self.failures[MAX_FAILURES:]

    def merge(self, other):
        self.evaluations += other.evaluations
        self.nontrivial += other.nontrivial
        for c in CLAUSES:
            self.clauses[c]["checked"] += other.clauses[c]["checked"]
            self.clauses[c]["failed"] += other.clauses[c]["failed"]
        self.n_failures += other.n_failures
        self.failures.extend(other.failures)
        self.trim()
        self.samples.extend(other.samples)

    def result(self, exhaustive, extra_rule=""):
        self.trim()
        return {
            "evaluations": self.evaluations,
            "distinct_nontrivial": self.nontrivial,
            "rule": RULE + extra_rule,
            "samples": self.samples[:6],
            "exhaustive": bool(exhaustive),
            "clauses": self.clauses,
            "n_failures": self.n_failures,
            "failures": [f for _, f in self.failures],
        }


def _work_chunk(ordinals):
    acc = _Acc()
    cache = {}
    for o in ordinals:
        d = _dt.date.fromordinal(o)
        for i, case in enumerate(cases_for_start_date(d)):
            acc.add_case(case, cache)
    acc.trim()
    return acc


_SAMPLE_CASES = (
    # (start date, start tod, length, shape, pre, post)
    (_dt.date(2020, 2, 27), (0, 0), 5, "a", True, True),       # across leap day Sat 2020-02-29
    (_dt.date(2016, 12, 30), (14, 30), 4, "a", False, False),  # year end, Sat 2016-12-31
    (_dt.date(2020, 1, 11), (0, 0), 1, "a", True, True),       # weekend only
    (_dt.date(2024, 2, 29), (14, 30), 0, "b", True, False),    # single instant on a leap day
)


def _fixed_samples(acc):
    for d, tod, length, shape, pre, post in _SAMPLE_CASES:
        s, e = (_shape_a if shape == "a" else _shape_b)(d, tod, length)
        _, _, sample = check_case(make_case(s, e, pre, post))
        if sample is not None:
            acc.samples.append(sample)


QUICK_SAMPLE_DRAWS = 700          # draws of (start date, start time, shape); each accepted shape runs 4 flag combos
QUICK_SELF_BUDGET_S = 20.0        # safety net only: the quick tier normally ends by exhausting its case list


def run(tier="quick", seed=0, budget_s=60.0, jobs=1):
    t0 = time.time()
    acc = _Acc()
    if tier == "thorough":
        ordinals = [d.toordinal() for d in cal.window_dates()]
        chunk = 40
        chunks = [ordinals[i:i + chunk] for i in range(0, len(ordinals), chunk)]
        if jobs and jobs > 1:
            ctx = multiprocessing.get_context("fork")
            pool = ctx.Pool(int(jobs))
            try:
                for part in pool.imap(_work_chunk, chunks):
                    acc.merge(part)
            finally:
                pool.close()
                pool.join()
        else:
            for ch in chunks:
                acc.merge(_work_chunk(ch))
        _fixed_samples(acc)
        return acc.result(True)

    # quick
    limit = min(float(budget_s), QUICK_SELF_BUDGET_S)
    seen = set()
    cache = {}
    stopped_by = "end of the fixed case list (deterministic)"
    for case in _quick_cases(seed):
        k = _case_key(case)
        if k in seen:
            continue
        if acc.evaluations >= 7 and time.time() - t0 > limit:      # the 7 core cases always run
            stopped_by = "time budget"
            break
        seen.add(k)
        acc.add_case(case, cache)
    _fixed_samples(acc)
    return acc.result(False, " Quick tier stopped by: %s." % stopped_by)


def replay(case):
    c = {"start": case["start"], "end": case["end"], "pre_market": bool(case["pre_market"]),
         "post_market": bool(case["post_market"])}
    results, _, _ = check_case(c)
    wanted = case.get("clause")
    failing = [r for r in results if not r[1]]
    for clause, ok, observed, expected in failing:
        if wanted is None or clause == wanted:
            return {"reproduced": True, "clause": clause, "observed": observed, "expected": expected}
    return {"reproduced": False, "clause": wanted if wanted is not None else "", "observed": None, "expected": None}


if __name__ == "__main__":
    _tier = sys.argv[1] if len(sys.argv) > 1 else "quick"
    _jobs = int(sys.argv[2]) if len(sys.argv) > 2 else (16 if _tier == "thorough" else 1)
    _t = time.time()
    _res = run(tier=_tier, seed=0, jobs=_jobs)
    _res["_wall_s"] = round(time.time() - _t, 2)
    print(json.dumps(_res, indent=1, default=str))
