"""Bounded stand-in for property C13: rebalance schedules hold exactly the intended dates and meet a clock
event.

Code under test (the REAL classes):
  qstrader.system.rebalance.weekly.WeeklyRebalance(start, end, weekday, pre_market=False)
  qstrader.system.rebalance.daily.DailyRebalance(start, end, pre_market=False)
  qstrader.system.rebalance.end_of_month.EndOfMonthRebalance(start, end, pre_market=False)
  qstrader.system.rebalance.buy_and_hold.BuyAndHoldRebalance(start)
  qstrader.simulation.daily_bday.DailyBusinessDaySimulationEngine(start, end, pre_market=False, post_market=False)
Oracle: bounded/_calendar_spec.py (pure `datetime`, written from the statement of C13).

Reading of the statement used here
----------------------------------
* start / end are tz-aware UTC `pd.Timestamp`s.
* "Inside the range": a date d is inside (start, end) iff  start <= d@time-of-day(start) <= end.  The statement
  quantifies over pairs whose end time of day is not before the start's; there this is the same as
  start.date() <= d <= end.date()  (proof in _calendar_spec; both forms are evaluated and asserted equal on
  every generated range), so the statement's "dates ... inside the range" has a single reasonable meaning on
  the quantified domain, and it is the same notion of range the clock property C12 uses ("for each Monday-Friday
  date in the range"), which is what makes the cross-check "coincides with an event the clock emits for the same
  range" well posed.  No range outside the quantified domain is generated.
* weekly: exactly the inside dates falling on the chosen weekday (MON..FRI, any letter case); any other weekday
  string -> ValueError.  daily: exactly the inside Monday-Friday dates.  end of month: for every month, its last
  Monday-Friday date, kept iff that date is inside.  All stamped 21:00:00 UTC (14:30:00 when pre_market=True).
* buy-and-hold: one instant: the start if its date is Monday-Friday, else the start's time of day on the next
  Monday.
* cross-check: every weekly/daily/end-of-month instant is a member (real `pd.Timestamp` hashing/equality, as
  the backtest's `dt in rebalances` test) of the `ts` values emitted by the real clock for the same (start, end)
  with pre_market=False, post_market=False.

Clauses
-------
weekly-dates                 sorted dates of WeeklyRebalance.rebalances == oracle
daily-dates                  same for DailyRebalance
eom-dates                    same for EndOfMonthRebalance
stamps-2100-or-1430          every instant's time of day is 21:00:00.000000000 (pre_market False) / 14:30 (True)
strictly-increasing          each schedule list is strictly increasing (real Timestamp `<`)
buy-and-hold-instant         BuyAndHoldRebalance(start).rebalances is a one-element list holding the oracle instant (UTC)
instants-meet-clock-events   every instant is among the real clock's event timestamps for the same range
unknown-weekday-rejected     WeeklyRebalance raises ValueError iff the weekday string is not MON..FRI (any case)
tz-utc                       every weekly/daily/end-of-month instant is a tz-aware pd.Timestamp with UTC offset 0
"""
import datetime as _dt
import json
import multiprocessing
import os
import random
import sys
import time

import pandas as pd
import pytz

import qstrader
import qstrader.settings
from qstrader.simulation.daily_bday import DailyBusinessDaySimulationEngine
from qstrader.system.rebalance.buy_and_hold import BuyAndHoldRebalance
from qstrader.system.rebalance.daily import DailyRebalance
from qstrader.system.rebalance.end_of_month import EndOfMonthRebalance
from qstrader.system.rebalance.weekly import WeeklyRebalance

from bounded import _calendar_spec as cal

assert os.path.abspath(qstrader.__file__).startswith(
    os.path.abspath(os.environ.get("QSTRADER_ROOT", "/repo"))
), "qstrader resolves to %s" % qstrader.__file__
qstrader.settings.PRINT_EVENTS = os.environ.get("PYVC_AMBIENT") == "1"

PROPERTY = "C13"

CLAUSES = (
    "weekly-dates",
    "daily-dates",
    "eom-dates",
    "stamps-2100-or-1430",
    "strictly-increasing",
    "buy-and-hold-instant",
    "instants-meet-clock-events",
    "unknown-weekday-rejected",
    "tz-utc",
)

START_TODS = ((0, 0), (9, 15), (14, 30), (15, 45), (21, 1), (9, 30, 45))
BAH_TODS = ((0, 0), (9, 15), (14, 30), (21, 0), (23, 59))
WEEKDAYS = ("MON", "TUE", "WED", "THU", "FRI")
UNKNOWN_WEEKDAYS = ("SAT", "SUN", "sat", "Sun", "", "MONDAY", "friday", "XYZ", "M", "MO", "TUES", "WEEKDAY", "1",
                    "WED ", " wed", "FRI\n", " TUE ")
LONG_LENGTHS = (366, 800)
MID_LENGTHS = (31, 33, 70)
MAX_FAILURES = 25

BOUND = (
    "Start date: every date 2015-12-15 .. 2032-03-15 (5935 dates: every weekday alignment, every month end incl. "
    "those on Saturdays/Sundays, every year end, February of the leap years 2016/2020/2024/2028).  Ranges per "
    "start date d, start time of day t in {00:00, 09:15, 14:30, 15:45, 21:01, 09:30:45} UTC (the last two lie after the pre-market / default rebalance time of the start date itself): (a) end = d + L days at 23:59; (b) end = d + "
    "L days at t itself (edge of 'end time of day not before the start's'; L=0 is end == start).  Short: every t x "
    "(a) L in {0..10} and (b) L in {0,1,3,7}.  Mid: (a) L in {31,33,70} and (b) L=31 with ONE t per start date "
    "(t rotates with the date ordinal mod 6).  For each short/mid range 14 constructions: WeeklyRebalance for each "
    "of MON..FRI (letter case rotating over UPPER/lower/Title/mIXED) x pre_market in {False, True}; DailyRebalance "
    "x {False, True}; EndOfMonthRebalance x {False, True}.  Long: (a) L=366 on even date ordinals, L=800 on odd "
    "ones, one t (rotating), 8 constructions: MON..FRI and daily with one pre_market value each (rotating with "
    "date and weekday), end-of-month with both.  Every construction is compared with the pure-datetime oracle "
    "and with the timestamps of the real clock run on the same range.  (The rotation exists because the library "
    "spends ~0.15 ms per generated stamp; the crossed product would take > 10 min on 16 cores.)  For each start "
    "date also: BuyAndHoldRebalance at start times {00:00, 09:15, 14:30, 21:00, 23:59}; WeeklyRebalance on "
    "(d 00:00, d+7 23:59) with each of 17 unknown weekday strings ('WED ', ' wed', 'FRI\\n', ' TUE ' - padded names are not names -, SAT, SUN, sat, Sun, '', MONDAY, friday, XYZ, M, "
    "MO, TUES, WEEKDAY, 1).  thorough = that whole product (about 4.2 million constructions), exhaustive w.r.t. "
    "it.  quick = a fixed boundary set of start dates (one full week, +-2 days around every leap day, every year "
    "end, twelve month ends falling on a weekend, the window ends) with the start time rotating, lengths "
    "{0,2,5,33} of shape (a) and {0,7} of shape (b), every weekday, both pre_market flags, plus buy-and-hold and "
    "unknown weekdays on those dates; then, for the 24 months 2019-12..2021-11, ranges of 3 and 31 days ending "
    "exactly on, ending the day before, starting on and starting the day after the month's last business day "
    "(end-of-month, daily, and weekly on that weekday); then a random.Random(seed) sample of 200 ranges (start "
    "date, start time, shape, length drawn independently from the sets above), each with its 14 (8 for the long "
    "lengths) schedule constructions and one buy-and-hold; not exhaustive."
)

RULE = (
    "A case is one construction: (kind, start instant, end instant, weekday string, pre_market flag) with kind in "
    "{weekly, daily, eom}, or (buy_and_hold, start instant); cases are deduplicated on that tuple before execution, "
    "so `evaluations` counts distinct constructions (the clock run used for the cross-check is not counted).  A "
    "case is non-trivial iff the oracle expects at least one instant in the schedule, or it is a buy-and-hold "
    "case, or it is an unknown-weekday case (ValueError expected); schedule cases whose expected list is empty "
    "are executed and checked but not counted as non-trivial."
)

_UTC_ZERO = _dt.timedelta(0)


# ---------------------------------------------------------------------------------------------
# building inputs / observing outputs
# ---------------------------------------------------------------------------------------------
def _ts(dt):
    return pd.Timestamp(dt, tz=pytz.UTC)


def _fields(ts):
    return (ts.year, ts.month, ts.day, ts.hour, ts.minute, ts.second, ts.microsecond,
            getattr(ts, "nanosecond", 0))


def _render_fields(f):
    s = "%04d-%02d-%02dT%02d:%02d:%02d" % f[:6]
    if f[6] or f[7]:
        s += ".%06d%03d" % (f[6], f[7])
    return s


def _is_utc_timestamp(ts):
    if not isinstance(ts, pd.Timestamp):
        return False
    if ts.tzinfo is None:
        return False
    return ts.utcoffset() == _UTC_ZERO


def make_case(kind, start, end=None, weekday=None, pre=None):
    c = {"kind": kind, "start": cal.iso(start)}
    if kind != "buy_and_hold":
        c["end"] = cal.iso(end)
        c["pre_market"] = bool(pre)
    if kind == "weekly":
        c["weekday"] = weekday
    return c


def _case_key(case):
    return (case["kind"], case["start"], case.get("end"), case.get("weekday"), case.get("pre_market"))


def _case_size(case):
    s = cal.parse_iso(case["start"])
    e = cal.parse_iso(case["end"]) if "end" in case else s
    return (abs((e - s).total_seconds()), case["start"], case["kind"], str(case.get("weekday")),
            bool(case.get("pre_market")))


def _weekday_variant(wd, n):
    n %= 4
    if n == 0:
        return wd.upper()
    if n == 1:
        return wd.lower()
    if n == 2:
        return wd.title()
    return wd[0].lower() + wd[1:].upper()


class _RangeCache(object):
    """Per (start, end): the oracle's in-range dates and the real clock's timestamp set (one entry kept)."""

    def __init__(self):
        self.key = None
        self.clock = None
        self.clock_error = None

    def get_clock(self, start_iso, end_iso):
        key = (start_iso, end_iso)
        if self.key != key:
            self.key = key
            self.clock_error = None
            try:
                eng = DailyBusinessDaySimulationEngine(_ts(cal.parse_iso(start_iso)), _ts(cal.parse_iso(end_iso)),
                                                       pre_market=False, post_market=False)
                self.clock = set(ev.ts for ev in eng)
            except Exception as exc:
                self.clock = set()
                self.clock_error = "%s: %s" % (type(exc).__name__, exc)
        return self.clock, self.clock_error


# ---------------------------------------------------------------------------------------------
# the check of one case
# ---------------------------------------------------------------------------------------------
_DATES_CLAUSE = {"weekly": "weekly-dates", "daily": "daily-dates", "eom": "eom-dates"}


def _check_buy_and_hold(case):
    start = cal.parse_iso(case["start"])
    exp = cal.buy_and_hold_instant(start)
    expected = [cal.iso(exp)]
    try:
        reb = BuyAndHoldRebalance(_ts(start)).rebalances
        lst = list(reb)
        ok = (len(lst) == 1 and _is_utc_timestamp(lst[0])
              and _fields(lst[0]) == (exp.year, exp.month, exp.day, exp.hour, exp.minute, exp.second, 0, 0))
        observed = [_render_fields(_fields(x)) if isinstance(x, pd.Timestamp) else repr(x) for x in lst[:4]]
        if not ok and observed == expected:
            observed = [repr(x) for x in lst[:4]]
    except Exception as exc:
        ok = False
        observed = "%s: %s" % (type(exc).__name__, exc)
    sample = {"case": case, "expected": expected, "observed": observed}
    return [("buy-and-hold-instant", ok, observed, expected)], True, sample


def check_case(case, cache=None):
    kind = case["kind"]
    if kind == "buy_and_hold":
        return _check_buy_and_hold(case)
    if cache is None:
        cache = _RangeCache()
    start = cal.parse_iso(case["start"])
    end = cal.parse_iso(case["end"])
    pre = case["pre_market"]
    assert cal.tod_not_before(start, end) and start <= end, ("outside the quantified domain", case)
    results = []

    # ---- construct
    reb = None
    if kind == "weekly":
        wd = case["weekday"]
        known = cal.weekday_is_known(wd)
        try:
            reb = WeeklyRebalance(_ts(start), _ts(end), wd, pre_market=pre)
            observed_ctor = "accepted"
        except ValueError:
            observed_ctor = "ValueError"
        except Exception as exc:
            observed_ctor = "%s: %s" % (type(exc).__name__, exc)
        expected_ctor = "accepted" if known else "ValueError"
        results.append(("unknown-weekday-rejected", observed_ctor == expected_ctor, observed_ctor, expected_ctor))
        if not known:
            return results, True, None
        if reb is None:
            return results, True, None
        exp_dates = cal.weekday_dates_in_range(start, end, wd)
    else:
        try:
            if kind == "daily":
                reb = DailyRebalance(_ts(start), _ts(end), pre_market=pre)
            else:
                reb = EndOfMonthRebalance(_ts(start), _ts(end), pre_market=pre)
            ctor_error = None
        except Exception as exc:
            ctor_error = "%s: %s" % (type(exc).__name__, exc)
        if kind == "daily":
            exp_dates = cal.business_days_in_range(start, end)
        else:
            exp_dates = cal.end_of_month_dates_in_range(start, end)
        if reb is None:
            results.append((_DATES_CLAUSE[kind], False, ctor_error, "%d dates" % len(exp_dates)))
            return results, bool(exp_dates), None

    # oracle self-check: the two readings of "inside the range" agree on the quantified domain
    assert cal.dates_in_range(start, end) == cal.dates_in_range_by_date(start, end), ("oracle_self_check", case)

    try:
        instants = list(reb.rebalances)
        fields = [_fields(t) for t in instants]
    except Exception as exc:
        results.append((_DATES_CLAUSE[kind], False, "%s: %s" % (type(exc).__name__, exc),
                        "%d dates" % len(exp_dates)))
        return results, bool(exp_dates), None

    # ---- <kind>-dates
    obs_dates = sorted(_dt.date(f[0], f[1], f[2]) for f in fields)
    if obs_dates == exp_dates:
        results.append((_DATES_CLAUSE[kind], True, None, None))
    else:
        so, se = set(obs_dates), set(exp_dates)
        extra = sorted(so - se)
        missing = sorted(se - so)
        observed = {"n_dates": len(obs_dates), "extra": [d.isoformat() for d in extra[:5]], "n_extra": len(extra),
                    "missing": [d.isoformat() for d in missing[:5]], "n_missing": len(missing),
                    "repeated": len(obs_dates) != len(so)}
        expected = {"n_dates": len(exp_dates), "first": exp_dates[0].isoformat() if exp_dates else None,
                    "last": exp_dates[-1].isoformat() if exp_dates else None}
        results.append((_DATES_CLAUSE[kind], False, observed, expected))

    if instants:
        # ---- stamps-2100-or-1430
        tod = cal.MARKET_OPEN_TOD if pre else cal.MARKET_CLOSE_TOD
        want = (tod[0], tod[1], 0, 0, 0)
        bad = None
        for f in fields:
            if f[3:] != want:
                bad = f
                break
        if bad is None:
            results.append(("stamps-2100-or-1430", True, None, None))
        else:
            results.append(("stamps-2100-or-1430", False, _render_fields(bad), "%02d:%02d:00 UTC" % tod))

        # ---- tz-utc
        bad = None
        for t in instants:
            if not _is_utc_timestamp(t):
                bad = t
                break
        if bad is None:
            results.append(("tz-utc", True, None, None))
        else:
            results.append(("tz-utc", False, repr(bad), "tz-aware pd.Timestamp with UTC offset 0"))

        # ---- instants-meet-clock-events
        clock, clock_error = cache.get_clock(case["start"], case["end"])
        if clock_error is not None:
            results.append(("instants-meet-clock-events", False, "clock raised " + clock_error,
                            "every instant among the clock's timestamps"))
        else:
            missing = []
            try:
                for t, f in zip(instants, fields):
                    if t not in clock:
                        missing.append(_render_fields(f))
            except Exception as exc:
                missing.append("%s: %s" % (type(exc).__name__, exc))
            if not missing:
                results.append(("instants-meet-clock-events", True, None, None))
            else:
                results.append(("instants-meet-clock-events", False,
                                {"not_on_clock": missing[:5], "n_not_on_clock": len(missing),
                                 "n_clock_events": len(clock)},
                                "every instant among the clock's timestamps"))

    if len(instants) >= 2:
        # ---- strictly-increasing
        bad = None
        try:
            prev = instants[0]
            for i in range(1, len(instants)):
                cur = instants[i]
                if not (prev < cur):
                    bad = (i, repr(prev), repr(cur))
                    break
                prev = cur
        except Exception as exc:
            bad = (-1, "%s: %s" % (type(exc).__name__, exc), "")
        if bad is None:
            results.append(("strictly-increasing", True, None, None))
        else:
            results.append(("strictly-increasing", False, {"index": bad[0], "previous": bad[1], "current": bad[2]},
                            "previous < current"))

    sample = {"case": case, "expected_n": len(exp_dates),
              "expected_first": [d.isoformat() for d in exp_dates[:4]],
              "observed_n": len(instants), "observed_first": [_render_fields(f) for f in fields[:4]]}
    return results, bool(exp_dates), sample


# ---------------------------------------------------------------------------------------------
# case generation
# ---------------------------------------------------------------------------------------------
def _shape_a(d, tod, length):
    return cal.at(d, tod), cal.at(d + length * cal.DAY, cal.END_TOD)


def _shape_b(d, tod, length):
    return cal.at(d, tod), cal.at(d + length * cal.DAY, tod)


def cases_for_range(start, end, salt, reduced=False):
    """The 14 schedule constructions of one range (reduced: 8 - the pre_market flag of the weekly and daily
    constructions rotates with `salt` instead of taking both values)."""
    out = []
    for i, wd in enumerate(WEEKDAYS):
        for pre in ((bool((salt + i) % 2),) if reduced else (False, True)):
            out.append(make_case("weekly", start, end, _weekday_variant(wd, salt + i + (2 if pre else 0)), pre))
    for pre in ((bool(salt % 2),) if reduced else (False, True)):
        out.append(make_case("daily", start, end, None, pre))
    for pre in (False, True):
        out.append(make_case("eom", start, end, None, pre))
    return out


def per_date_extras(d):
    out = []
    for tod in BAH_TODS:
        out.append(make_case("buy_and_hold", cal.at(d, tod)))
    s, e = _shape_a(d, (0, 0), 7)
    for i, wd in enumerate(UNKNOWN_WEEKDAYS):
        out.append(make_case("weekly", s, e, wd, (d.toordinal() + i) % 2 == 1))
    return out


def cases_for_start_date(d, tods=START_TODS, lengths_a=cal.RANGE_LENGTHS, lengths_b=cal.EQUAL_TOD_LENGTHS):
    """All cases of the stated bound whose start date is d (no duplicates by construction).

    The library spends about 0.15 ms per generated stamp (string parsing), so only the ranges up to 10 days are
    crossed with all three start times; for the others one dimension rotates with the date (see BOUND)."""
    out = []
    o = d.toordinal()
    own_tod = o % len(tods)                      # the start time of day this date uses where the time rotates
    for n, tod in enumerate(tods):
        for li, length in enumerate(lengths_a):
            if length in LONG_LENGTHS:
                # 366 on even ordinals, 800 on odd ones; one start time; pre_market flag rotating (8 constructions)
                if n != own_tod or LONG_LENGTHS.index(length) != o % 2:
                    continue
                s, e = _shape_a(d, tod, length)
                out.extend(cases_for_range(s, e, o // 2, reduced=True))
                continue
            if length in MID_LENGTHS and n != own_tod:
                continue
            s, e = _shape_a(d, tod, length)
            out.extend(cases_for_range(s, e, o + length))
        for length in lengths_b:
            if length in MID_LENGTHS and n != own_tod:
                continue
            s, e = _shape_b(d, tod, length)
            out.extend(cases_for_range(s, e, o + length + 1))
    out.extend(per_date_extras(d))
    return out


QUICK_SAMPLE_RANGES = 200
QUICK_SELF_BUDGET_S = 20.0        # safety net only: the quick tier normally ends by exhausting its case list


def _quick_cases(seed):
    # core: a handful of cases that exercise every clause, run first whatever the budget
    s, e = _shape_a(_dt.date(2020, 1, 8), (9, 15), 33)
    for c in cases_for_range(s, e, 0):
        yield c
    yield make_case("buy_and_hold", cal.at(_dt.date(2020, 2, 29), (9, 15)))
    yield make_case("buy_and_hold", cal.at(_dt.date(2020, 2, 28), (9, 15)))
    yield make_case("weekly", s, e, "SAT", False)
    # boundary set (start time of day rotates with the date so that each date gets one, each time many dates)
    for n, d in enumerate(cal.boundary_start_dates()):
        tod = START_TODS[n % len(START_TODS)]
        for c in cases_for_start_date(d, tods=(tod,), lengths_a=(0, 2, 5, 33), lengths_b=(0, 7)):
            yield c
    # ranges anchored on the last business day of a month (24 consecutive months): ending exactly on it with the
    # end's time of day equal to the start's, ending the day before it, starting on it, starting the day after it
    y, m = 2019, 12
    for n in range(24):
        last = cal.last_business_day_of_month(y, m)
        tod = START_TODS[n % len(START_TODS)]
        for length in (3, 31):
            anchored = (
                _shape_b(last - length * cal.DAY, tod, length),
                _shape_a(last - (length + 1) * cal.DAY, tod, length),
                _shape_a(last, tod, length),
                _shape_a(last + cal.DAY, tod, length),
            )
            for s, e in anchored:
                for pre in (False, True):
                    yield make_case("eom", s, e, None, pre)
                    yield make_case("daily", s, e, None, pre)
                yield make_case("weekly", s, e, _weekday_variant(WEEKDAYS[last.weekday()], n), bool(n % 2))
        m += 1
        if m == 13:
            y, m = y + 1, 1
    # seeded sample of ranges from the full product
    rng = random.Random(seed)
    dates = cal.window_dates()
    shapes = [("a", L) for L in cal.RANGE_LENGTHS] + [("b", L) for L in cal.EQUAL_TOD_LENGTHS]
    for _ in range(QUICK_SAMPLE_RANGES):
        d = dates[rng.randrange(len(dates))]
        tod = START_TODS[rng.randrange(len(START_TODS))]
        kind, length = shapes[rng.randrange(len(shapes))]
        s, e = (_shape_a if kind == "a" else _shape_b)(d, tod, length)
        for c in cases_for_range(s, e, rng.randrange(4), reduced=(length in LONG_LENGTHS)):
            yield c
        yield make_case("buy_and_hold", cal.at(d, BAH_TODS[rng.randrange(len(BAH_TODS))]))


_N_CORE = 17


# ---------------------------------------------------------------------------------------------
# accumulation
# ---------------------------------------------------------------------------------------------
class _Acc(object):
    def __init__(self):
        self.evaluations = 0
        self.nontrivial = 0
        self.clauses = dict((c, {"checked": 0, "failed": 0}) for c in CLAUSES)
        self.n_failures = 0
        self.failures = []
        self.samples = []

    def add_case(self, case, cache=None):
        results, nontrivial, _ = check_case(case, cache)
        self.evaluations += 1
        if nontrivial:
            self.nontrivial += 1
        for clause, ok, observed, expected in results:
            self.clauses[clause]["checked"] += 1
            if not ok:
                self.clauses[clause]["failed"] += 1
                self.n_failures += 1
                fc = dict(case)
                fc["clause"] = clause
                self.failures.append((_case_size(case), {"clause": clause, "case": fc,
                                                         "observed": observed, "expected": expected}))
        if len(self.failures) > 4 * MAX_FAILURES:
            self.trim()

    def trim(self):
        self.failures.sort(key=lambda t: (t[0], t[1]["clause"]))
        del self.failures[MAX_FAILURES:]

    def merge(self, other):
        self.evaluations += other.evaluations
        self.nontrivial += other.nontrivial
        for c in CLAUSES:
            self.clauses[c]["checked"] += other.clauses[c]["checked"]
            self.clauses[c]["failed"] += other.clauses[c]["failed"]
        self.n_failures += other.n_failures
        self.failures.extend(other.failures)
        self.trim()

    def result(self, exhaustive, extra_rule=""):
        self.trim()
        return {
            "evaluations": self.evaluations,
            "distinct_nontrivial": self.nontrivial,
            "rule": RULE + extra_rule,
            "samples": self.samples[:6],
            "exhaustive": bool(exhaustive),
            "clauses": self.clauses,
            "n_failures": self.n_failures,
            "failures": [f for _, f in self.failures],
        }


def _work_chunk(ordinals):
    acc = _Acc()
    cache = _RangeCache()
    for o in ordinals:
        for case in cases_for_start_date(_dt.date.fromordinal(o)):
            acc.add_case(case, cache)
    acc.trim()
    return acc


def _fixed_samples(acc):
    s1, e1 = _shape_a(_dt.date(2020, 2, 1), (9, 15), 31)        # Sat start, leap February, month end on a Sat
    s2, e2 = _shape_a(_dt.date(2022, 12, 28), (14, 30), 10)     # year end 2022-12-31 is a Saturday
    cases = [
        make_case("eom", s1, e1, None, False),
        make_case("weekly", s1, e1, "fri", True),
        make_case("daily", s2, e2, None, False),
        make_case("eom", s2, e2, None, True),
        make_case("buy_and_hold", cal.at(_dt.date(2020, 2, 29), (9, 15))),
    ]
    for c in cases:
        _, _, sample = check_case(c)
        if sample is not None:
            acc.samples.append(sample)


def run(tier="quick", seed=0, budget_s=60.0, jobs=1):
    t0 = time.time()
    acc = _Acc()
    if tier == "thorough":
        ordinals = [d.toordinal() for d in cal.window_dates()]
        chunk = 16
        chunks = [ordinals[i:i + chunk] for i in range(0, len(ordinals), chunk)]
        if jobs and jobs > 1:
            ctx = multiprocessing.get_context("fork")
            pool = ctx.Pool(int(jobs))
            try:
                for part in pool.imap(_work_chunk, chunks):
                    acc.merge(part)
            finally:
                pool.close()
                pool.join()
        else:
            for ch in chunks:
                acc.merge(_work_chunk(ch))
        _fixed_samples(acc)
        return acc.result(True)

    limit = min(float(budget_s), QUICK_SELF_BUDGET_S)
    seen = set()
    cache = _RangeCache()
    stopped_by = "end of the fixed case list (deterministic)"
    for case in _quick_cases(seed):
        k = _case_key(case)
        if k in seen:
            continue
        if acc.evaluations >= _N_CORE and time.time() - t0 > limit:     # the core cases always run
            stopped_by = "time budget"
            break
        seen.add(k)
        acc.add_case(case, cache)
    _fixed_samples(acc)
    return acc.result(False, " Quick tier stopped by: %s." % stopped_by)


def replay(case):
    c = dict((k, v) for k, v in case.items() if k != "clause")
    results, _, _ = check_case(c)
    wanted = case.get("clause")
    for clause, ok, observed, expected in results:
        if not ok and (wanted is None or clause == wanted):
            return {"reproduced": True, "clause": clause, "observed": observed, "expected": expected}
    return {"reproduced": False, "clause": wanted if wanted is not None else "", "observed": None, "expected": None}


if __name__ == "__main__":
    _tier = sys.argv[1] if len(sys.argv) > 1 else "quick"
    _jobs = int(sys.argv[2]) if len(sys.argv) > 2 else (16 if _tier == "thorough" else 1)
    _t = time.time()
    _res = run(tier=_tier, seed=0, jobs=_jobs)
    _res["_wall_s"] = round(time.time() - _t, 2)
    print(json.dumps(_res, indent=1, default=str))
