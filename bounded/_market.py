"""Shared helpers for the session-level bounded checks (C07, C08, C14, C18).

* a seeded synthetic market generator that writes Yahoo-style CSV directories,
* small signal-driven alpha models (the library ships none outside /repo/examples),
* a session builder around the REAL ``qstrader.trading.backtest.BacktestTradingSession`` driven by a
  JSON-able configuration dict, and extractors of everything the properties observe,
* bookkeeping shared by the check modules (clause tallies, failure lists, fork pool).

Nothing here is an oracle: oracles live in the check modules (``c08_reference`` holds the pure-Python
calendar / schedule / CSV reader reused by ``c14_session``).
"""
import csv
import datetime as _dt
import hashlib
import math
import multiprocessing
import os
import random
import time

import pandas as pd
import pytz

import qstrader
from qstrader import settings

QSTRADER_ROOT = os.environ.get("QSTRADER_ROOT", "/repo")
assert os.path.realpath(qstrader.__file__).startswith(os.path.realpath(QSTRADER_ROOT)), (
    "qstrader resolves to %s, expected under %s" % (qstrader.__file__, QSTRADER_ROOT))
settings.PRINT_EVENTS = os.environ.get("PYVC_AMBIENT") == "1"      # (ambient re-run: the library default True, output discarded)

from qstrader.alpha_model.alpha_model import AlphaModel  # noqa: E402
from qstrader.alpha_model.fixed_signals import FixedSignalsAlphaModel  # noqa: E402
from qstrader.asset.equity import Equity  # noqa: E402
from qstrader.asset.universe.dynamic import DynamicUniverse  # noqa: E402
from qstrader.asset.universe.static import StaticUniverse  # noqa: E402
from qstrader.broker.fee_model.percent_fee_model import PercentFeeModel  # noqa: E402
from qstrader.broker.fee_model.zero_fee_model import ZeroFeeModel  # noqa: E402
from qstrader.data.backtest_data_handler import BacktestDataHandler  # noqa: E402
from qstrader.data.daily_bar_csv import CSVDailyBarDataSource  # noqa: E402
from qstrader.signals.momentum import MomentumSignal  # noqa: E402
from qstrader.signals.signals_collection import SignalsCollection  # noqa: E402
from qstrader.signals.sma import SMASignal  # noqa: E402
from qstrader.signals.vol import VolatilitySignal  # noqa: E402
from qstrader.trading.backtest import BacktestTradingSession  # noqa: E402

PORTFOLIO_ID = "000001"
CSV_HEADER = ["Date", "Open", "High", "Low", "Close", "Adj Close", "Volume"]
WEEKDAYS = ("MON", "TUE", "WED", "THU", "FRI")


# --------------------------------------------------------------------------------------------------
# dates
# --------------------------------------------------------------------------------------------------
def parse_day(s):
    return _dt.date(int(s[0:4]), int(s[5:7]), int(s[8:10]))


def business_days(d0, d1):
    """Monday-Friday dates d with d0 <= d <= d1."""
    out, d = [], d0
    while d <= d1:
        if d.weekday() < 5:
            out.append(d)
        d += _dt.timedelta(days=1)
    return out


def add_bdays(d, n):
    step = 1 if n >= 0 else -1
    n = abs(n)
    while n:
        d += _dt.timedelta(days=step)
        if d.weekday() < 5:
            n -= 1
    return d


# --------------------------------------------------------------------------------------------------
# synthetic markets
# --------------------------------------------------------------------------------------------------
def gen_market(spec):
    """spec (JSON-able): {"seed": int, "symbols": [...], "first": "YYYY-MM-DD", "last": "YYYY-MM-DD",
    "starts": {sym: "YYYY-MM-DD"} (optional later first bar), "gap_prob": float (row missing with
    this probability, never the first row), "adjust": bool (Adj Close != Close), "sigma": daily vol,
    "price_range": [lo, hi] of the first close (default 8..400)}.
    Returns {sym: [(date, open, high, low, close, adj_close, volume), ...]} with 2-decimal positive prices
    (2 decimals so that every CSV reader parses them to the same double)."""
    first, last = parse_day(spec["first"]), parse_day(spec["last"])
    starts = spec.get("starts") or {}
    gap_prob = float(spec.get("gap_prob", 0.0))
    adjust = bool(spec.get("adjust", True))
    sigma = float(spec.get("sigma", 0.02))
    market = {}
    for sym in spec["symbols"]:
        rng = random.Random("mkt:%s:%s" % (spec["seed"], sym))
        d0 = parse_day(starts[sym]) if sym in starts else first
        rows = []
        lo, hi = spec.get("price_range") or (8.0, 400.0)
        close = round(rng.uniform(lo, hi), 2)
        drift = rng.uniform(-0.002, 0.003)
        factor = rng.uniform(0.70, 0.98) if adjust else 1.0
        for i, d in enumerate(business_days(d0, last)):
            opn = max(0.5, round(close * math.exp(rng.gauss(0.0, sigma / 2.0)), 2))
            close = max(0.5, round(opn * math.exp(rng.gauss(drift, sigma)), 2))
            high = round(max(opn, close) * (1.0 + abs(rng.gauss(0.0, sigma / 3.0))), 2)
            low = max(0.01, round(min(opn, close) * (1.0 - abs(rng.gauss(0.0, sigma / 3.0))), 2))
            if adjust:
                # "dividends": the adjustment factor creeps up towards 1
                if rng.random() < 0.05:
                    factor = min(1.0, factor * rng.uniform(1.0, 1.01))
                adj = max(0.01, round(close * factor, 2))
            else:
                adj = close
            vol = rng.randrange(1000, 5000000)
            skip = rng.random() < gap_prob
            if i > 0 and skip:
                continue
            rows.append((d, opn, high, low, close, adj, vol))
        market[sym] = rows
    return market


def rewrite_future(market, cut_day, seed, mode):
    """The market with every row dated AFTER cut_day either regenerated from an unrelated random walk
    (mode 'rewrite') or removed (mode 'delete').  Rows dated <= cut_day are the same tuples.
    In 'delete' mode a symbol that would be left without any row keeps its future rows rewritten instead
    (a CSV file with no rows cannot be loaded by any data source) - minus its first three bars, so that the date of its
    first bar, a fact about the future, differs between the two worlds as well."""
    out = {}
    for sym, rows in market.items():
        past = [r for r in rows if r[0] <= cut_day]
        future = [r for r in rows if r[0] > cut_day]
        if mode == "delete" and past:
            out[sym] = past
            continue
        if mode == "delete" and len(future) > 4:
            future = future[3:]
        rng = random.Random("fut:%s:%s:%s" % (seed, sym, cut_day.isoformat()))
        close = round(rng.uniform(2.0, 900.0), 2)
        new = []
        for r in future:
            opn = max(0.5, round(close * math.exp(rng.gauss(0.0, 0.05)), 2))
            close = max(0.5, round(opn * math.exp(rng.gauss(0.0, 0.08)), 2))
            adj = max(0.01, round(close * rng.uniform(0.5, 1.0), 2))
            new.append((r[0], opn, round(max(opn, close) * 1.01, 2),
                        max(0.01, round(min(opn, close) * 0.99, 2)), close, adj, rng.randrange(1000, 5000000)))
        out[sym] = past + new
    return out


def write_market(csv_dir, market):
    for sym, rows in market.items():
        with open(os.path.join(csv_dir, "%s.csv" % sym), "w", newline="") as fh:
            w = csv.writer(fh)
            w.writerow(CSV_HEADER)
            for (d, o, h, l, c, a, v) in rows:
                w.writerow([d.isoformat(), "%.2f" % o, "%.2f" % h, "%.2f" % l, "%.2f" % c, "%.2f" % a, str(v)])


# --------------------------------------------------------------------------------------------------
# alpha models (written here; same style as /repo/examples/momentum_taa.py)
# --------------------------------------------------------------------------------------------------
class WindowUniverse(object):
    """a universe whose assets enter and may leave again (the library ships none that shrinks; the Universe interface is get_assets)"""

    def __init__(self, windows):
        self.windows = windows

    def get_assets(self, dt):
        return [a for a, (entry, exit_) in self.windows.items() if entry <= dt and (exit_ is None or dt < exit_)]


class UniverseWeightsAlphaModel(AlphaModel):
    """Fixed weights, but only for the assets that are in the universe at dt (zero otherwise)."""

    def __init__(self, weights, universe):
        self.weights = weights
        self.universe = universe

    def __call__(self, dt):
        return {a: float(self.weights.get(a, 0.0)) for a in self.universe.get_assets(dt)}


class TopNMomentumAlphaModel(AlphaModel):
    """1/N to the N universe assets of highest holding-period return (ties -> asset name); with
    long_short also -1/N to the N lowest that are not already long."""

    def __init__(self, signals, lookback, top_n, universe, long_short=False):
        self.signals, self.lookback, self.top_n = signals, lookback, top_n
        self.universe, self.long_short = universe, long_short

    def __call__(self, dt):
        assets = list(self.universe.get_assets(dt))
        weights = {a: 0.0 for a in assets}
        if self.signals.warmup >= self.lookback and assets:
            known = set(self.signals["momentum"].assets)
            mom = {a: float(self.signals["momentum"](a, self.lookback)) for a in assets if a in known}
            ranked = sorted(mom, key=lambda a: (-mom[a], a))
            top = ranked[:self.top_n]
            for a in top:
                weights[a] = 1.0 / self.top_n
            if self.long_short:
                for a in [a for a in ranked[::-1] if a not in top][:self.top_n]:
                    weights[a] = -1.0 / self.top_n
        return weights


class SMACrossAlphaModel(AlphaModel):
    """weight 1 when the short moving average is above the long one, else 0 (or -1 with long_short)."""

    def __init__(self, signals, short, long, universe, long_short=False):
        self.signals, self.short, self.long = signals, short, long
        self.universe, self.long_short = universe, long_short

    def __call__(self, dt):
        assets = list(self.universe.get_assets(dt))
        weights = {a: 0.0 for a in assets}
        if self.signals.warmup >= self.long:
            known = set(self.signals["sma"].assets)
            for a in assets:
                if a not in known:
                    continue
                s = float(self.signals["sma"](a, self.short))
                l = float(self.signals["sma"](a, self.long))
                weights[a] = 1.0 if s > l else (-1.0 if self.long_short else 0.0)
        return weights


class InverseVolAlphaModel(AlphaModel):
    """weight 1/vol (0 when the volatility is 0 or not available yet)."""

    def __init__(self, signals, lookback, universe):
        self.signals, self.lookback, self.universe = signals, lookback, universe

    def __call__(self, dt):
        assets = list(self.universe.get_assets(dt))
        weights = {a: 0.0 for a in assets}
        if self.signals.warmup >= self.lookback:
            known = set(self.signals["vol"].assets)
            for a in assets:
                if a not in known:
                    continue
                v = float(self.signals["vol"](a, self.lookback))
                weights[a] = (1.0 / v) if v > 1e-6 else 0.0
        return weights


# --------------------------------------------------------------------------------------------------
# session builder
# --------------------------------------------------------------------------------------------------
def ts(s):
    return pd.Timestamp(s, tz=pytz.UTC)


def asset_of(sym):
    return "EQ:%s" % sym


def make_data_source(csv_dir, symbols):
    return CSVDailyBarDataSource(csv_dir, Equity, csv_symbols=list(symbols))


class _QtsTap(object):
    """Stands in front of session.qts: remembers the `stats` dict handed over by run() (so that the
    allocation rows survive a run that raises) and the instants at which the trading system was invoked."""

    def __init__(self, inner, holder):
        self.inner, self.holder = inner, holder

    def __call__(self, dt, stats=None):
        self.holder["stats"] = stats
        self.holder["calls"].append(str(dt))
        return self.inner(dt, stats=stats)

    def __getattr__(self, name):
        return getattr(self.inner, name)


def build_session(csv_dir, cfg, data_source=None, default_handler=False):
    """cfg (JSON-able):
      symbols [..]; start/end/burn_in "YYYY-MM-DD HH:MM" (burn_in may be None);
      rebalance 'weekly'|'daily'|'end_of_month'|'buy_and_hold'; weekday 'MON'..'FRI';
      long_only bool; cash_buffer float; gross_leverage float; fee None|[commission, tax];
      initial_cash float;
      universe {"kind":"static"} | {"kind":"dynamic","dates":{sym:"YYYY-MM-DD HH:MM"}} (missing -> start);
      alpha {"kind":"fixed","weights":{sym:w}} | {"kind":"universe_fixed","weights":{sym:w}}
            | {"kind":"momentum","lookback":n,"top_n":k} | {"kind":"sma","short":a,"long":b}
            | {"kind":"vol","lookback":n}
    Returns (session, taps) where taps = {"txns": [...], "holder": {...}} are filled while it runs."""
    symbols = list(cfg["symbols"])
    assets = [asset_of(s) for s in symbols]
    start_dt, end_dt = ts(cfg["start"]), ts(cfg["end"])
    burn_in = ts(cfg["burn_in"]) if cfg.get("burn_in") else None
    ucfg = cfg.get("universe") or {"kind": "static"}
    if ucfg["kind"] == "static":
        universe = StaticUniverse(assets)
    elif ucfg["kind"] == "window":
        # assets may also LEAVE: member iff entry <= dt < exit (missing entry -> start, missing exit -> never)
        dates, exits = ucfg.get("dates") or {}, ucfg.get("exits") or {}
        universe = WindowUniverse({asset_of(s): (ts(dates[s]) if s in dates else start_dt, ts(exits[s]) if s in exits else None)
                                   for s in symbols})
    else:
        dates = ucfg.get("dates") or {}
        universe = DynamicUniverse({asset_of(s): (ts(dates[s]) if s in dates else start_dt) for s in symbols})
    if data_source is None:
        data_source = make_data_source(csv_dir, symbols)
    data_handler = BacktestDataHandler(universe, data_sources=[data_source])

    long_only = bool(cfg["long_only"])
    acfg = cfg["alpha"]
    signals = None
    kind = acfg["kind"]
    if kind == "fixed":
        alpha = FixedSignalsAlphaModel({asset_of(s): w for s, w in acfg["weights"].items()})
    elif kind == "universe_fixed":
        alpha = UniverseWeightsAlphaModel({asset_of(s): w for s, w in acfg["weights"].items()}, universe)
    elif kind == "momentum":
        sig = MomentumSignal(start_dt, universe, lookbacks=[acfg["lookback"]])
        signals = SignalsCollection({"momentum": sig}, data_handler)
        alpha = TopNMomentumAlphaModel(signals, acfg["lookback"], acfg["top_n"], universe, long_short=not long_only)
    elif kind == "sma":
        sig = SMASignal(start_dt, universe, lookbacks=[acfg["short"], acfg["long"]])
        signals = SignalsCollection({"sma": sig}, data_handler)
        alpha = SMACrossAlphaModel(signals, acfg["short"], acfg["long"], universe, long_short=not long_only)
    elif kind == "vol":
        sig = VolatilitySignal(start_dt, universe, lookbacks=[acfg["lookback"]])
        signals = SignalsCollection({"vol": sig}, data_handler)
        alpha = InverseVolAlphaModel(signals, acfg["lookback"], universe)
    else:
        raise KeyError(kind)

    fee = cfg.get("fee")
    fee_model = ZeroFeeModel() if fee is None else PercentFeeModel(commission_pct=fee[0], tax_pct=fee[1])
    kwargs = {}
    if cfg["rebalance"] == "weekly":
        kwargs["rebalance_weekday"] = cfg["weekday"]
    if long_only:
        kwargs["cash_buffer_percentage"] = cfg["cash_buffer"]
    else:
        kwargs["gross_leverage"] = cfg["gross_leverage"]
    session = BacktestTradingSession(
        start_dt, end_dt, universe, alpha, signals=signals, initial_cash=cfg.get("initial_cash", 1e6),
        rebalance=cfg["rebalance"], long_only=long_only, fee_model=fee_model, burn_in_dt=burn_in,
        data_handler=None if (default_handler and signals is None) else data_handler, portfolio_id=PORTFOLIO_ID, **kwargs)

    taps = {"txns": [], "holder": {"stats": None, "calls": []}}
    port = session.broker.portfolios[PORTFOLIO_ID]
    original = port.transact_asset

    def recording_transact(txn):
        original(txn)
        q = txn.quantity
        taps["txns"].append((str(txn.dt), txn.asset, int(q) if q == int(q) else float(q), float(txn.price),
                             float(txn.commission)))

    port.transact_asset = recording_transact
    session.qts = _QtsTap(session.qts, taps["holder"])
    return session, taps


def _alloc_rows(rows):
    out = []
    for row in rows or []:
        out.append((str(row.get("Date")), [(k, float(v)) for k, v in row.items() if k != "Date"],
                    list(row.keys())))
    return out


def _frame(df):
    return {"index": [str(i) for i in df.index], "columns": [str(c) for c in df.columns],
            "rows": [[float(x) for x in r] for r in df.values.tolist()]}


def observe(session, taps, error=None):
    """Everything the four properties look at, as plain Python data."""
    port = session.broker.portfolios[PORTFOLIO_ID]
    fills = [(str(e.dt), e.description, float(e.debit), float(e.credit), float(e.balance))
             for e in port.history if e.type == "asset_transaction"]
    rows = session.target_allocations
    if not rows and taps["holder"]["stats"] is not None:       # run() raised before publishing them
        rows = taps["holder"]["stats"]["target_allocations"]
    obs = {
        "error": error,
        "equity": [(str(t), float(v)) for t, v in session.equity_curve],
        "fills": fills,
        "txns": list(taps["txns"]),
        "alloc_rows": _alloc_rows(rows),
        "qts_calls": list(taps["holder"]["calls"]),
        "cash": float(session.broker.get_portfolio_cash_balance(PORTFOLIO_ID)),
        "holdings": {a: (int(d["quantity"]) if d["quantity"] == int(d["quantity"]) else float(d["quantity"]))
                     for a, d in session.broker.get_portfolio_as_dict(PORTFOLIO_ID).items()
                     if d["quantity"] != 0},
        "account_equity": float(session.broker.get_account_total_equity()["master"]),
        "broker_dt": str(session.broker.current_dt),
    }
    if error is None:
        try:
            obs["equity_df"] = _frame(session.get_equity_curve())
        except Exception as exc:  # noqa: BLE001
            obs["equity_df"] = {"error": "%s: %s" % (type(exc).__name__, exc)}
        try:
            obs["alloc_df"] = _frame(session.get_target_allocations())
        except Exception as exc:  # noqa: BLE001
            obs["alloc_df"] = {"error": "%s: %s" % (type(exc).__name__, exc)}
    return obs


def run_session(csv_dir, cfg, data_source=None, default_handler=False):
    """Build and run the real session; never raises for a failing run: the error (type, message, broker
    clock when it was raised) is part of the observation."""
    try:
        session, taps = build_session(csv_dir, cfg, data_source=data_source, default_handler=default_handler)
    except Exception as exc:  # noqa: BLE001
        return {"error": {"type": type(exc).__name__, "msg": str(exc), "at": "0000-00-00 construction"},
                "equity": [], "fills": [], "txns": [], "alloc_rows": [], "qts_calls": [], "cash": float("nan"),
                "holdings": {}, "account_equity": float("nan"), "broker_dt": "0000-00-00 construction"}
    error = None
    try:
        session.run()
    except Exception as exc:  # noqa: BLE001
        error = {"type": type(exc).__name__, "msg": str(exc), "at": str(session.broker.current_dt)}
    return observe(session, taps, error)


def parse_fill_description(desc):
    """'LONG 12 EQ:AAA 101.25 03/01/2019' -> (asset, signed quantity, price to 2 d.p.)"""
    parts = desc.split(" ")
    qty = float(parts[1])              # quantities may be printed as '12' or '-3.0'
    return parts[2], (int(qty) if qty == int(qty) else qty), float(parts[3])


# --------------------------------------------------------------------------------------------------
# digests (bit-for-bit)
# --------------------------------------------------------------------------------------------------
def _bits(x):
    if isinstance(x, float):
        return "nan" if x != x else x.hex()
    if isinstance(x, (list, tuple)):
        return "[" + ",".join(_bits(y) for y in x) + "]"
    if isinstance(x, dict):
        return "{" + ",".join("%s:%s" % (_bits(k), _bits(v)) for k, v in x.items()) + "}"
    return repr(x)


def bits(x):
    """Canonical text of a nested observation in which floats are written bit-exactly."""
    return _bits(x)


def digest(x):
    return hashlib.sha256(_bits(x).encode()).hexdigest()[:20]


# --------------------------------------------------------------------------------------------------
# bookkeeping shared by the check modules
# --------------------------------------------------------------------------------------------------
def jsonable(x):
    """Strict-JSON-safe copy (NaN / infinities become strings, tuples become lists)."""
    if isinstance(x, float):
        return x if x == x and abs(x) != float("inf") else str(x)
    if isinstance(x, (list, tuple)):
        return [jsonable(y) for y in x]
    if isinstance(x, dict):
        return {str(k): jsonable(v) for k, v in x.items()}
    if x is None or isinstance(x, (int, str, bool)):
        return x
    return str(x)


class Tally(object):
    def __init__(self, clause_names):
        self.clauses = {c: {"checked": 0, "failed": 0} for c in clause_names}
        self.failures = []
        self.n_failures = 0

    def check(self, clause, ok, case, observed=None, expected=None, size=0):
        self.clauses[clause]["checked"] += 1
        if not ok:
            self.clauses[clause]["failed"] += 1
            self.n_failures += 1
            self.failures.append((size, len(self.failures),
                                  {"clause": clause, "case": case, "observed": jsonable(observed),
                                   "expected": jsonable(expected)}))
        return ok

    def merge(self, other):
        for c, d in other["clauses"].items():
            self.clauses[c]["checked"] += d["checked"]
            self.clauses[c]["failed"] += d["failed"]
        self.n_failures += other["n_failures"]
        for f in other["failures"]:
            self.failures.append((f.pop("_size", 0), len(self.failures), f))

    def export(self):
        """JSON-able partial result of one worker (failures keep their size for the global sort)."""
        fs = []
        for size, _, f in sorted(self.failures, key=lambda t: (t[0], t[1]))[:25]:
            g = dict(f)
            g["_size"] = size
            fs.append(g)
        return {"clauses": self.clauses, "n_failures": self.n_failures, "failures": fs}

    def kept_failures(self):
        return [f for _, _, f in sorted(self.failures, key=lambda t: (t[0], t[1]))[:25]]


def case_size(case):
    """Smaller = fewer assets, shorter range (used to list the smallest failing cases first)."""
    cfg = case.get("cfg", {})
    days = (parse_day(cfg.get("end", "2000-01-01")) - parse_day(cfg.get("start", "2000-01-01"))).days
    return len(cfg.get("symbols", [])) * 1000 + days


def pool_map(fn, items, jobs):
    """Ordered map over items; forked worker processes when jobs > 1."""
    if jobs <= 1 or len(items) <= 1:
        return [fn(x) for x in items]
    ctx = multiprocessing.get_context("fork")
    with ctx.Pool(processes=min(jobs, len(items))) as pool:
        return pool.map(fn, items, chunksize=1)


def pool_iter(fn, items, jobs):
    """Ordered lazy map over items on one pool of forked workers (a plain loop when jobs <= 1).  Closing the
    generator early terminates the pool."""
    if jobs <= 1 or len(items) <= 1:
        for x in items:
            yield fn(x)
        return
    ctx = multiprocessing.get_context("fork")
    pool = ctx.Pool(processes=min(jobs, len(items)))
    try:
        for r in pool.imap(fn, items, chunksize=1):
            yield r
    finally:
        pool.terminate()
        pool.join()


class Budget(object):
    def __init__(self, seconds):
        self.t0 = time.monotonic()
        self.seconds = seconds

    def used(self):
        return time.monotonic() - self.t0

    def left(self):
        return self.seconds - self.used()


def approx(a, b, rel=1e-9, abs_=1e-12):
    if a != a or b != b:
        return (a != a) and (b != b)
    return abs(a - b) <= max(abs_, rel * max(abs(a), abs(b)))
