"""Bounded stand-in for property C06 "Market data is point-in-time".

The REAL ``qstrader.data.daily_bar_csv.CSVDailyBarDataSource`` (constructor on generated CSV directories,
``get_bid`` / ``get_ask``) and the REAL ``qstrader.data.backtest_data_handler.BacktestDataHandler`` are run
over an enumerated space of CSV files and query instants and compared with an independent pure-Python
row-scan oracle (``spec_price``) written from the property statement.  Nothing here is a proof: the result
is *bounded* (exhaustive inside the stated bound in the thorough tier, sampled in the quick tier).

The date lattice is parametrised by a BASE DATE (``WINDOWS``): the same units (day indices, masks, row orders)
and the same 59 instants relative to the base are generated for a winter window, a summer window and two
windows holding a daylight-saving switch, because the oracle is time-zone free (14:30 / 21:00 UTC on every
date) while a library change may not be.  Every unit / failure case carries its ``base``; a case without one
means the winter window 2020-01-02.
"""
import datetime as _dt
import itertools
import math
import os
import random
import tempfile
import time
import warnings

import pandas as pd

import qstrader
from qstrader import settings as _qs_settings

_ROOT = os.environ.get("QSTRADER_ROOT", "/repo")
assert os.path.realpath(qstrader.__file__).startswith(os.path.realpath(_ROOT)), (qstrader.__file__, _ROOT)
_qs_settings.PRINT_EVENTS = os.environ.get("PYVC_AMBIENT") == "1"

from qstrader.data.daily_bar_csv import CSVDailyBarDataSource  # noqa: E402
from qstrader.data.backtest_data_handler import BacktestDataHandler  # noqa: E402

PROPERTY = "C06"

BOUND = (
    "Dates: 7-day lattices ('windows') given by a BASE DATE, always a Thursday, so every window contains a Sat "
    "and a Sun (bars may sit on any lattice day). Windows: W0 = 2020-01-02 .. 2020-01-08 (northern winter; the "
    "main window), W1 = 2020-07-02 .. 07-08 (US/EU summer time), W2 = 2021-03-11 .. 03-17 (contains the US "
    "clock change of Sun 2021-03-14), W3 = 2021-10-28 .. 11-03 (contains the EU clock change of Sun 2021-10-31, "
    "one week before the US change of 2021-11-07). The oracle knows no time zone: a bar opens at 14:30 UTC and "
    "closes at 21:00 UTC on every date. A dataset = (window; set S of 0..4 lattice days, one bar each; for "
    "every bar a 3-bit mask saying whether the Open / Close / Adj Close cell is present or empty; adjust_prices "
    "on/off); a file = a dataset + a row permutation. Prices are fixed functions of (asset, day index, column), "
    "all distinct, Adj Close != Close in every row. Query instants: a 59-point UTC lattice per window = "
    "{13:29:59, 13:30:00, 14:29:59, 14:30:00, 19:59:59, 20:00:00, 20:59:59, 21:00:00} (the open/close boundaries "
    "and one hour before them) on each of the 7 lattice days + base-1d 12:00 (before everything) + base+4d "
    "00:00 (Sun/Mon midnight) + base+7d 03:00 (after everything); every file is queried (bid and ask, source "
    "and data handler) at all 59 instants of its window, then again in descending order with every instant "
    "asked twice (lru_cache). Every EXTENDED dataset (see below) with at least 2 bars is also loaded (a) with whole-number opens written WITHOUT a "
    "decimal point next to closes that carry .75 (integer Open column, float Close column), (b) with its first open set to "
    "exactly 0.0 and its second close to a negative number, and every extended dataset with at least 3 bars and a free lattice day "
    "between its first and last bar (c) next to a second asset with the SAME first day, last day and row count but another "
    "day in between, on one source, asked alternately with either asset first. "
    "THOROUGH (exhaustive: 73 070 non-empty files x 59 instants = 4 311 130 cases, + 8 header-only files). "
    "On W0 the full enumeration (64 568 non-empty files): (a) |S|<=2: every S x every mask x every row "
    "permutation x adjust on/off; (b) |S|=3: every S x all 512 masks x adjust on/off in date order, and every "
    "S x every one of the 6 row permutations x adjust on/off for the 46 masks with at most 2 empty cells; "
    "(c) |S|=4: every S x adjust on/off x the 79 masks with at most 2 empty cells in date order, and every S x "
    "all 24 row permutations x adjust on/off with all cells present. On each of W1, W2, W3 (2 834 non-empty "
    "files each): the 24 fixed boundary datasets described under QUICK, complete, + a reduced enumeration: "
    "|S| in {1, 2}, every S x every mask x adjust on/off, rows in date order, not extended. "
    "'Extended' datasets (on W0 those with |S| + number of empty cells <= 4: 1 808 datasets incl. the 2 "
    "header-only ones; on W1..W3 the 13 extended fixed datasets) additionally get: for every cut after the j-th "
    "bar (1<=j<|S|) a variant with the later rows rewritten (other prices, complemented masks) and a variant "
    "with the later rows removed; a second asset B (2 bars, first date != A's first date) loaded alone and "
    "together with A; interleaved A/B query sequences on the two-asset source; data handlers over the source "
    "lists [A,B], [B,A], [B,AB], [Alt,A], [A,Alt] and an unknown asset. 'Twin' datasets (on W0 every extended "
    "dataset with at least one bar, 1 806; on W1..W3 the 2 twin fixed datasets) additionally get, under "
    "'cache-transparent': two CSVDailyBarDataSource objects alive at once on the SAME directory (same csv_dir, "
    "same csv_symbols) with adjust_prices False and True, (1) the unadjusted one asked at all 59 instants, then "
    "the adjusted one, then both again in descending order, and (2) a fresh pair asked alternately instant by "
    "instant (first asker alternating), cold then warm; each must answer exactly like a source with ITS OWN "
    "flag living alone in its directory, and that lone source is held against the oracle for its flag. |S|=0 "
    "(header-only file) is checked under the separate clause 'empty-file'. "
    "QUICK (not exhaustive), in this order: (i) on W0 the 24 fixed boundary datasets = 2 header-only + 11 "
    "hand-picked (day set, mask) pairs x adjust on/off with up to 2 row permutations each, 13 of them extended "
    "and 2 twin; (ii) on each of W1, W2, W3 the same 11 non-empty fixed (day set, mask) pairs once each (adjust "
    "alternating with dataset index + window number, rows in date order), one 3-bar dataset per window extended "
    "and with one row permutation; (iii) a random.Random(seed) sample of 48 distinct datasets on W0 drawn from "
    "the thorough W0 space (one random extra row permutation each where the thorough tier permutes, every 5th "
    "extended where the thorough tier extends, none twin); stopped early only if 80% of min(budget_s, 25 s) is "
    "used, which can only shorten (iii) unless budget_s is below about 13 s."
)

# --------------------------------------------------------------------------------------------------------
# input space
# --------------------------------------------------------------------------------------------------------
N_DAYS = 7
_UTC = _dt.timezone.utc
_OPEN_T = _dt.time(14, 30, 0)
_CLOSE_T = _dt.time(21, 0, 0)
# the four instants at the open/close boundaries and the four one hour earlier (where a bar stamped in a
# daylight-saving local time instead of fixed 14:30/21:00 UTC shows)
_BOUNDARY_TIMES = [_dt.time(14, 29, 59), _dt.time(14, 30, 0), _dt.time(20, 59, 59), _dt.time(21, 0, 0)]
_HOUR_EARLY_TIMES = [_dt.time(13, 29, 59), _dt.time(13, 30, 0), _dt.time(19, 59, 59), _dt.time(20, 0, 0)]
_PROBE_TIMES = _HOUR_EARLY_TIMES + _BOUNDARY_TIMES
N_INSTANTS = 3 + N_DAYS * len(_PROBE_TIMES)           # 59

# 7-day windows, each given by its BASE DATE (a Thursday, so that lattice days 2 / 3 are Sat / Sun).
WINTER = "2020-01-02"
WINDOWS = [
    (WINTER, "northern winter, US and EU on standard time throughout"),
    ("2020-07-02", "northern summer, US and EU on daylight-saving time throughout"),
    ("2021-03-11", "contains Sun 2021-03-14, US clocks go forward (EU still on standard time)"),
    # one week before the US switch of 2021-11-07: a US-zone stamp is shifted on all 7 days here, an EU-zone
    # stamp on the first 3 only (a window holding 2021-11-07 instead would be EU-standard throughout)
    ("2021-10-28", "contains Sun 2021-10-31, EU clocks go back (US still on daylight-saving time)"),
    ("2150-06-04", "far in the future: bars dated after the day the check runs are bars like any other"),
]
EXTRA_BASES = [WINDOWS[-1][0]] + [b for b, _ in WINDOWS[1:-1]]


def _mk(date, tm):
    return _dt.datetime.combine(date, tm, tzinfo=_UTC)


class _Lattice(object):
    """The days and query instants of the 7-day window starting at `base` (ISO date string)."""

    def __init__(self, base):
        self.base = base
        self.day0 = _dt.date.fromisoformat(base)
        self.days = [self.day0 + _dt.timedelta(days=i) for i in range(N_DAYS)]
        out = [_mk(self.day0 - _dt.timedelta(days=1), _dt.time(12, 0, 0))]      # before everything
        for d in self.days:
            for tm in _PROBE_TIMES:
                out.append(_mk(d, tm))
        out.append(_mk(self.day0 + _dt.timedelta(days=4), _dt.time(0, 0, 0)))   # Sun->Mon midnight
        out.append(_mk(self.day0 + _dt.timedelta(days=N_DAYS), _dt.time(3, 0, 0)))   # after everything
        out.sort()
        assert len(out) == N_INSTANTS and len(set(out)) == N_INSTANTS
        self.instants = out                                                   # python datetimes (oracle side)
        self.instant_str = [t.strftime("%Y-%m-%d %H:%M:%S") for t in out]
        self.ts = [pd.Timestamp(s, tz="UTC") for s in self.instant_str]       # library side
        self.sample_i = self.instant_str.index(self.days[2].isoformat() + " 14:29:59")


_LATTICES = {}


def lattice(base=None):
    base = str(base) if base else WINTER
    if base not in _LATTICES:
        _LATTICES[base] = _Lattice(base)
    return _LATTICES[base]


for _b, _ in WINDOWS:
    assert lattice(_b).day0.weekday() == 3, _b
_WIN = lattice(WINTER)
_DAY0, DAYS, INSTANTS, INSTANT_STR, _TS = _WIN.day0, _WIN.days, _WIN.instants, _WIN.instant_str, _WIN.ts


def _unit_base(unit):
    """base date of a unit; cases recorded before the windows existed carry none and mean the winter window"""
    return unit.get("base") or WINTER


def cell_values(asset, day):
    """(open, close, adj close) written in the file for `asset` on lattice day index `day` (all distinct)."""
    if asset == "A":
        o, c = 101.0 + 10 * day, 104.0 + 10 * day
        a = c * (day + 1) / 8.0
    elif asset == "B":
        o, c = 501.0 + 10 * day, 504.0 + 10 * day
        a = c * (day + 2) / 16.0
    elif asset == "ALT":          # "rewritten" rows of asset A
        o, c = 1101.0 + 10 * day, 1104.0 + 10 * day
        a = c * (day + 9) / 32.0
    else:
        raise ValueError(asset)
    return o, c, a


def make_rows(asset, days, masks):
    """rows in date order: [day, open|None, close|None, adj|None]"""
    rows = []
    for d, m in zip(days, masks):
        o, c, a = cell_values(asset, d)
        rows.append([d, o if m[0] else None, c if m[1] else None, a if m[2] else None])
    return rows


class _IntText(float):
    def __repr__(self):
        return "%d" % int(self)


def csv_text(rows, lat=None, int_open=False):
    """The CSV file for rows (in the given order) on the window `lat`.  High/Low/Volume are always present.
    int_open: whole-number opens are written without a decimal point (the column then parses as integers)."""
    lat = lat or _WIN
    lines = ["Date,Open,High,Low,Close,Adj Close,Volume"]
    for d, o, c, a in rows:
        f = lambda x: "" if x is None else (repr(x) if isinstance(x, _IntText) else repr(float(x)))
        if int_open and o is not None and float(o) == int(o):
            o = _IntText(o)
        # High / Low / Volume are never read by the library: present on most rows, EMPTY on some (days 2, 4, 5 of the lattice)
        lines.append("%s,%s,%s,%s,%s,%s,%s" % (lat.days[d].isoformat(), f(o), "" if d == 4 else repr(2000.0 + d),
                                                 "" if d == 5 else repr(1.0 + d), f(c), f(a), "" if d == 2 else str(1000 + d)))
    return "\n".join(lines) + "\n"


# --------------------------------------------------------------------------------------------------------
# the oracle: written from the statement, pure python
# --------------------------------------------------------------------------------------------------------
def spec_observations(rows, adjust, lat=None):
    """Each bar gives (date 14:30 UTC, Open') and (date 21:00 UTC, Close') -- on every date of every year,
    no time zone, no daylight saving; with adjustment Open' =
    Open*AdjClose/Close and Close' = Close*AdjClose/Close = AdjClose.  A value that cannot be formed because
    a needed cell is empty is missing (None).  Sorted by time; a missing value takes the previous
    observation's (already filled) value; if there is none it stays missing.
    Returns [(timestamp, filled value|None, raw value|None)]."""
    lat = lat or _WIN
    obs = []
    for d, o, c, a in rows:
        if adjust:
            if o is None or c is None or a is None:
                ov = None
            else:
                ov = o * (a / c)
            cv = a                       # Close * (Adj/Close) == Adj Close
        else:
            ov, cv = o, c
        obs.append((_mk(lat.days[d], _OPEN_T), ov))
        obs.append((_mk(lat.days[d], _CLOSE_T), cv))
    obs.sort(key=lambda x: x[0])
    out = []
    prev = None
    for ts, v in obs:
        filled = v if v is not None else prev
        out.append((ts, filled, v))
        prev = filled
    return out


def spec_price(rows, adjust, t, lat=None):
    """bid(t) == ask(t): value of the latest observation with timestamp <= t, NaN if none (or still missing).
    Returns (value, in_range, raw_missing)."""
    best = None
    for ts, filled, raw in spec_observations(rows, adjust, lat):
        if ts <= t:
            best = (filled, raw)
        else:
            break
    if best is None:
        return float("nan"), False, False
    filled, raw = best
    return (float("nan") if filled is None else float(filled)), True, raw is None


def spec_first_non_nan(answers):
    for a in answers:
        if a is not None and not math.isnan(a):
            return a
    return float("nan")


# --------------------------------------------------------------------------------------------------------
# helpers
# --------------------------------------------------------------------------------------------------------
CLAUSES = [
    "value-at-latest-observation", "open-close-boundaries", "adjustment", "missing-cell-ffill",
    "no-bar-before-t-gives-nan", "row-order-independent", "future-rows-irrelevant", "cache-transparent", "instant-not-wall-clock",
    "handler-bid-ask-mid-agree", "multi-source-first-non-nan", "assets-independent", "empty-file",
]


def _isnum(x):
    try:
        float(x)
        return True
    except Exception:
        return False


def _eq(a, b):
    if not _isnum(a) or not _isnum(b):
        return False
    a, b = float(a), float(b)
    if math.isnan(a) or math.isnan(b):
        return math.isnan(a) and math.isnan(b)
    return math.isclose(a, b, rel_tol=1e-9, abs_tol=1e-12)


def _j(x):
    """JSON-able rendering of an observed/expected value."""
    if isinstance(x, (tuple, list)):
        return [_j(v) for v in x]
    if isinstance(x, str) or x is None:
        return x
    if _isnum(x):
        x = float(x)
        return "nan" if math.isnan(x) else x
    return repr(x)


def _call(fn, *args):
    try:
        return fn(*args)
    except Exception as e:                      # a raise is an observation, never propagates
        return "raised %s: %s" % (type(e).__name__, e)


class _Acc(object):
    def __init__(self):
        self.clauses = {c: {"checked": 0, "failed": 0} for c in CLAUSES}
        self.failures = []
        self.evaluations = 0
        self.samples = []
        self.cap = 60            # failures recorded per clause (in order of occurrence), so none is crowded out
        self._kept = {}

    def check(self, clause, ok, size, unit, where, observed, expected):
        c = self.clauses[clause]
        c["checked"] += 1
        if not ok:
            c["failed"] += 1
            if self._kept.get(clause, 0) < self.cap:
                self._kept[clause] = self._kept.get(clause, 0) + 1
                self.failures.append((size, {"clause": clause,
                                             "case": {"unit": unit, "where": where, "clause": clause},
                                             "observed": _j(observed), "expected": _j(expected)}))


def _add_sample(samples, s):
    """at most 6 samples: distinct (bars, empty cells) inside a window, one per extra window, rest winter"""
    same = [x for x in samples if x.get("base", WINTER) == s["base"]]
    limit = 6 - len(EXTRA_BASES) if s["base"] == WINTER else (1 if s["base"] in EXTRA_BASES else 0)
    if len(samples) >= 6 or len(same) >= limit:
        return False
    if (s["bars"], s["empty_cells"]) in [(x["bars"], x["empty_cells"]) for x in same]:
        return False
    samples.append(s)
    return True


def _write_dir(base, name, files):
    d = os.path.join(base, name)
    os.mkdir(d)
    for sym, text in files.items():
        with open(os.path.join(d, sym + ".csv"), "w") as fh:
            fh.write(text)
    return d


def _source(path, adjust, symbols=None):
    return CSVDailyBarDataSource(path, "EQ", adjust_prices=adjust, csv_symbols=symbols)


def _query_all(src, sym, lat):
    """first (cold, ascending) pass: [(bid, ask)] for the 59 instants of the window"""
    return [(_call(src.get_bid, ts, sym), _call(src.get_ask, ts, sym)) for ts in lat.ts]


def _b_dataset(a_first):
    """second asset: 2 bars, first date differs from A's first date"""
    b1, b2 = sorted([(a_first + 2) % N_DAYS, (a_first + 5) % N_DAYS])
    masks = [[1, 1, 1], [0 if a_first % 2 == 0 else 1, 1, 1]]
    rows = make_rows("B", [b1, b2], masks)
    file_rows = list(reversed(rows)) if a_first % 3 == 0 else rows
    return rows, file_rows


# --------------------------------------------------------------------------------------------------------
# evaluation of one unit
# --------------------------------------------------------------------------------------------------------
def _unit_size(unit):
    nmiss = sum(3 - sum(m) for m in unit["mask"])
    return (len(unit["days"]), nmiss, len(unit.get("perms", [])), 1 if unit.get("ext") else 0,
            1 if unit.get("twin") else 0)


def eval_unit(unit, acc, base):
    """unit = {"base": ISO base date of the 7-day window (absent = winter), "days": sorted day indices,
               "mask": [[o,c,a] 0/1 per day], "adjust": bool,
               "perms": [non-identity permutations of range(k)], "ext": bool,
               "twin": bool (absent = False): also run the two-sources-on-one-directory scenario}"""
    days, masks, adjust = unit["days"], unit["mask"], bool(unit["adjust"])
    lat = lattice(_unit_base(unit))
    INSTANTS, INSTANT_STR, _TS, NI = lat.instants, lat.instant_str, lat.ts, N_INSTANTS   # of THIS window
    k = len(days)
    size = _unit_size(unit)
    rows = make_rows("A", days, masks)
    udir = tempfile.mkdtemp(dir=base)

    # ---- |S| == 0 : header-only file; no bar, so NaN for every t --------------------------------------
    if k == 0:
        d = _write_dir(udir, "A", {"A": csv_text([], lat)})
        try:
            src = _source(d, adjust)
        except Exception as e:
            acc.check("empty-file", False, size, unit, {"step": "construct"},
                      "raised %s: %s" % (type(e).__name__, e), "a data source answering NaN for every t")
            acc.evaluations += 1
            return
        acc.check("empty-file", True, size, unit, {"step": "construct"}, None, None)
        for i, ts in enumerate(_TS):
            b, a = _call(src.get_bid, ts, "EQ:A"), _call(src.get_ask, ts, "EQ:A")
            acc.evaluations += 1
            acc.check("empty-file", _eq(b, float("nan")) and _eq(a, float("nan")), size, unit,
                      {"step": "query", "t": INSTANT_STR[i]}, (b, a), ("nan", "nan"))
        return

    bar_days = set(days)
    spec = [spec_price(rows, adjust, t, lat) for t in INSTANTS]      # (value, in_range, raw_missing)

    def value_checks(ans, order_tag, spec=spec, adjust=adjust):
        for i in range(NI):
            exp, in_range, raw_missing = spec[i]
            b, a = ans[i]
            ok = _eq(b, exp) and _eq(a, exp)
            where = {"step": "value", "order": order_tag, "t": INSTANT_STR[i]}
            acc.evaluations += 1
            if not in_range:
                acc.check("no-bar-before-t-gives-nan", ok, size, unit, where, (b, a), (exp, exp))
                continue
            acc.check("value-at-latest-observation", ok, size, unit, where, (b, a), (exp, exp))
            t = INSTANTS[i]
            if (t.date() - lat.day0).days in bar_days and t.time() in _PROBE_TIMES:
                acc.check("open-close-boundaries", ok, size, unit, where, (b, a), (exp, exp))
            if adjust:
                acc.check("adjustment", ok, size, unit, where, (b, a), (exp, exp))
            if raw_missing:
                acc.check("missing-cell-ffill", ok, size, unit, where, (b, a), (exp, exp))

    # ---- primary file, rows in date order ---------------------------------------------------------------
    dA = _write_dir(udir, "A", {"A": csv_text(rows, lat)})
    sA = _source(dA, adjust)
    ref = _query_all(sA, "EQ:A", lat)
    value_checks(ref, "date")
    i = lat.sample_i if spec[lat.sample_i][1] else NI - 1
    _add_sample(acc.samples, {"base": lat.base, "bars": k, "empty_cells": size[1], "adjust": adjust,
                              "csv": csv_text(rows, lat), "t": INSTANT_STR[i], "spec": _j(spec[i][0]),
                              "bid": _j(ref[i][0]), "ask": _j(ref[i][1])})

    # cache: descending order, every instant asked twice, must reproduce the cold answers
    for i in range(NI - 1, -1, -1):
        for rep in (1, 2):
            b, a = _call(sA.get_bid, _TS[i], "EQ:A"), _call(sA.get_ask, _TS[i], "EQ:A")
            acc.check("cache-transparent", _eq(b, ref[i][0]) and _eq(a, ref[i][1]), size, unit,
                      {"step": "requery-desc", "rep": rep, "t": INSTANT_STR[i]}, (b, a), ref[i])

    # the same bars with REPEATED prices (a close equal to an earlier close, an open equal to an earlier open): an observation is
    # identified by its date and time, never by its value
    if k >= 3:
        rep_rows = [[d, (100.0 + (d % 2)) if o is not None else None, (102.0 + (d % 2)) if c is not None else None,
                     (102.0 + (d % 2)) if a is not None else None] for d, o, c, a in rows]
        dR = _write_dir(udir, "R", {"A": csv_text(rep_rows, lat)})
        sR = _source(dR, adjust)
        rep_spec = [spec_price(rep_rows, adjust, t, lat) for t in INSTANTS]
        value_checks(_query_all(sR, "EQ:A", lat), "repeated-prices", spec=rep_spec)

    # whole-number opens written WITHOUT a decimal point next to fractional closes (the Open column parses as integers, the Close
    # column as floats): every cell is read at its own value
    if k >= 2 and unit.get("ext"):
        int_rows = [[d, o, (c + 0.75) if c is not None else None, (a + 0.375) if a is not None else None] for d, o, c, a in rows]
        dI = _write_dir(udir, "I", {"A": csv_text(int_rows, lat, int_open=True)})
        int_spec = [spec_price(int_rows, adjust, t, lat) for t in INSTANTS]
        value_checks(_query_all(_source(dI, adjust), "EQ:A", lat), "integer-opens", spec=int_spec)
        # a bar that opens at exactly 0.0 and a close BELOW zero are prices like any other (only an EMPTY cell is padded)
        np_rows = [[d, (0.0 if j == 0 else o) if o is not None else None, (-37.5 - d if j == 1 else c) if c is not None else None,
                    ((-37.5 - d) * (d + 1) / 8.0 if j == 1 else a) if a is not None else None]
                   for j, (d, o, c, a) in enumerate(rows)]
        dN = _write_dir(udir, "N", {"A": csv_text(np_rows, lat)})
        np_spec = [spec_price(np_rows, adjust, t, lat) for t in INSTANTS]
        value_checks(_query_all(_source(dN, adjust), "EQ:A", lat), "zero-and-negative-prices", spec=np_spec)

    # two assets whose files have the SAME first day, last day and number of rows but a different day in between, on one source,
    # asked alternately (each first at every other instant): an asset's answer comes from its own rows
    inner = [x for x in range(days[0] + 1, days[-1]) if x not in bar_days] if (k >= 3 and unit.get("ext")) else []
    if inner:
        cdays = sorted([days[0], inner[0]] + list(days[2:]))
        crows = make_rows("B", cdays, [[1, 1, 1]] * k)
        dT = _write_dir(udir, "T", {"A": csv_text(rows, lat), "C": csv_text(crows, lat)})
        c_spec = [spec_price(crows, adjust, t, lat) for t in INSTANTS]
        for first in (0, 1):
            sT = _source(dT, adjust)
            ansA, ansC = [None] * NI, [None] * NI
            for i in range(NI):
                for sym in (("EQ:A", "EQ:C") if (i + first) % 2 == 0 else ("EQ:C", "EQ:A")):
                    (ansA if sym == "EQ:A" else ansC)[i] = (_call(sT.get_bid, _TS[i], sym), _call(sT.get_ask, _TS[i], sym))
            value_checks(ansA, "same-calendar-shape-%d" % first)
            for i in range(NI):
                acc.check("cache-transparent", _eq(ansC[i][0], c_spec[i][0]) and _eq(ansC[i][1], c_spec[i][0]), size, unit,
                          {"step": "same-calendar-shape", "first": first, "t": INSTANT_STR[i]}, ansC[i], (c_spec[i][0], c_spec[i][0]))

    # zone independence: the same INSTANT written in another time zone is the same query (and must not poison later answers)
    sZ = _source(dA, adjust)
    for i in range(0, NI, 3):
        for zone in ("America/New_York", "Asia/Tokyo"):
            tz = _TS[i].tz_convert(zone)
            b, a = _call(sZ.get_bid, tz, "EQ:A"), _call(sZ.get_ask, tz, "EQ:A")
            acc.check("instant-not-wall-clock", _eq(b, ref[i][0]) and _eq(a, ref[i][1]), size, unit,
                      {"step": "query-in-zone", "zone": zone, "t": INSTANT_STR[i]}, (b, a), ref[i])
    for i in range(NI):
        b, a = _call(sZ.get_bid, _TS[i], "EQ:A"), _call(sZ.get_ask, _TS[i], "EQ:A")
        acc.check("cache-transparent", _eq(b, ref[i][0]) and _eq(a, ref[i][1]), size, unit,
                  {"step": "utc-after-zoned-queries", "t": INSTANT_STR[i]}, (b, a), ref[i])

    # the data under a path is REFRESHED between two sources built with identical arguments: the second one answers from
    # the file it loaded itself (no answers shared between objects that merely look alike)
    dF = _write_dir(udir, "F", {"A": csv_text(rows, lat)})
    sF1 = _source(dF, adjust)
    _query_all(sF1, "EQ:A", lat)
    alt_rows = make_rows("ALT", days, masks)
    with open(os.path.join(dF, "A.csv"), "w") as fh:
        fh.write(csv_text(alt_rows, lat))
    sF2 = _source(dF, adjust)
    alt_spec = [spec_price(alt_rows, adjust, t, lat) for t in INSTANTS]
    got2 = _query_all(sF2, "EQ:A", lat)
    for i in range(NI):
        exp = alt_spec[i][0]
        acc.check("cache-transparent", _eq(got2[i][0], exp) and _eq(got2[i][1], exp), size, unit,
                  {"step": "same-arguments-after-the-file-was-rewritten", "t": INSTANT_STR[i]}, got2[i], (exp, exp))

    # a FRESH source on the same directory whose first pass is DESCENDING must give the answers of the ascending first
    # pass of sA: an answer may not depend on which queries the object answered before (memo with a coarser key than the query)
    sF = _source(dA, adjust)
    for i in range(NI - 1, -1, -1):
        b, a = _call(sF.get_bid, _TS[i], "EQ:A"), _call(sF.get_ask, _TS[i], "EQ:A")
        acc.check("cache-transparent", _eq(b, ref[i][0]) and _eq(a, ref[i][1]), size, unit,
                  {"step": "fresh-source-descending-first-pass", "t": INSTANT_STR[i]}, (b, a), ref[i])

    # data handler over the single source agrees with the source
    h = BacktestDataHandler(None, data_sources=[sA])
    for i, ts in enumerate(_TS):
        rb, ra = ref[i]
        hb = _call(h.get_asset_latest_bid_price, ts, "EQ:A")
        ha = _call(h.get_asset_latest_ask_price, ts, "EQ:A")
        hba = _call(h.get_asset_latest_bid_ask_price, ts, "EQ:A")
        hm = _call(h.get_asset_latest_mid_price, ts, "EQ:A")
        exp_mid = (float(rb) + float(ra)) / 2.0 if _isnum(rb) and _isnum(ra) else float("nan")
        ok = (_eq(hb, rb) and _eq(ha, ra) and isinstance(hba, tuple) and len(hba) == 2
              and _eq(hba[0], rb) and _eq(hba[1], rb) and _eq(hm, exp_mid))
        acc.check("handler-bid-ask-mid-agree", ok, size, unit, {"step": "handler", "t": INSTANT_STR[i]},
                  (hb, ha, hba, hm), (rb, ra, (rb, rb), exp_mid))

    # ---- other row orders ---------------------------------------------------------------------------------
    for p in unit.get("perms", []):
        prow = [rows[j] for j in p]
        dP = _write_dir(udir, "P" + "".join(map(str, p)), {"A": csv_text(prow, lat)})
        sP = _source(dP, adjust)
        ans = _query_all(sP, "EQ:A", lat)
        tag = "perm" + "".join(map(str, p))
        value_checks(ans, tag)
        for i in range(NI):
            acc.check("row-order-independent", _eq(ans[i][0], ref[i][0]) and _eq(ans[i][1], ref[i][1]), size,
                      unit, {"step": "perm", "order": tag, "t": INSTANT_STR[i]}, ans[i], ref[i])

    # ---- two live sources on the SAME directory (same csv_dir, same csv_symbols), different adjust flags ------
    # The memo of get_bid/get_ask must not leak between them: each answers according to ITS OWN flag, i.e.
    # like a source of that flag living alone in its directory (which is itself held against the oracle:
    # `ref` above for the unit's flag, `ref_other` here for the other one).  Adj Close != Close in every row.
    if unit.get("twin"):
        other = not adjust
        spec_other = [spec_price(rows, other, t, lat) for t in INSTANTS]
        text = csv_text(rows, lat)
        s_lone = _source(_write_dir(udir, "L", {"A": text}), other)
        ref_other = _query_all(s_lone, "EQ:A", lat)
        value_checks(ref_other, "lone-other-adjust", spec_other, other)
        alone = {adjust: ref, other: ref_other}

        def twin_check(src, flag, i, step, phase):
            b, a = _call(src.get_bid, _TS[i], "EQ:A"), _call(src.get_ask, _TS[i], "EQ:A")
            exp = alone[flag][i]
            acc.evaluations += 1
            acc.check("cache-transparent", _eq(b, exp[0]) and _eq(a, exp[1]), size, unit,
                      {"step": step, "phase": phase, "source_adjust": flag, "t": INSTANT_STR[i]}, (b, a), exp)

        # (1) the unadjusted source at every instant, then the adjusted one, then both again (warm), descending
        d1 = _write_dir(udir, "T1", {"A": text})
        pair = {False: _source(d1, False), True: _source(d1, True)}
        for flag in (False, True):
            for i in range(NI):
                twin_check(pair[flag], flag, i, "twin-sequential", "cold")
        for i in range(NI - 1, -1, -1):
            for flag in (True, False):
                twin_check(pair[flag], flag, i, "twin-sequential", "warm")
        # (2) a fresh pair asked alternately instant by instant, the first asker alternating too
        d2 = _write_dir(udir, "T2", {"A": text})
        pair = {True: _source(d2, True), False: _source(d2, False)}
        for phase, order in (("cold", range(NI)), ("warm", range(NI - 1, -1, -1))):
            for i in order:
                for flag in ((True, False) if i % 2 == 0 else (False, True)):
                    twin_check(pair[flag], flag, i, "twin-interleaved", phase)

    if not unit.get("ext"):
        return

    # ---- later rows rewritten / removed ------------------------------------------------------------------
    first_obs = _mk(lat.days[days[0]], _OPEN_T)
    s_alt = None
    for j in range(1, k):
        cut_t = _mk(lat.days[days[j]], _OPEN_T)      # opening instant of the first later row
        later_days = days[j:]
        later_masks = [[1 - x for x in m] for m in masks[j:]]
        rw_rows = rows[:j] + make_rows("ALT", later_days, later_masks)
        variants = [("rewritten", rw_rows), ("removed", rows[:j])]
        for tag, vrows in variants:
            dV = _write_dir(udir, "%s%d" % (tag, j), {"A": csv_text(vrows, lat)})
            sV = _source(dV, adjust)
            if tag == "rewritten" and j == 1:
                s_alt = sV
            for i in range(NI):
                if not (first_obs <= INSTANTS[i] < cut_t):
                    continue
                b, a = _call(sV.get_bid, _TS[i], "EQ:A"), _call(sV.get_ask, _TS[i], "EQ:A")
                acc.evaluations += 1
                acc.check("future-rows-irrelevant", _eq(b, ref[i][0]) and _eq(a, ref[i][1]), size, unit,
                          {"step": "future", "variant": tag, "cut": j, "t": INSTANT_STR[i]}, (b, a), ref[i])

    # ---- second asset ----------------------------------------------------------------------------------------
    b_rows, b_file_rows = _b_dataset(days[0])
    dAB = _write_dir(udir, "AB", {"A": csv_text(rows, lat), "B": csv_text(b_file_rows, lat)})
    sB = _source(dAB, adjust, symbols=["B"])
    sAB = _source(dAB, adjust)
    refB = _query_all(sB, "EQ:B", lat)
    specB = [spec_price(b_rows, adjust, t, lat) for t in INSTANTS]
    for i in range(NI):
        exp, in_range, _ = specB[i]
        acc.evaluations += 1
        if in_range:
            acc.check("value-at-latest-observation", _eq(refB[i][0], exp) and _eq(refB[i][1], exp), size, unit,
                      {"step": "value", "asset": "B", "t": INSTANT_STR[i]}, refB[i], (exp, exp))
        else:
            acc.check("no-bar-before-t-gives-nan", _eq(refB[i][0], exp) and _eq(refB[i][1], exp), size, unit,
                      {"step": "value", "asset": "B", "t": INSTANT_STR[i]}, refB[i], (exp, exp))
    single = {"EQ:A": ref, "EQ:B": refB}
    # cold keys only: A at even instants, B at odd instants
    for i in range(NI):
        sym = "EQ:A" if i % 2 == 0 else "EQ:B"
        b, a = _call(sAB.get_bid, _TS[i], sym), _call(sAB.get_ask, _TS[i], sym)
        acc.evaluations += 1
        acc.check("assets-independent", _eq(b, single[sym][i][0]) and _eq(a, single[sym][i][1]), size, unit,
                  {"step": "two-asset", "asset": sym, "t": INSTANT_STR[i]}, (b, a), single[sym][i])
    # an asset the source does not hold must not be answered with another asset's price
    zb = _call(sA.get_bid, _TS[NI - 1], "EQ:B")
    acc.check("assets-independent", (not _isnum(zb)) or math.isnan(float(zb)), size, unit,
              {"step": "unknown-asset", "t": INSTANT_STR[NI - 1]}, zb, "an exception or nan")
    # warm keys: same instant twice with the other asset in between, then a later and an earlier instant
    seq = []
    for i in range(NI):
        seq += [(i, "EQ:A"), (i, "EQ:B"), (i, "EQ:A")]
        if i % 5 == 0:
            seq += [(NI - 1, "EQ:B"), (0, "EQ:A"), (max(i - 1, 0), "EQ:B")]
    for n, (i, sym) in enumerate(seq):
        b, a = _call(sAB.get_bid, _TS[i], sym), _call(sAB.get_ask, _TS[i], sym)
        acc.check("cache-transparent", _eq(b, single[sym][i][0]) and _eq(a, single[sym][i][1]), size, unit,
                  {"step": "interleaved", "n": n, "asset": sym, "t": INSTANT_STR[i]}, (b, a), single[sym][i])

    # ---- several data sources: first non-NaN answer in source order, an exception counts as NaN --------
    named = {"A": sA, "B": sB, "AB": sAB}
    lists = [["A", "B"], ["B", "A"], ["B", "AB"]]
    if s_alt is not None:
        named["Alt"] = s_alt
        lists += [["Alt", "A"], ["A", "Alt"]]

    def num_or_none(x):
        return float(x) if _isnum(x) else None

    for names in lists:
        hh = BacktestDataHandler(None, data_sources=[named[n] for n in names])
        for sym in ("EQ:A", "EQ:B", "EQ:ZZZ"):
            for i, ts in enumerate(_TS):
                ind_b = [num_or_none(_call(named[n].get_bid, ts, sym)) for n in names]
                ind_a = [num_or_none(_call(named[n].get_ask, ts, sym)) for n in names]
                eb, ea = spec_first_non_nan(ind_b), spec_first_non_nan(ind_a)
                hb = _call(hh.get_asset_latest_bid_price, ts, sym)
                ha = _call(hh.get_asset_latest_ask_price, ts, sym)
                hba = _call(hh.get_asset_latest_bid_ask_price, ts, sym)
                hm = _call(hh.get_asset_latest_mid_price, ts, sym)
                ok = (_eq(hb, eb) and _eq(ha, ea) and isinstance(hba, tuple) and len(hba) == 2
                      and _eq(hba[0], eb) and _eq(hba[1], eb) and _eq(hm, (eb + eb) / 2.0))
                acc.check("multi-source-first-non-nan", ok, size, unit,
                          {"step": "multi", "sources": names, "asset": sym, "t": INSTANT_STR[i]},
                          (hb, ha, hba, hm), (eb, ea, (eb, eb), (eb + eb) / 2.0))


# --------------------------------------------------------------------------------------------------------
# enumeration
# --------------------------------------------------------------------------------------------------------
def _all_masks(k):
    return [[list(m[3 * i:3 * i + 3]) for i in range(k)] for m in itertools.product((1, 0), repeat=3 * k)]


def _n_empty(mask):
    return sum(3 - sum(m) for m in mask)


def _nonid_perms(k):
    return [list(p) for p in itertools.permutations(range(k)) if list(p) != list(range(k))]


def winter_units():
    """the full enumeration, on the winter window"""
    units = []
    for k in range(0, 5):
        for S in itertools.combinations(range(N_DAYS), k):
            for mask in _all_masks(k):
                ne = _n_empty(mask)
                if k == 4 and ne > 2:
                    continue
                for adjust in (True, False):
                    if k <= 2:
                        perms = _nonid_perms(k)
                    elif k == 3:
                        perms = _nonid_perms(3) if ne <= 2 else []
                    else:
                        perms = _nonid_perms(4) if ne == 0 else []
                    ext = k + ne <= 4
                    units.append({"base": WINTER, "days": list(S), "mask": mask, "adjust": adjust,
                                  "perms": perms, "ext": ext, "twin": ext and k > 0})
    return units


def reduced_units(base):
    """the reduced enumeration of an extra window: 1..2 bars, every day set x every mask x adjust on/off,
    rows in date order, not extended"""
    units = []
    for k in (1, 2):
        for S in itertools.combinations(range(N_DAYS), k):
            for mask in _all_masks(k):
                for adjust in (True, False):
                    units.append({"base": base, "days": list(S), "mask": mask, "adjust": adjust,
                                  "perms": [], "ext": False, "twin": False})
    return units


def thorough_units():
    units = winter_units()
    for base in EXTRA_BASES:
        units += _fixed_units(base) + reduced_units(base)
    return units


_TWIN_DATASETS = (2, 5)      # fixed datasets that also run the two-sources-on-one-directory scenario


def _fixed_units(base=WINTER):
    P = [1, 1, 1]
    E = [0, 0, 0]
    data = [   # (days, mask or None, perms or None)
        ([0], None, None),                                      # one bar on the first lattice day
        ([6], None, None),                                      # one bar on the last lattice day
        ([2, 3], None, None),                                   # weekend bars
        ([1, 4], None, None),                                   # Friday + Monday (weekend gap)
        ([0, 1, 2, 3], None, [[3, 2, 1, 0], [1, 3, 0, 2]]),
        ([1, 4, 6], [P, [0, 1, 1], [1, 0, 1]], None),           # empty open / empty close
        ([0, 3, 5], [[0, 1, 1], [1, 1, 0], P], None),           # first open empty, an adj close empty
        ([2, 4], [P, E], None),                                 # a fully empty last bar
        ([0, 2, 4, 6], [P, [1, 0, 1], [0, 1, 1], P], [[2, 0, 3, 1]]),
        ([3, 4, 5], [E, P, P], None),                           # a fully empty first bar
        ([5], [[1, 0, 0]], None),
    ]
    u = [{"base": base, "days": [], "mask": [], "adjust": adj, "perms": [], "ext": True, "twin": False}
         for adj in (True, False)]
    for adj in (True, False):
        for i, (days, mask, perms) in enumerate(data):
            k = len(days)
            u.append({"base": base, "days": list(days), "mask": [list(m) for m in (mask or [P] * k)],
                      "adjust": adj,
                      "perms": _nonid_perms(k)[:2] if perms is None else perms,
                      "ext": (i + (0 if adj else 1)) % 2 == 0,      # extended on one of the two adjust twins
                      "twin": i in _TWIN_DATASETS and adj == (i == 5)})
    return u


N_SAMPLE = 48


def _light_fixed_units(base, w):
    """quick tier, extra window number w (1, 2, ..): each of the 11 non-empty fixed datasets once -- dataset i
    with adjust on iff i + w is even, rows in date order; one 3-bar dataset per window (index 5, 6, 9 for
    w = 1, 2, 3) is extended and also gets its first row permutation"""
    out = []
    for i, un in enumerate(x for x in _fixed_units(base) if x["days"] and x["adjust"]):
        ext = i == (5, 6, 9)[(w - 1) % 3]
        out.append({"base": base, "days": un["days"], "mask": un["mask"], "adjust": (i + w) % 2 == 0,
                    "perms": un["perms"][:1] if ext else [], "ext": ext, "twin": False})
    return out


def quick_units(seed, n_sample=None):
    """fixed units of the winter window, fixed units of every extra window, then the seeded winter sample
    (in this order, so that a budget cut only shortens the sample)"""
    n_sample = N_SAMPLE if n_sample is None else n_sample
    rng = random.Random(seed)
    units = _fixed_units(WINTER)
    seen = set(_unit_key(x) for x in units)
    for w, base in enumerate(EXTRA_BASES, 1):
        units += _light_fixed_units(base, w)
    n = 0
    while n < n_sample:
        k = rng.choice([1, 2, 2, 3, 3, 3, 4, 4])
        S = sorted(rng.sample(range(N_DAYS), k))
        if k == 4:
            empties = rng.sample(range(12), rng.choice([0, 1, 2]))
        else:
            empties = [c for c in range(3 * k) if rng.random() < 0.3]
        mask = [[0 if 3 * i + c in empties else 1 for c in range(3)] for i in range(k)]
        ne = _n_empty(mask)
        allowed = _nonid_perms(k) if (k <= 2 or (k == 3 and ne <= 2) or (k == 4 and ne == 0)) else []
        perms = [rng.choice(allowed)] if allowed else []
        ext = (k + ne <= 4) and (n % 5 == 0)
        unit = {"base": WINTER, "days": S, "mask": mask, "adjust": rng.random() < 0.5, "perms": perms,
                "ext": ext, "twin": False}
        key = _unit_key(unit)
        if key in seen:
            continue
        seen.add(key)
        units.append(unit)
        n += 1
    return units


def _unit_key(unit):
    return (_unit_base(unit), tuple(unit["days"]), tuple(tuple(m) for m in unit["mask"]), bool(unit["adjust"]),
            tuple(tuple(p) for p in unit.get("perms", [])), bool(unit.get("ext")), bool(unit.get("twin")))


def _distinct_cases(units):
    """distinct (window, file content incl. row order, adjust flag, query instant) with at least one bar"""
    files = set()
    for un in units:
        if not un["days"]:
            continue
        base = (_unit_base(un), tuple(un["days"]), tuple(tuple(m) for m in un["mask"]), bool(un["adjust"]))
        files.add(base + (tuple(range(len(un["days"]))),))
        for p in un.get("perms", []):
            files.add(base + (tuple(p),))
    return len(files) * N_INSTANTS


# --------------------------------------------------------------------------------------------------------
# driver
# --------------------------------------------------------------------------------------------------------
def _run_chunk(args):
    units, deadline = args
    acc = _Acc()
    done = []
    with warnings.catch_warnings():
        warnings.simplefilter("ignore")
        with tempfile.TemporaryDirectory(prefix="c06_") as base:
            for un in units:
                if deadline is not None and time.time() > deadline:
                    break
                try:
                    eval_unit(un, acc, base)
                except Exception as e:       # harness-level surprise (e.g. constructor raising on a valid file)
                    acc.check("value-at-latest-observation", False, _unit_size(un), un, {"step": "harness"},
                              "raised %s: %s" % (type(e).__name__, e), "no exception")
                done.append(un)
                # keep the temp dir small
                for name in os.listdir(base):
                    _rmtree(os.path.join(base, name))
    return acc, done


def _rmtree(path):
    import shutil
    shutil.rmtree(path, ignore_errors=True)


def _merge(total, acc):
    for c, v in acc.clauses.items():
        total.clauses[c]["checked"] += v["checked"]
        total.clauses[c]["failed"] += v["failed"]
    total.evaluations += acc.evaluations
    total.failures.extend(acc.failures)
    total.failures.sort(key=lambda f: (f[0], f[1]["clause"], str(f[1]["case"]["where"])))
    # keep the smallest few per clause so that no clause's failures are crowded out
    kept, per = [], {}
    for f in total.failures:
        n = per.get(f[1]["clause"], 0)
        if n < 25:
            kept.append(f)
            per[f[1]["clause"]] = n + 1
    total.failures = kept
    for s in acc.samples:
        _add_sample(total.samples, s)


def run(tier="quick", seed=0, budget_s=60.0, jobs=1):
    t0 = time.time()
    total = _Acc()
    if tier == "quick":
        units = quick_units(seed)
        deadline = t0 + max(1.0, min(float(budget_s), 25.0) * 0.8)
        acc, done = _run_chunk((units, deadline))
        _merge(total, acc)
        exhaustive = False
    else:
        units = thorough_units()
        chunks = [units[i:i + 48] for i in range(0, len(units), 48)]
        done = []
        if jobs and jobs > 1:
            import multiprocessing
            ctx = multiprocessing.get_context("fork")
            with ctx.Pool(int(jobs)) as pool:
                for acc, d in pool.imap(_run_chunk, [(c, None) for c in chunks]):
                    _merge(total, acc)
                    done.extend(d)
        else:
            for c in chunks:
                acc, d = _run_chunk((c, None))
                _merge(total, acc)
                done.extend(d)
        exhaustive = len(done) == len(units)

    # at most 25 failures, smallest cases first, but at least one per failing clause
    fails = sorted(total.failures, key=lambda f: (f[0], f[1]["clause"], str(f[1]["case"]["where"])))
    out, seen_clause = [], set()
    for f in fails:
        if f[1]["clause"] not in seen_clause:
            out.append(f)
            seen_clause.add(f[1]["clause"])
    for f in fails:
        if len(out) >= 25:
            break
        if f not in out:
            out.append(f)
    out.sort(key=lambda f: (f[0], f[1]["clause"], str(f[1]["case"]["where"])))
    n_fail_clauses = sum(v["failed"] for v in total.clauses.values())
    return {
        "property": PROPERTY,
        "tier": tier,
        "seed": seed,
        "evaluations": total.evaluations,
        "distinct_nontrivial": _distinct_cases(done),
        "units": len(done),
        "rule": ("a case = (CSV file content including row order and the actual dates, i.e. the 7-day window "
                 "given by its base date, adjust flag, query instant); every case is generated from a dataset "
                 "(base date, day set, per-cell present/empty mask, adjust) and a row permutation and is queried "
                 "on the real data source for bid and ask at the 59 instants of its window and compared with the "
                 "time-zone-free row-scan oracle (open 14:30 UTC, close 21:00 UTC on every date); windows: base "
                 "2020-01-02 (winter; thorough: full enumeration, quick: 24 fixed datasets + seeded sample of "
                 "48), bases 2020-07-02, 2021-03-11, 2021-10-28 (summer / US spring clock change / EU autumn "
                 "clock change; thorough: 24 fixed datasets + every 1..2-bar dataset x every mask in date "
                 "order, quick: 11 fixed datasets each); non-trivial = the file has at least one bar "
                 "(header-only files are reported under 'empty-file' and not counted); de-duplicated on (base "
                 "date, days, masks, adjust, row order, instant). 'evaluations' also counts the derived variant "
                 "files (later rows rewritten/removed, second asset, lone and same-directory twin sources of "
                 "the other adjust flag) per instant queried. The value clauses are overlapping views of the "
                 "same comparisons: value-at-latest-observation = every in-range instant; "
                 "open-close-boundaries = the eight probe instants of bar days (the four at the 14:30/21:00 "
                 "boundaries and the four one hour before them); adjustment = adjust on; missing-cell-ffill = "
                 "the latest observation at or before t is empty in the file; instants before the first "
                 "observation are checked only by no-bar-before-t-gives-nan. cache-transparent = warm re-queries "
                 "and interleaved two-asset queries reproduce the cold answers, and two live sources on the same "
                 "directory with different adjust flags each answer like a lone source of their own flag; a FRESH "
                 "source whose first pass is descending, and a source that first answered the same instants written "
                 "in New York / Tokyo time, reproduce the ascending cold pass. instant-not-wall-clock = every third "
                 "instant asked in those two zones gives the UTC answer. Units of 3+ bars are also run on a twin "
                 "file with REPEATED prices (opens 100/101, closes 102/103 alternating) under the value clauses. "
                 "Every failure case carries unit.base (absent in old cases = 2020-01-02)."),
        "samples": total.samples,
        "exhaustive": bool(exhaustive),
        "clauses": total.clauses,
        "n_failures": n_fail_clauses,
        "failures": [f[1] for f in out],
        "elapsed_s": round(time.time() - t0, 2),
    }


def replay(case):
    """Re-run the unit of a failure and look for the same (clause-independent) `where`."""
    unit, where = case["unit"], case["where"]
    acc = _Acc()
    acc.cap = 10 ** 9
    with warnings.catch_warnings():
        warnings.simplefilter("ignore")
        with tempfile.TemporaryDirectory(prefix="c06_") as base:
            try:
                eval_unit(unit, acc, base)
            except Exception as e:
                acc.check("value-at-latest-observation", False, _unit_size(unit), unit, {"step": "harness"},
                          "raised %s: %s" % (type(e).__name__, e), "no exception")
    want = case.get("clause")
    hit = None
    for _, f in acc.failures:
        if f["case"]["where"] == where and (want is None or f["clause"] == want):
            hit = f
            break
    if hit is None:
        return {"reproduced": False, "clause": want, "observed": None, "expected": None}
    return {"reproduced": True, "clause": hit["clause"], "observed": hit["observed"], "expected": hit["expected"]}


if __name__ == "__main__":
    import json
    import sys
    _tier = sys.argv[1] if len(sys.argv) > 1 else "quick"
    _jobs = int(sys.argv[2]) if len(sys.argv) > 2 else (16 if _tier == "thorough" else 1)
    print(json.dumps(run(tier=_tier, seed=int(os.environ.get("VERIF_SEED", "0")), jobs=_jobs), indent=1))
