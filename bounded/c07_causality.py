"""C07 (bounded, relational): backtest results up to any date do not depend on later market data.

The REAL session is run on a synthetic CSV directory D and on D' in which every bar after a cut is
replaced by an unrelated random walk, or deleted; everything observed that is dated on or before the cut
(equity points, fills, allocation rows, the two result tables) must be identical bit for bit, and a run
that fails on or before the cut must fail identically in both worlds.  There is no oracle beyond
equality of the two runs.
"""
import datetime as dt
import json
import os
import random
import re
import sys
import tempfile

if __package__ in (None, ""):
    sys.path.insert(0, os.path.dirname(os.path.dirname(os.path.abspath(__file__))))
    __package__ = "bounded"

from . import _market as M  # noqa: E402
from .c08_reference import parse_instant, schedule  # noqa: E402  (calendar arithmetic, used to place cuts)

PROPERTY = "C07"
CLAUSES = ["equity-prefix-identical", "fills-prefix-identical", "allocations-prefix-identical",
           "failure-identical-or-after-cut"]
G_QUICK = 30
G_THOROUGH = 2400
BOUND = (
    "Sampled, not exhaustive. Group g = gen_group(seed, g) from random.Random('c07:<seed>:<g>'): one synthetic market "
    "(2-4 assets, random walk, rows missing with probability 0.08 in 1 market of 3) and one configuration - alpha model cycling with g mod 5 through fixed weights / "
    "fixed weights on a dynamic universe whose last asset's DATA start 5-15 business days into the run and which "
    "enters the universe on or after that day / top-N momentum / SMA crossover / inverse volatility (signal models "
    "on a static or dynamic universe); rebalance kind cycling weekly MON..FRI / daily / end_of_month / buy_and_hold; "
    "long-only (buffer 0-.25) or long/short (leverage 1-2); zero or percentage fees; burn-in on 1 group in 3; "
    "1 group in 12 is a configuration that raises at its first rebalance (negative weight under long-only sizing). "
    "Each group is run once on D and on three D': (a) rows after a cut DAY T rewritten, (b) rows after T deleted, "
    "(c) when Adj Close == Close in the market: rows after day T rewritten and the Close/High/Low of day T itself "
    "rewritten with its Open kept (cut at the instant T 14:30), else a second day-cut rewrite; T is a business day "
    "of the run, half of the time a scheduled rebalance day (or the day after for (c)). One evaluation = one (D, D') "
    "pair. quick: first %d groups (fewer if budget_s runs out); thorough: first %d groups. Comparison is exact "
    "(float bits)." % (G_QUICK, G_THOROUGH))

KINDS = [("weekly", "MON"), ("weekly", "TUE"), ("weekly", "WED"), ("weekly", "THU"), ("weekly", "FRI"),
         ("daily", None), ("end_of_month", None), ("buy_and_hold", None)]
ALPHAS = ["fixed", "late_fixed", "momentum", "sma", "vol"]
SYMS = ["AAA", "BBB", "CCC", "DDD"]


def _hm(t):
    return t.strftime("%Y-%m-%d %H:%M")


def gen_group(seed, g):
    rng = random.Random("c07:%s:%s" % (seed, g))
    akind = ALPHAS[g % 5]
    kind, weekday = KINDS[g % 8]
    long_only = (g // 8 + g) % 2 == 0
    failing = g % 12 == 5
    late_static = g % 12 == 11      # a STATIC universe with an asset whose data starts mid-range: the run fails (price not
    #                                 available) at the first rebalance in every world - identically, message included
    n = rng.choice([2, 3, 3, 4])
    symbols = SYMS[:n]
    start_day = dt.date(2018, 1, 1) + dt.timedelta(days=rng.randrange(0, 1400))
    weeks = rng.randint(4, 10)
    if kind == "end_of_month":
        weeks = max(weeks, 7)
    end_day = start_day + dt.timedelta(days=7 * weeks - 1)
    tod = "14:30" if kind == "buy_and_hold" else rng.choice(["00:00", "14:30"])
    days = M.business_days(start_day, end_day)
    universe = {"kind": "static"}
    starts = {}
    if akind == "late_fixed" or (akind in ("momentum", "sma", "vol") and rng.random() < 0.6):
        late = rng.random() < 0.6 or akind == "late_fixed"
        k = rng.randrange(5, min(16, len(days) - 3))
        entry = days[k + rng.choice([0, 0, 1, 3])]
        if late:
            starts[symbols[-1]] = days[k].isoformat()            # data start here; entry is never earlier
        universe = {"kind": "dynamic", "dates": {symbols[-1]: "%s 00:00" % entry.isoformat()}}
    if late_static:
        akind = "fixed"
        universe = {"kind": "static"}
        starts = {symbols[-1]: days[rng.randrange(max(6, len(days) // 2), len(days) - 2)].isoformat()}
    if failing:
        long_only, akind = True, "fixed"
        universe, starts = {"kind": "static"}, {}
        ws = {s: 1.0 for s in symbols}
        ws[symbols[0]] = -0.5
        alpha = {"kind": "fixed", "weights": ws}
    elif akind in ("fixed", "late_fixed"):
        ws = {s: (rng.choice([0.2, 0.5, 1.0, 2.0]) if long_only else rng.choice([-1.0, -0.5, 0.5, 1.0]))
              for s in symbols}
        alpha = {"kind": "fixed" if universe["kind"] == "static" else "universe_fixed", "weights": ws}
    elif akind == "momentum":
        alpha = {"kind": "momentum", "lookback": rng.choice([2, 3, 5]), "top_n": rng.choice([1, 2])}
    elif akind == "sma":
        alpha = {"kind": "sma", "short": rng.choice([2, 3]), "long": rng.choice([4, 6])}
    else:
        alpha = {"kind": "vol", "lookback": rng.choice([3, 5])}
    burn = None
    if g % 3 == 0 and kind != "buy_and_hold":
        burn = "%s %s" % (days[rng.randrange(3, 12)].isoformat(), rng.choice(["00:00", "14:30", "21:00"]))
    cfg = {
        "symbols": symbols, "start": "%s %s" % (start_day.isoformat(), tod), "end": "%s 23:59" % end_day.isoformat(),
        "burn_in": burn, "rebalance": kind, "weekday": weekday, "long_only": long_only,
        "cash_buffer": rng.choice([0.0, 0.05, 0.25]), "gross_leverage": rng.choice([1.0, 1.5, 2.0]),
        "fee": rng.choice([None, [0.001, 0.0005], [0.005, 0.0]]), "initial_cash": rng.choice([1e5, 1e6]),
        "universe": universe, "alpha": alpha,
    }
    adjust = rng.random() < 0.5
    market = {"seed": rng.randrange(10 ** 9), "symbols": symbols, "first": M.add_bdays(start_day, -8).isoformat(),
              "last": (end_day + dt.timedelta(days=5)).isoformat(), "starts": starts,
              "gap_prob": rng.choice([0.0, 0.0, 0.08]),
              "adjust": adjust, "sigma": 0.03}
    # cuts
    reb_days = [t.date() for t in schedule(kind, weekday, parse_instant(cfg["start"]), parse_instant(cfg["end"]))]
    reb_days = [d for d in reb_days if days[0] <= d < days[-1]]

    def pick(after=0):
        if reb_days and rng.random() < 0.5:
            d = rng.choice(reb_days)
            return M.add_bdays(d, after) if after else d
        return days[rng.randrange(1, len(days) - 1)]

    cuts = [{"day": pick().isoformat(), "mode": "rewrite", "fseed": rng.randrange(10 ** 6)},
            {"day": pick().isoformat(), "mode": "delete", "fseed": rng.randrange(10 ** 6)}]
    if late_static:
        # cut BEFORE the late asset's first bar: deleting the future removes all of its data, rewriting changes it
        first_late = M.parse_day(starts[symbols[-1]])
        early = [d for d in days[2:] if d < first_late]
        if early:
            cuts = [{"day": early[len(early) // 2].isoformat(), "mode": m, "fseed": rng.randrange(10 ** 6)} for m in ("delete", "rewrite")]
    if adjust:
        cuts.append({"day": pick().isoformat(), "mode": "rewrite", "fseed": rng.randrange(10 ** 6)})
    else:
        d = min(pick(after=1), days[-1])
        cuts.append({"day": d.isoformat(), "mode": "midday", "fseed": rng.randrange(10 ** 6)})
    return {"market": market, "cfg": cfg, "cuts": cuts}


# --------------------------------------------------------------------------------------------------
def altered_market(market, cut):
    day = M.parse_day(cut["day"])
    if cut["mode"] in ("rewrite", "delete"):
        return M.rewrite_future(market, day, cut["fseed"], cut["mode"])
    # midday: keep the Open of `day` (and every earlier row), rewrite that day's Close/High/Low and the rest
    out = M.rewrite_future(market, day, cut["fseed"], "rewrite")
    rng = random.Random("mid:%s" % cut["fseed"])
    for sym, rows in out.items():
        for k, r in enumerate(rows):
            if r[0] == day:
                close = max(0.5, round(r[1] * rng.uniform(0.5, 1.8), 2))
                rows[k] = (r[0], r[1], round(max(r[1], close) * 1.01, 2), max(0.01, round(min(r[1], close) * 0.99, 2)),
                           close, close, r[6])
    return out


_HEX = re.compile(r"[0-9a-f]{32}")


def _err(e):
    return None if e is None else (e["type"], _HEX.sub("<id>", e["msg"]), e["at"])


def prefix(obs, cut):
    """Everything dated on or before the cut (a day, or the instant day 14:30 for a midday cut)."""
    limit = cut["day"] + (" 14:30:00" if cut["mode"] == "midday" else " 99")

    def keep(stamp):
        return stamp[:len(limit)] <= limit
    last_day = cut["day"] if cut["mode"] != "midday" else M.add_bdays(M.parse_day(cut["day"]), -1).isoformat()
    out = {
        "equity": [e for e in obs["equity"] if keep(e[0])],
        "fills": [f for f in obs["fills"] if keep(f[0])],
        "txns": [x for x in obs["txns"] if keep(x[0])],
        "alloc": [r for r in obs["alloc_rows"] if keep(r[0])],
        "calls": [c for c in obs["qts_calls"] if keep(c)],
    }
    for name in ("equity_df", "alloc_df"):
        df = obs.get(name)
        if df is None or "error" in df:
            out[name] = df
        else:
            out[name] = [(i, list(zip(df["columns"], r))) for i, r in zip(df["index"], df["rows"]) if i <= last_day]
    return out


def compare(base, other, cut):
    a, b = prefix(base, cut), prefix(other, cut)
    res = []

    def first_diff(x, y):
        for k in range(max(len(x), len(y))):
            if k >= len(x) or k >= len(y) or M.bits(x[k]) != M.bits(y[k]):
                return (x[k] if k < len(x) else None), (y[k] if k < len(y) else None)
        return None, None

    both_done = base["error"] is None and other["error"] is None
    eq_ok = M.bits(a["equity"]) == M.bits(b["equity"]) and (not both_done or M.bits(a["equity_df"]) == M.bits(b["equity_df"]))
    o, e = first_diff(b["equity"], a["equity"])
    res.append(("equity-prefix-identical", eq_ok, {"n": len(b["equity"]), "first_diff": o},
                {"n": len(a["equity"]), "first_diff": e}))
    f_ok = M.bits(a["fills"]) == M.bits(b["fills"]) and M.bits(a["txns"]) == M.bits(b["txns"])
    o, e = first_diff(b["txns"], a["txns"])
    res.append(("fills-prefix-identical", f_ok, {"n": len(b["txns"]), "first_diff": o},
                {"n": len(a["txns"]), "first_diff": e}))
    al_ok = (M.bits(a["alloc"]) == M.bits(b["alloc"]) and a["calls"] == b["calls"]
             and (not both_done or M.bits(a["alloc_df"]) == M.bits(b["alloc_df"])))
    o, e = first_diff(b["alloc"], a["alloc"])
    res.append(("allocations-prefix-identical", al_ok, {"n": len(b["alloc"]), "first_diff": o},
                {"n": len(a["alloc"]), "first_diff": e}))
    limit = cut["day"] + (" 14:30:00" if cut["mode"] == "midday" else " 99")
    ea, eb = _err(base["error"]), _err(other["error"])
    early = [x for x in (ea, eb) if x is not None and x[2][:len(limit)] <= limit]
    res.append(("failure-identical-or-after-cut", (not early) or ea == eb, {"altered_world_error": eb},
                {"original_world_error": ea}))
    return res, (len(a["fills"]) + len(a["alloc"]) > 0), bool(early)


def run_world(market, cfg):
    with tempfile.TemporaryDirectory(prefix="c07_") as d:
        M.write_market(d, market)
        return M.run_session(d, cfg)


def check_group(group, only_cut=None):
    market = M.gen_market(group["market"])
    base = run_world(market, group["cfg"])
    recs = []
    for cut in group["cuts"]:
        if only_cut is not None and cut != only_cut:
            continue
        other = run_world(altered_market(market, cut), group["cfg"])
        res, nontrivial, early_failure = compare(base, other, cut)
        recs.append({"case": {"market": group["market"], "cfg": group["cfg"], "cut": cut}, "results": res,
                     "nontrivial": nontrivial, "early_failure": early_failure})
    return recs


def _worker(args):
    group = gen_group(*args)
    try:
        return check_group(group)
    except Exception as exc:  # noqa: BLE001  (never raise out of run(): report it against every clause)
        why = "check could not be evaluated: %s: %s" % (type(exc).__name__, exc)
        return [{"case": {"market": group["market"], "cfg": group["cfg"], "cut": cut},
                 "results": [(c, False, why, None) for c in CLAUSES], "nontrivial": False, "early_failure": False}
                for cut in group["cuts"]]


def run(tier="quick", seed=0, budget_s=60.0, jobs=1):
    budget = M.Budget(budget_s)
    n = G_QUICK if tier == "quick" else G_THOROUGH
    tally = M.Tally(CLAUSES)
    seen, counts, samples = set(), {"ev": 0, "nt": 0, "fail_cfg": 0}, []
    done_all = True

    def absorb(recs):
        for rec in recs:
            counts["ev"] += 1
            for clause, ok, o, e in rec["results"]:
                tally.check(clause, ok, rec["case"], o, e, size=M.case_size(rec["case"]))
            key = json.dumps(rec["case"], sort_keys=True)
            if key not in seen and (rec["nontrivial"] or rec["early_failure"]):
                counts["nt"] += 1
                if len(samples) < 4 and counts["nt"] % 3 == 1:
                    samples.append(rec["case"])
            counts["fail_cfg"] += 1 if rec["early_failure"] else 0
            seen.add(key)

    groups_done = 0
    for recs in M.pool_iter(_worker, [(seed, g) for g in range(n)], 1 if tier == "quick" else jobs):
        absorb(recs)
        groups_done += 1
        if budget.left() < 2.0 and groups_done < n:
            done_all = False
            break
    return {
        "evaluations": counts["ev"], "distinct_nontrivial": counts["nt"],
        "rule": ("group g = gen_group(seed, g) (see BOUND); one evaluation = one pair (run on D, run on D'); distinct = "
                 "distinct (market spec, configuration, cut) JSON; non-trivial = the compared prefix holds at least one "
                 "fill or allocation row, or a run failed on or before the cut (%d such pairs). %s"
                 % (counts["fail_cfg"], "all %d groups of the tier ran" % n if done_all else "stopped early on budget_s")),
        "samples": samples, "exhaustive": False, "clauses": tally.clauses,
        "n_failures": tally.n_failures, "failures": tally.kept_failures(),
    }


def replay(case):
    clause = case.get("clause") if "cfg" not in case else None     # a whole failure record is accepted too
    inner = case.get("case", case)
    recs = check_group({"market": inner["market"], "cfg": inner["cfg"], "cuts": [inner["cut"]]})
    bad = [(c, o, e) for c, ok, o, e in recs[0]["results"] if not ok and (clause is None or c == clause)]
    if not bad:
        return {"reproduced": False, "clause": clause or "", "observed": None, "expected": None}
    return {"reproduced": True, "clause": bad[0][0], "observed": bad[0][1], "expected": bad[0][2]}


if __name__ == "__main__":
    tier = sys.argv[1] if len(sys.argv) > 1 else "quick"
    out = run(tier=tier, seed=int(sys.argv[2]) if len(sys.argv) > 2 else 0,
              budget_s=25.0 if tier == "quick" else 900.0, jobs=1 if tier == "quick" else 16)
    print(json.dumps(out, indent=1, default=str))
