"""C01/C02/C04/C05/C15 bounded part: seeded random API SEQUENCES through the real SimulatedBroker (real Portfolio / Position /
queue.Queue / Order / Transaction objects, real SimulatedExchange, real PercentFeeModel / ZeroFeeModel) against an independent
pure-Python reference ledger written from the property statements.  The point of this module is HISTORY DEPENDENCE: caches
refreshed only for some assets, memos cleared only in update(), per-update "seen" sets, fills booked to the wrong portfolio -
regressions that a single-call contract check cannot see because the faulty state is built up by earlier calls.

Reference ledger (everything below is arithmetic on ints / floats / lists, no pandas, nothing of qstrader):
  * master cash; per-portfolio cash = transfers in - transfers out - SUM over fills (price*qty + commission);
  * per-portfolio FIFO list of pending orders; an update at time t fills iff t is Mon-Fri and 14:30 <= t < 21:00 UTC
    (weekday/time-of-day from integer microseconds since the epoch; 1970-01-01 was a Thursday);
  * an open update fills every pending order of every portfolio exactly once, in full: all sells before all buys, same-side
    orders of one portfolio in submission order.  The ledger enumerates portfolios in creation order; ACROSS portfolios the
    statement does not fix an order inside one side, so the comparison is: global "no sell after a buy" + exact per-portfolio
    sequences (the fill results do not depend on the cross-portfolio order because quotes are pure functions of (t, asset));
  * fill price = ask(t, asset) for a buy / bid(t, asset) for a sell at the UPDATE time t, stamped t;
    commission = fee model on round(price*qty) (Python round): 0 under ZeroFeeModel, c*|cons| + t*|cons| under PercentFeeModel;
  * holdings = signed sum of fills, reported iff non-zero; every held asset of EVERY portfolio is valued at the most recent
    price seen (mid(t) after update(t), or the fill price if filled later in that update); market value = SUM qty*price;
    equity = cash + market value; account totals = per-portfolio figures plus their sum under 'master';
  * history: one event per cash movement, amount and running balance equal to the true value rounded to cents (checked as:
    is a whole number of cents and within half a cent of the true value - no dependence on tie-breaking);
  * a refused request (documented type) leaves master cash, every portfolio's cash, positions, pending queues, histories
    bit-for-bit as before.

Attribution (each clause fails only when ITS statement is violated):
  * WHICH fills happen - pending-until-first-open-update, filled-once-in-full, sells-before-buys-then-submission-order,
    fill-on-own-portfolio - is judged on the OBSERVED fill log (instance-level wrap of transact_asset: portfolio, asset, quantity,
    order id, order of occurrence) matched against the pending orders (by order id);
  * each OBSERVED fill is judged from its own fields: price = ask/bid(update time) by the sign of the observed quantity, stamp =
    update time, commission = fee model on round(observed price * observed quantity);
  * the ACCOUNTING clauses (cash-ledger, history-events-rounded-once, holdings-are-net-fills, valued-at-latest-price) book the
    fills that actually happened (observed portfolio / quantity / price / commission), so e.g. a partial fill whose cash debit is
    consistent with the quantity filled fails filled-once-in-full only; account-totals-are-sums compares the account dictionaries
    with the per-portfolio figures the broker reports at that moment (and their sum); equity = the portfolio's actual cash + the
    ledger's market value;
  * after a step with a failed check the ledger is resynchronised to the broker's actual state and the sequence continues.
"""
import collections
import datetime
import hashlib
import math
import os
import random
import time

PROPERTIES = ['C01', 'C02', 'C04', 'C05', 'C15', 'C14']
PROPERTY = 'C01'

N_QUICK = 2500
N_THOROUGH = 20000

BOUND = (
    "Seeded random API sequences of 5-60 operations against one SimulatedBroker (real SimulatedExchange, ZeroFeeModel or "
    "PercentFeeModel with commission in {0,0.001,0.0025,0.01} and tax in {0,0.0007,0.005}, initial funds in {0,1e5,123456.78,1e6}); "
    "1-3 portfolios created at random points, 1-4 assets shared between portfolios; operations: subscribe/withdraw account funds, "
    "subscribe/withdraw portfolio funds (valid amounts incl. exactly the balance and non-cent amounts; invalid: negative, exceeding the "
    "balance by 0.01 / 0.004 / 1e-6 / one ulp, unknown portfolio), create_portfolio (new / duplicate id), submit_order (known / unknown / "
    "not-yet-created portfolio; non-zero integer quantities of either sign incl. exact closes, flips through zero, re-opens; in 15%% of "
    "sequences explicit order ids from a pool of 3, reused over time but never by two orders pending together), broker.update at NON-DECREASING microsecond times (same instant, +1us..+1h, exact "
    "14:30:00 / 21:00:00 boundaries and +-1us / +-1s around them, hour and day jumps, weekends inside trading hours), and read-only "
    "queries (every account / portfolio getter, unknown portfolio, unsupported currency) issued twice in a row, before and after "
    "mutating operations without an intervening update.  Quotes come from a table-driven data handler: bid < mid < ask, all > 0, "
    "pure functions of (sequence salt, asset, microsecond).  Half of the sequences compare every getter with the ledger after every "
    "operation ('dense'), the other half only raw attributes after non-query operations ('sparse', so that caches refreshed by a "
    "query are not masked).  quick: sequences index 0..%d for the seed (stops early at the time budget); thorough: index 0..%d.  "
    "Avoided (tracked elsewhere as known findings / out of the quantifier): decreasing update times, non-positive or missing quotes, "
    "fractional or zero quantities, a portfolio id 'master', zero-amount transfers, two faults in one request.  "
    "Fill order: the ledger enumerates portfolios in creation order; the statement fixes no order ACROSS portfolios inside one side, so "
    "the comparison is 'no sell after a buy' on the global fill log plus the exact sells-then-buys submission-order sequence per "
    "portfolio.  Money tolerance 1e-9 relative to the largest amount seen in the sequence; quantities, queue contents, fill sequences exact."
    % (N_QUICK - 1, N_THOROUGH - 1))

CLAUSES = [
    'cash-ledger', 'transfer-zero-sum', 'history-events-rounded-once', 'holdings-are-net-fills', 'valued-at-latest-price',
    'account-totals-are-sums', 'pending-until-first-open-update', 'filled-once-in-full',
    'sells-before-buys-then-submission-order', 'fill-on-own-portfolio', 'fill-price-ask-buy-bid-sell-at-update-time',
    'fill-stamped-update-time', 'commission-is-fee-on-rounded-consideration', 'refusal-type', 'refusal-changes-nothing',
    'queries-change-nothing',
]

# which property each clause restates (the checker reports a failing clause only under the properties listed for it)
CLAUSE_PROPERTIES = {
    'cash-ledger': ['C01'], 'transfer-zero-sum': ['C01'], 'history-events-rounded-once': ['C01'],
    'account-totals-are-sums': ['C01', 'C02', 'C14'], 'queries-change-nothing': ['C01', 'C02'],
    'holdings-are-net-fills': ['C02'], 'valued-at-latest-price': ['C02', 'C14'],
    'pending-until-first-open-update': ['C04'], 'filled-once-in-full': ['C04'], 'sells-before-buys-then-submission-order': ['C04'],
    'fill-on-own-portfolio': ['C04', 'C01'],
    'fill-price-ask-buy-bid-sell-at-update-time': ['C05'], 'fill-stamped-update-time': ['C05'],
    'commission-is-fee-on-rounded-consideration': ['C05'],
    'refusal-type': ['C15'], 'refusal-changes-nothing': ['C15'],
}

RULE = ("a case = one generated operation sequence, identified by (seed, index) (rng = random.Random(seed*1000003+index)); evaluations = "
        "operations executed against the real broker (each followed by a comparison with the ledger); a sequence is non-trivial iff it "
        "contains at least one fill, one accepted transfer, one refused request and one read-only query; distinct = distinct by the "
        "SHA-1 of the full rendered operation list.  After a step with a failed check the sequence CONTINUES with the ledger "
        "resynchronised to the broker's actual state (cash, holdings, latest prices, pending queues, histories); a clause is recorded "
        "and counted at most once per sequence (at its first failing step), so clauses[c]['failed'] = number of sequences in which c "
        "failed; `failures` keeps the 3 smallest cases (earliest failing step) of every failing clause")

_US = 10 ** 6
_DAY = 86400 * _US
_OPEN = 52200 * _US       # 14:30:00
_CLOSE = 75600 * _US      # 21:00:00
_DAY0 = 18687             # 2021-03-01, a Monday, in days since 1970-01-01
_ASSETS = ['EQ:A', 'EQ:B', 'EQ:C', 'EQ:D']
_BASE = {'EQ:A': 12.34, 'EQ:B': 250.0, 'EQ:C': 3.07, 'EQ:D': 998.5}
_PIDS = ['p1', 'p2', 'p3']


# ----------------------------------------------------------------------------------------------------------------------
# independent pieces: calendar, quotes, fees
# ----------------------------------------------------------------------------------------------------------------------
def _is_open(t_us):
    """Mon-Fri, 14:30 <= t < 21:00 UTC, from integer microseconds since the epoch (1970-01-01 = Thursday = weekday 3)."""
    days, tod = divmod(t_us, _DAY)
    return (days + 3) % 7 <= 4 and _OPEN <= tod < _CLOSE


def _quote(salt, asset, t_us):
    """(bid, ask, mid) - a pure function of (salt, asset, microsecond); bid < mid < ask, all > 0, different at every instant."""
    h = int.from_bytes(hashlib.blake2b(('%d|%s|%d' % (salt, asset, t_us)).encode(), digest_size=8).digest(), 'big')
    mid = round(_BASE[asset] * (0.7 + 0.6 * (h % 10007) / 10007.0), 2 + 2 * ((h >> 40) & 1))
    half = max(0.0011, round(mid * (0.0005 + 0.01 * ((h >> 16) % 997) / 997.0), 4))
    lo = round(mid - half, 4)
    hi = round(mid + half * (1 + ((h >> 30) % 3) / 4.0), 4)
    return lo, hi, mid


def _fee(fee_cfg, consideration):
    if fee_cfg is None:
        return 0.0
    return fee_cfg[0] * abs(consideration) + fee_cfg[1] * abs(consideration)


def _iso(t_us):
    return (datetime.datetime(1970, 1, 1) + datetime.timedelta(microseconds=t_us)).strftime('%a %Y-%m-%dT%H:%M:%S.%f')


class _TableDataHandler(object):
    """My own data handler: the broker only ever calls these two methods."""

    def __init__(self, salt):
        self.salt = salt

    def get_asset_latest_bid_ask_price(self, dt, asset):
        q = _quote(self.salt, asset, dt.value // 1000)
        return (q[0], q[1])

    def get_asset_latest_mid_price(self, dt, asset):
        return _quote(self.salt, asset, dt.value // 1000)[2]


# ----------------------------------------------------------------------------------------------------------------------
# the reference ledger
# ----------------------------------------------------------------------------------------------------------------------
class _Ledger(object):
    def __init__(self, initial, fee_cfg, salt, start_us):
        self.master = float(initial)
        self.fee_cfg = fee_cfg
        self.salt = salt
        self.now = start_us
        self.order = []            # portfolio ids in creation order
        self.cash = {}
        self.hold = {}             # pid -> {asset: signed int}, zero entries removed
        self.last = {}             # pid -> {asset: latest price seen}, only for held assets
        self.pending = {}          # pid -> [(token, asset, qty)]
        self.hist = {}             # pid -> [(type, side, true amount, true balance, t_us or None)]
        self.scale = max(1.0, float(initial))

    # -- requests: return the documented refusal type or None (accepted, state advanced) ---------------------------------
    def sub_acct(self, amount):
        if amount < 0:
            return ValueError
        self.master += amount
        self.scale = max(self.scale, abs(amount))
        return None

    def wd_acct(self, amount):
        if amount < 0 or amount > self.master:
            return ValueError
        self.master -= amount
        return None

    def create(self, pid):
        if pid in self.cash:
            return ValueError
        self.order.append(pid)
        self.cash[pid] = 0.0
        self.hold[pid] = {}
        self.last[pid] = {}
        self.pending[pid] = []
        self.hist[pid] = []
        return None

    def sub_pf(self, pid, amount):
        if amount < 0:
            return ValueError
        if pid not in self.cash:
            return KeyError
        if amount > self.master:
            return ValueError
        self.master -= amount
        self.cash[pid] += amount
        self.hist[pid].append(('subscription', 'credit', amount, self.cash[pid], None))
        return None

    def wd_pf(self, pid, amount):
        if amount < 0:
            return ValueError
        if pid not in self.cash:
            return KeyError
        if amount > self.cash[pid]:
            return ValueError
        self.cash[pid] -= amount
        self.master += amount
        self.hist[pid].append(('withdrawal', 'debit', amount, self.cash[pid], None))
        return None

    def submit(self, pid, token, asset, qty):
        if pid not in self.cash:
            return KeyError
        self.pending[pid].append((token, asset, qty))
        return None

    def mark(self, t_us):
        """update(t), first half: the clock moves and every held asset of every portfolio is marked at mid(t)."""
        self.now = t_us
        for pid in self.order:
            for a in self.hold[pid]:
                self.last[pid][a] = _quote(self.salt, a, t_us)[2]

    def expected_order(self, pid):
        """The pending orders of one portfolio in the order in which one update must fill them: sells, then buys, each FIFO."""
        return [o for o in self.pending[pid] if o[2] < 0] + [o for o in self.pending[pid] if o[2] > 0]

    def drain(self, t_us):
        """update(t), second half: the orders that this update must fill, [(pid, token, asset, qty)] (all sells before all buys,
        portfolios in creation order inside a side); the queues are emptied iff the exchange is open at t."""
        if not _is_open(t_us):
            return []
        batch = [(pid,) + o for pid in self.order for o in self.pending[pid]]
        for pid in self.order:
            self.pending[pid] = []
        return [x for x in batch if x[3] < 0] + [x for x in batch if x[3] > 0]

    def book(self, pid, a, q, price, comm, t_us):
        """Accounting of ONE fill that actually happened (observed portfolio, quantity, price, commission): cash moves by
        -(price*qty + commission), the holding by qty, the latest price seen becomes the fill price, one history event."""
        if pid not in self.cash:
            return
        total = price * q + comm
        self.cash[pid] -= total
        self.scale = max(self.scale, abs(total))
        if q != 0:
            nq = self.hold[pid].get(a, 0) + q
            if nq == 0:
                self.hold[pid].pop(a, None)
                self.last[pid].pop(a, None)
            else:
                self.hold[pid][a] = nq
                self.last[pid][a] = price
        if q >= 0:
            self.hist[pid].append(('asset_transaction', 'debit', total, self.cash[pid], t_us))
        else:
            self.hist[pid].append(('asset_transaction', 'credit', -total, self.cash[pid], t_us))

    # -- derived figures -------------------------------------------------------------------------------------------------
    def mv(self, pid):
        return sum(self.hold[pid][a] * self.last[pid][a] for a in self.hold[pid])

    def equity(self, pid):
        return self.cash[pid] + self.mv(pid)


# ----------------------------------------------------------------------------------------------------------------------
# time generator (non-decreasing)
# ----------------------------------------------------------------------------------------------------------------------
def _next_open(t):
    if _is_open(t):
        return t
    day = t // _DAY
    if t % _DAY >= _CLOSE:
        day += 1
    while (day + 3) % 7 > 4:
        day += 1
    return max(t, day * _DAY + _OPEN)


def _next_time(rng, now, kind=None):
    if kind is None:
        kind = rng.choices(['same', 'tiny', 'small', 'boundary', 'hours', 'days', 'weekend', 'open', 'openlate'],
                           [10, 8, 12, 24, 12, 8, 6, 14, 6])[0]
    if kind == 'same':
        return now
    if kind == 'tiny':
        return now + rng.choice([1, 1000, _US])
    if kind == 'small':
        return now + rng.randint(1, 3600) * _US
    if kind == 'boundary':
        day = now // _DAY
        cands = [d * _DAY + b for d in (day, day + 1) for b in (_OPEN, _CLOSE)]
        b = min(c for c in cands if c >= now)
        if rng.random() < 0.3:
            later = [c for c in cands if c > b]
            if later:
                b = later[0]
        return max(now, b + rng.choice([0, 0, 0, 0, -1, 1, -_US, _US]))
    if kind == 'hours':
        return now + rng.randint(1, 8) * 3600 * _US + rng.randint(0, 3599) * _US
    if kind == 'days':
        return now + rng.randint(1, 3) * _DAY + rng.randint(-3600, 3600) * _US
    if kind == 'weekend':
        day = now // _DAY
        while (day + 3) % 7 <= 4 or day * _DAY + _CLOSE <= now:
            day += 1
        return max(now, day * _DAY + _OPEN + rng.choice([0, rng.randint(0, 23399) * _US]))
    if kind == 'open':
        t = _next_open(now + rng.choice([0, 0, 1, 60 * _US]))
        if t % _DAY == _OPEN and rng.random() < 0.5:
            t += rng.randint(0, 23399) * _US
        return t
    if kind == 'openlate':
        t = _next_open(now)
        return max(now, t - t % _DAY + _CLOSE - rng.choice([1, _US, 60 * _US]))
    if kind == 'closed':
        t = now + rng.choice([0, 1, 3600 * _US])
        if _is_open(t):
            t = t - t % _DAY + _CLOSE + rng.choice([0, 0, 1, 3600 * _US])
        return t
    raise AssertionError(kind)


# ----------------------------------------------------------------------------------------------------------------------
# one sequence
# ----------------------------------------------------------------------------------------------------------------------
class _Stop(Exception):
    pass


def _pending(broker, pid):
    """The pending orders of one portfolio, oldest first, without consuming them (queue.Queue keeps them in `.queue`)."""
    q = broker.open_orders[pid]
    return list(q.queue) if hasattr(q, 'queue') else list(q)


def _raw(broker):
    """Protected state by plain attribute reads (no getter of the code under test is involved)."""
    out = [tuple(sorted(broker.cash_balances.items())), tuple(broker.portfolios.keys()), tuple(broker.open_orders.keys())]
    for pid, p in broker.portfolios.items():
        pos = tuple((a, x.buy_quantity, x.sell_quantity, x.current_price, x.avg_bought, x.avg_sold, x.buy_commission,
                     x.sell_commission) for a, x in p.pos_handler.positions.items())
        q = tuple((id(o), o.asset, o.quantity) for o in _pending(broker, pid))
        out.append((pid, id(p), p.cash, pos, q, len(p.history), id(p.history[-1]) if p.history else None))
    return tuple(out)


def _run_sequence(seed, index, acc, want_render=12):
    """Generate and execute sequence (seed, index).  Returns a dict with the first failure of every clause that failed in it."""
    import pandas as pd
    from qstrader.broker.fee_model.percent_fee_model import PercentFeeModel
    from qstrader.broker.fee_model.zero_fee_model import ZeroFeeModel
    from qstrader.broker.simulated_broker import SimulatedBroker
    from qstrader.exchange.simulated_exchange import SimulatedExchange
    from qstrader.execution.order import Order

    rng = random.Random(seed * 1000003 + index)
    n_ops = rng.randint(5, 60)
    salt = rng.getrandbits(32)
    fee_cfg = None if rng.random() < 0.35 else (rng.choice([0.0, 0.001, 0.0025, 0.01]), rng.choice([0.0, 0.0007, 0.005]))
    initial = rng.choice([0.0, 100000.0, 123456.78, 1000000.0])
    assets = _ASSETS[:rng.randint(1, 4)]
    max_pf = rng.randint(1, 3)
    dense = rng.random() < 0.5
    dup_ids = rng.random() < 0.15
    start = (_DAY0 + rng.randrange(0, 14)) * _DAY + rng.choice(
        [0, _OPEN - 1, _OPEN, 16 * 3600 * _US, _CLOSE - 1, _CLOSE, 23 * 3600 * _US])

    def ts(t_us):
        return pd.Timestamp(t_us, unit='us', tz='UTC')

    dh = _TableDataHandler(salt)
    fee_model = ZeroFeeModel() if fee_cfg is None else PercentFeeModel(commission_pct=fee_cfg[0], tax_pct=fee_cfg[1])
    broker = SimulatedBroker(ts(start), SimulatedExchange(ts(start)), dh, account_id='acct', initial_funds=initial,
                             fee_model=fee_model)
    L = _Ledger(initial, fee_cfg, salt, start)
    txn_log = []                   # appended by the instance-level wrappers
    order_objs = {}                # token -> Order
    seen_hist = {}                 # pid -> number of history events already compared
    ops = []                       # rendered operations
    stats = {'fills': 0, 'refused': 0, 'transfers': 0, 'queries': 0}
    step_fail = []                 # clauses failing for the first time in this sequence at the current step
    seq_fail = {}                  # clause -> its first failure in this sequence (a clause is recorded once per sequence)
    dirty = [False]                # any check failed at the current step -> the ledger is resynchronised after the step
    step = [0]

    def chk(clause, ok, observed=None, expected=None):
        c = acc[clause]
        c[0] += 1
        if not ok:
            dirty[0] = True
            if clause not in seq_fail and not any(f['clause'] == clause for f in step_fail):
                c[1] += 1
                step_fail.append({'clause': clause, 'observed': observed, 'expected': expected})
        return ok

    def close(a, b):
        return abs(a - b) <= 1e-9 * max(L.scale, abs(a), abs(b)) + 1e-12

    def close0(a, b):
        return abs(a - b) <= 1e-9 * max(abs(a), abs(b)) + 1e-12

    def cents(x, true):
        return round(x, 2) == x and abs(x - true) <= 0.005 + 1e-7

    def wrap(pid):
        p = broker.portfolios[pid]
        orig = p.transact_asset

        def recording_transact_asset(txn):
            txn_log.append((pid, txn.asset, txn.quantity, txn.price, txn.commission, txn.dt, getattr(txn, 'order_id', None)))
            return orig(txn)
        p.transact_asset = recording_transact_asset

    # -- comparisons -----------------------------------------------------------------------------------------------------
    def compare_raw():
        chk('cash-ledger', close(broker.cash_balances['USD'], L.master), broker.cash_balances['USD'], L.master)
        chk('cash-ledger', all(v == 0.0 for k, v in broker.cash_balances.items() if k != 'USD'),
            dict(broker.cash_balances), 'other currencies untouched')
        chk('cash-ledger', list(broker.portfolios.keys()) == L.order, list(broker.portfolios.keys()), L.order)
        for pid in L.order:
            if pid not in broker.portfolios:
                continue
            p = broker.portfolios[pid]
            chk('cash-ledger', close(p.cash, L.cash[pid]), [pid, p.cash], L.cash[pid])
            got = {a: x.buy_quantity - x.sell_quantity for a, x in p.pos_handler.positions.items()}
            chk('holdings-are-net-fills', got == L.hold[pid], [pid, got], L.hold[pid])
            q = [(id(o), o.asset, o.quantity) for o in _pending(broker, pid)]
            exp = [(id(order_objs[tok]), a, qq) for tok, a, qq in L.pending[pid]]
            chk('pending-until-first-open-update', q == exp,
                [pid, [x[1:] for x in q]], [x[1:] for x in exp])
            # history: exactly one new event per cash movement, in order, rounded to cents
            hexp = L.hist[pid]
            ok = chk('history-events-rounded-once', len(p.history) == len(hexp), [pid, len(p.history)], len(hexp))
            if ok:
                for k in range(seen_hist.get(pid, 0), len(hexp)):
                    ev, (typ, side, amt, bal, t_us) = p.history[k], hexp[k]
                    a_obs, other = (ev.credit, ev.debit) if side == 'credit' else (ev.debit, ev.credit)
                    chk('history-events-rounded-once',
                        ev.type == typ and other == 0.0 and cents(a_obs, amt) and cents(ev.balance, bal),
                        [pid, k, ev.type, ev.debit, ev.credit, ev.balance], [typ, side, amt, bal])
                    if t_us is not None:
                        chk('fill-stamped-update-time', ev.dt.value == t_us * 1000, [pid, k, str(ev.dt)], _iso(t_us))
                seen_hist[pid] = len(hexp)

    def expect_dict(pid):
        return {a: (q, q * L.last[pid][a]) for a, q in L.hold[pid].items()}

    def check_getter(name, pid, res):
        if name == 'acct_cash':
            chk('cash-ledger', isinstance(res, dict) and set(res) == {'USD', 'GBP', 'EUR'} and close(res['USD'], L.master)
                and res['GBP'] == 0.0 and res['EUR'] == 0.0, res, L.master)
        elif name == 'acct_cash_usd':
            chk('cash-ledger', close(res, L.master), res, L.master)
        elif name == 'acct_cash_gbp':
            chk('cash-ledger', res == 0.0, res, 0.0)
        elif name in ('acct_equity', 'acct_mv'):
            # the statement of this clause: the per-portfolio FIGURES (as the broker reports them now) and their sum; whether those
            # figures are right is the business of cash-ledger / valued-at-latest-price
            fig = 'pf_equity' if name == 'acct_equity' else 'pf_mv'
            exp = {p: call_getter(fig, p) for p in L.order}
            exp['master'] = sum(exp.values()) if exp else 0.0
            chk('account-totals-are-sums', isinstance(res, dict) and set(res) == set(exp)
                and all(close(res[k], exp[k]) for k in exp), res, exp)
        elif name == 'pf_cash':
            chk('cash-ledger', close(res, L.cash[pid]), [pid, res], L.cash[pid])
        elif name == 'pf_mv':
            chk('valued-at-latest-price', close(res, L.mv(pid)), [pid, res], L.mv(pid))
        elif name == 'pf_equity':
            # equity = cash + market value, with the cash the portfolio actually has (its correctness is cash-ledger's business)
            want = broker.portfolios[pid].cash + L.mv(pid)
            chk('valued-at-latest-price', close(res, want), [pid, res], want)
        elif name == 'pf_dict':
            exp = expect_dict(pid)
            chk('holdings-are-net-fills', isinstance(res, dict) and set(res) == set(exp)
                and all(res[a]['quantity'] == exp[a][0] for a in exp),
                [pid, {a: v.get('quantity') for a, v in res.items()}], {a: v[0] for a, v in exp.items()})
            chk('valued-at-latest-price', all(close(res[a]['market_value'], exp[a][1]) for a in exp if a in res),
                [pid, {a: v.get('market_value') for a, v in res.items()}], {a: v[1] for a, v in exp.items()})

    def call_getter(name, pid):
        if name == 'acct_cash':
            return dict(broker.get_account_cash_balance())
        if name == 'acct_cash_usd':
            return broker.get_account_cash_balance('USD')
        if name == 'acct_cash_gbp':
            return broker.get_account_cash_balance('GBP')
        if name == 'acct_cash_bad':
            return broker.get_account_cash_balance('XYZ')
        if name == 'acct_equity':
            return broker.get_account_total_equity()
        if name == 'acct_mv':
            return broker.get_account_total_market_value()
        if name == 'pf_cash':
            return broker.get_portfolio_cash_balance(pid)
        if name == 'pf_mv':
            return broker.get_portfolio_total_market_value(pid)
        if name == 'pf_equity':
            return broker.get_portfolio_total_equity(pid)
        if name == 'pf_dict':
            d = broker.get_portfolio_as_dict(pid)
            return {a: dict(v) for a, v in d.items()}
        raise AssertionError(name)

    def compare_getters():
        for name in ('acct_cash_usd', 'acct_equity', 'acct_mv'):
            check_getter(name, None, call_getter(name, None))
        for pid in L.order:
            if pid in broker.portfolios:
                for name in ('pf_cash', 'pf_mv', 'pf_equity', 'pf_dict'):
                    check_getter(name, pid, call_getter(name, pid))

    def after_op():
        compare_raw()
        if dense and not dirty[0]:
            try:
                compare_getters()
            except Exception as e:        # "always obtainable"
                chk('account-totals-are-sums', False, 'getter raised %s: %s' % (type(e).__name__, e), 'a value')

    # -- requests --------------------------------------------------------------------------------------------------------
    def request(fn, expected, what):
        """Run a mutating request; expected = documented refusal type or None.  Checks type and unchanged-on-refusal."""
        before = _raw(broker)
        n_log = len(txn_log)
        raised = None
        try:
            fn()
        except Exception as e:
            raised = e
        if expected is None:
            chk('refusal-type', raised is None,
                'valid request %s raised %s: %s' % (what, type(raised).__name__, raised), 'accepted')
            if raised is not None:
                raise _Stop()
        else:
            stats['refused'] += 1
            ok = raised is not None and isinstance(raised, expected) and not (
                expected is ValueError and isinstance(raised, KeyError)) and not (
                expected is KeyError and isinstance(raised, ValueError))
            chk('refusal-type', ok, 'no error' if raised is None else '%s: %s' % (type(raised).__name__, raised),
                expected.__name__)
            after = _raw(broker)
            chk('refusal-changes-nothing', after == before and len(txn_log) == n_log,
                _diff(before, after), 'state bit-for-bit as before the refused ' + what)
        return before

    def _diff(b, a):
        if len(b) != len(a):
            return 'portfolio set changed'
        return [[str(x)[:300], str(y)[:300]] for x, y in zip(b, a) if x != y][:3]

    def cash_of(raw):
        return dict(raw[0])['USD'], {x[0]: x[2] for x in raw[3:]}

    def no_cash_change(before, what):
        m0, c0 = cash_of(before)
        m1, c1 = cash_of(_raw(broker))
        chk('cash-ledger', m0 == m1 and all(c1.get(p) == v for p, v in c0.items()), [what, m1, c1], [m0, c0])

    # -- amount helpers --------------------------------------------------------------------------------------------------
    def exceed(base):
        if base < 0:
            return rng.choice([0.01, 100.0])
        amt = rng.choice([base + 0.01, base + 0.004, base + 1e-6, math.nextafter(base, math.inf), base + 1000.0])
        return amt if amt > base else base + 0.01

    def valid_amount(limit):
        """An amount with 0 < amount <= limit (None if impossible)."""
        if limit < 0.01:
            return None
        style = rng.random()
        if style < 0.2:
            return limit                                           # exactly the balance
        if style < 0.3:
            return 0.01
        f = rng.choice([0.1, 0.25, 0.5, 0.9, rng.random()])
        amt = limit * f
        style = rng.random()
        if style < 0.6:
            amt = math.floor(amt * 100) / 100.0
        elif style < 0.8:
            amt = math.floor(amt * 10000) / 10000.0               # non-cent amount: event rounded, cash not
        elif style < 0.9:
            amt = math.floor(amt * 100) / 100.0 + 0.005
        if not (0 < amt <= limit):
            amt = limit
        return amt

    def free_amount():
        return rng.choice([round(rng.uniform(1, 500000), 2), round(rng.uniform(1, 5000), 4), 0.01, 100000.0,
                           round(rng.uniform(1, 900), 2) + 0.005])

    # exact-boundary requests are only generated when the ledger and the broker agree bit-for-bit on the balance
    def master_exact():
        return broker.cash_balances['USD'] == L.master

    def pf_exact(pid):
        return broker.portfolios[pid].cash == L.cash[pid]

    # -- operations ------------------------------------------------------------------------------------------------------
    def op_sub_acct(invalid):
        amt = -free_amount() if invalid else free_amount()
        ops.append(['subscribe_funds_to_account', amt, 'refuse' if invalid else 'ok'])
        before = request(lambda: broker.subscribe_funds_to_account(amt), L.sub_acct(amt), 'subscribe_funds_to_account')
        if not invalid:
            m0, c0 = cash_of(before)
            m1, c1 = cash_of(_raw(broker))
            chk('transfer-zero-sum', close(m1 - m0, amt) and c1 == c0, [m0, m1, c0, c1], '+%r on master only' % amt)

    def op_wd_acct(invalid):
        if invalid:
            amt = -free_amount() if rng.random() < 0.4 else exceed(L.master)
            if not master_exact() and amt >= 0:
                amt = L.master + 0.004
        else:
            amt = valid_amount(L.master)
            if amt is None or not master_exact():
                return op_sub_acct(False)
        ops.append(['withdraw_funds_from_account', amt, 'refuse' if invalid else 'ok'])
        before = request(lambda: broker.withdraw_funds_from_account(amt), L.wd_acct(amt), 'withdraw_funds_from_account')
        if not invalid:
            m0, c0 = cash_of(before)
            m1, c1 = cash_of(_raw(broker))
            chk('transfer-zero-sum', close(m0 - m1, amt) and c1 == c0, [m0, m1, c0, c1], '-%r on master only' % amt)

    def unknown_pid():
        missing = [p for p in _PIDS if p not in L.cash]
        return rng.choice(missing + ['zz']) if missing else 'zz'

    def transfer(kind, pid, amt, invalid):
        name = 'subscribe_funds_to_portfolio' if kind == 'sub' else 'withdraw_funds_from_portfolio'
        ops.append([name, pid, amt, 'refuse' if invalid else 'ok'])
        exp = (L.sub_pf if kind == 'sub' else L.wd_pf)(pid, amt)
        assert (exp is not None) == invalid, (kind, pid, amt, invalid)
        before = request(lambda: getattr(broker, name)(pid, amt), exp, name)
        if not invalid:
            stats['transfers'] += 1
            sgn = 1.0 if kind == 'sub' else -1.0
            m0, c0 = cash_of(before)
            m1, c1 = cash_of(_raw(broker))
            others = all(c1[p] == c0[p] for p in c0 if p != pid)
            chk('transfer-zero-sum', close(m0 - m1, sgn * amt) and close(c1[pid] - c0[pid], sgn * amt) and others
                and close((m1 - m0) + (c1[pid] - c0[pid]), 0.0), [pid, m0, m1, c0, c1], 'master %+r, %s %+r' % (-sgn * amt, pid, sgn * amt))

    def op_sub_pf(invalid, pid=None):
        pid = pid or rng.choice(L.order)
        if invalid:
            r = rng.random()
            if r < 0.3:
                return transfer('sub', pid, -free_amount(), True)
            if r < 0.5:
                return transfer('sub', unknown_pid(), valid_amount(L.master) or 0.01, True)
            amt = exceed(L.master)
            if not master_exact():
                amt = L.master + 0.004
            return transfer('sub', pid, amt, True)
        amt = valid_amount(L.master)
        if amt is None or not master_exact():
            return op_sub_acct(False)
        return transfer('sub', pid, amt, False)

    def op_wd_pf(invalid, pid=None):
        pid = pid or rng.choice(L.order)
        if invalid:
            r = rng.random()
            if r < 0.3:
                return transfer('wd', pid, -free_amount(), True)
            if r < 0.5:
                return transfer('wd', unknown_pid(), free_amount(), True)
            amt = exceed(L.cash[pid])
            if not pf_exact(pid):
                amt = max(L.cash[pid], 0.0) + 0.004
            return transfer('wd', pid, amt, True)
        amt = valid_amount(L.cash[pid])
        if amt is None or not pf_exact(pid):
            return op_sub_pf(False, pid)
        return transfer('wd', pid, amt, False)

    def op_create(dup):
        missing = [p for p in _PIDS[:max_pf] if p not in L.cash]
        if dup or not missing:
            if not L.order:
                dup, pid = False, _PIDS[0]
            else:
                dup, pid = True, rng.choice(L.order)
        else:
            pid = missing[0] if rng.random() < 0.7 else rng.choice(missing)
        ops.append(['create_portfolio', pid, 'refuse' if dup else 'ok'])
        before = request(lambda: broker.create_portfolio(pid, name='n-' + pid), L.create(pid), 'create_portfolio')
        if not dup:
            wrap(pid)
            m0, c0 = cash_of(before)
            m1, c1 = cash_of(_raw(broker))
            chk('cash-ledger', m1 == m0 and all(c1[p] == c0[p] for p in c0) and c1.get(pid) == 0.0, [m1, c1], [m0, c0])

    def pick_qty(pid, asset, mode):
        held = L.hold[pid].get(asset, 0)
        proj = held + sum(q for _, a, q in L.pending[pid] if a == asset)
        if mode == 'rand':
            mode = rng.choices(['close', 'closeheld', 'flip', 'buy', 'sell'], [22, 8, 15, 30, 25])[0]
        q = 0
        if mode == 'close':
            q = -proj
        elif mode == 'closeheld':
            q = -held
        elif mode == 'flip' and proj != 0:
            q = -proj - int(math.copysign(rng.randint(1, 200), proj))
        elif mode == 'sell':
            q = -rng.choice([1, 7, 100, rng.randint(1, 500)])
        if q == 0:
            q = rng.choice([1, 7, 100, rng.randint(1, 500)]) * (-1 if mode == 'sell' else 1)
        return q

    tokens = [0]

    def op_order(invalid, pid=None, asset=None, mode='rand', qty=None):
        if invalid:
            pid = unknown_pid()
            asset = rng.choice(assets)
            qty = rng.choice([-1, 1]) * rng.randint(1, 300)
        else:
            pid = pid or rng.choice(L.order)
            asset = asset or rng.choice(assets)
            qty = qty if qty is not None else pick_qty(pid, asset, mode)
        tokens[0] += 1
        tok = tokens[0]
        oid = None
        if dup_ids:     # explicit ids from a pool of 3, reused over time but never by two orders pending at the same moment
            busy = set(order_objs[tk].order_id for pl in L.pending.values() for tk, _, _ in pl)
            free = [x for x in ('oid-1', 'oid-2', 'oid-3') if x not in busy]
            oid = rng.choice(free) if free else None
        o = Order(broker.current_dt, asset, qty, order_id=oid)
        order_objs[tok] = o
        ops.append(['submit_order', pid, asset, qty, oid, 'refuse' if invalid else 'ok'])
        before = request(lambda: broker.submit_order(pid, o), L.submit(pid, tok, asset, qty), 'submit_order')
        if not invalid:
            no_cash_change(before, 'submit_order')

    def op_update(kind=None):
        t = _next_time(rng, L.now, kind)
        is_open = _is_open(t)
        ops.append(['update', _iso(t), 'open' if is_open else 'closed'])
        had = {pid: list(L.pending[pid]) for pid in L.order}
        n_log = len(txn_log)
        try:
            broker.update(ts(t))
        except Exception as e:
            chk('filled-once-in-full', False, 'update raised %s: %s' % (type(e).__name__, e), 'normal termination')
            L.now = t
            raise _Stop()
        obs = txn_log[n_log:]
        L.mark(t)
        # what had to happen: which orders, on which portfolio, in full, in which order
        pend_all = [(pid,) + o for pid in L.order for o in had[pid]]                  # (pid, token, asset, qty)
        order_exp = {pid: [o[0] for o in L.expected_order(pid)] for pid in L.order}   # tokens, sells then buys, FIFO
        exp = L.drain(t)
        stats['fills'] += len(exp)
        # match every OBSERVED fill with one pending order (by order id; else by asset), each order at most once
        unmatched = list(pend_all)
        known_ids = set(order_objs[x[1]].order_id for x in pend_all)
        matches = []
        for p, a, q, price, comm, dt, oid in obs:
            if oid in known_ids:
                cands = [x for x in unmatched if order_objs[x[1]].order_id == oid]
            else:                       # the order id did not survive: fall back on the asset
                cands = [x for x in unmatched if x[2] == a]
            best = min(cands, key=lambda x: ((x[2], x[3]) != (a, q), x[2] != a, x[0] != p, pend_all.index(x))) if cands else None
            if best is not None:
                unmatched.remove(best)
            matches.append(best)
        in_queue = set(id(o) for pid in L.order if pid in broker.open_orders for o in _pending(broker, pid))
        # still pending through a closed update / filled by the first open one
        queues = {pid: len(_pending(broker, pid)) for pid in L.order if pid in broker.open_orders}
        if is_open:
            chk('pending-until-first-open-update', all(v == 0 for v in queues.values()), queues, 'all queues empty')
        else:
            chk('pending-until-first-open-update', len(obs) == 0 and all(queues.get(p) == len(had[p]) for p in L.order),
                [len(obs), queues], [0, {p: len(had[p]) for p in L.order}])
        # never twice, partially, or dropped: every observed fill is the full quantity of a distinct pending order, and an order
        # that was not filled is still in its queue
        dropped = [x for x in unmatched if id(order_objs[x[1]]) not in in_queue]
        chk('filled-once-in-full', all(m is not None and (m[2], m[3]) == (f[1], f[2]) for f, m in zip(obs, matches)) and not dropped,
            {'fills': [list(f[:3]) for f in obs], 'neither_filled_nor_pending': [[x[0], x[2], x[3]] for x in dropped]},
            {'pending_orders': [[x[0], x[2], x[3]] for x in pend_all]})
        # a fill lands on the portfolio of its order
        chk('fill-on-own-portfolio', all(m is None or m[0] == f[0] for f, m in zip(obs, matches)),
            [[f[0], f[1], f[2]] for f in obs], [None if m is None else [m[0], m[2], m[3]] for m in matches])
        # all sells before all buys; the orders of one portfolio: sells then buys, each in submission order
        sides = [f[2] > 0 for f in obs if f[2] != 0]
        seq_ok = True
        for pid in L.order:
            got = [m[1] for f, m in zip(obs, matches) if m is not None and m[0] == pid and f[0] == pid]
            seq_ok = seq_ok and got == [tok for tok in order_exp[pid] if tok in got]
        chk('sells-before-buys-then-submission-order', sides == sorted(sides) and seq_ok,
            [[f[0], f[1], f[2]] for f in obs], {pid: [[a, q] for _, a, q in L_exp_order(had[pid])] for pid in L.order})
        # every fill that happened, judged from its own fields; then booked as it happened
        for p, a, q, price, comm, dt, oid in obs:
            bid, ask, _ = _quote(salt, a, t)
            ok = close0(price, ask) if q > 0 else close0(price, bid) if q < 0 else (close0(price, ask) or close0(price, bid))
            chk('fill-price-ask-buy-bid-sell-at-update-time', ok, [p, a, q, price], {'bid': bid, 'ask': ask, 'at': _iso(t)})
            chk('fill-stamped-update-time', dt.value == t * 1000, [p, a, q, str(dt)], _iso(t))
            cexp = _fee(fee_cfg, round(price * q))
            chk('commission-is-fee-on-rounded-consideration', close0(comm, cexp) and comm >= 0.0, [p, a, q, price, comm], cexp)
            L.book(p, a, q, price, comm, t)

    def L_exp_order(pending):
        return [o for o in pending if o[2] < 0] + [o for o in pending if o[2] > 0]

    _QP = ['pf_cash', 'pf_mv', 'pf_equity', 'pf_dict']
    _QA = ['acct_equity', 'acct_mv', 'acct_cash', 'acct_cash_usd', 'acct_cash_gbp']

    def op_query(names=None):
        stats['queries'] += 1
        if names is None:
            pool = _QA + (_QP * 2 if L.order else [])
            names = [rng.choice(pool) for _ in range(rng.randint(1, 5))]
            if rng.random() < 0.25:
                names.insert(rng.randrange(len(names) + 1), rng.choice(['bad_' + n for n in _QP] + ['acct_cash_bad']))
        rendered = []
        before = _raw(broker)
        for name in names:
            bad = name.startswith('bad_') or name == 'acct_cash_bad'
            base = name[4:] if name.startswith('bad_') else name
            pid = (unknown_pid() if bad else rng.choice(L.order)) if base in _QP else None
            rendered.append(base + ('(%s)' % pid if pid else '') + ('!' if bad else ''))
            res = []
            for _ in range(2):                                      # twice in a row
                try:
                    res.append(('ok', call_getter(base, pid)))
                except Exception as e:
                    res.append(('err', e))
            if bad:
                stats['refused'] += 1
                want = KeyError if base in ('pf_mv', 'pf_equity', 'pf_dict') else ValueError
                other = ValueError if want is KeyError else KeyError
                chk('refusal-type', all(k == 'err' and isinstance(v, want) and not isinstance(v, other) for k, v in res),
                    [k if k == 'ok' else type(v).__name__ for k, v in res], want.__name__)
                chk('refusal-changes-nothing', _raw(broker) == before, _diff(before, _raw(broker)), 'state as before')
                continue
            if res[0][0] == 'err' or res[1][0] == 'err':
                e = res[0][1] if res[0][0] == 'err' else res[1][1]
                chk('account-totals-are-sums' if base.startswith('acct') else 'queries-change-nothing', False,
                    '%s raised %s: %s' % (base, type(e).__name__, e), 'a value')
                continue
            check_getter(base, pid, res[0][1])
            chk('queries-change-nothing', res[0][1] == res[1][1], [base, pid, res[0][1], res[1][1]], 'same answer twice')
        ops.append(['query'] + rendered)
        chk('queries-change-nothing', _raw(broker) == before, _diff(before, _raw(broker)), 'state as before the queries')

    # -- scripted motifs: the history patterns that the missed regressions needed -----------------------------------------
    forced = collections.deque()

    def motif():
        pid = rng.choice(L.order)
        a = rng.choice(assets)
        other = rng.choice(L.order)
        m = rng.randrange(6)
        if m == 0:      # held, closed, ordered again later
            forced.extend([('order', pid, a, 'buy'), ('update', 'open'), ('order', pid, a, 'close'), ('update', 'open'),
                           ('update', None), ('update', None), ('order', pid, a, 'rand'), ('update', 'open'), ('query', None)])
        elif m == 1:    # both sides of one asset in the same update / at the same instant
            forced.extend([('order', pid, a, 'buy'), ('order', other, a, 'sell'), ('update', 'open'), ('order', other, a, 'buy'),
                           ('order', pid, a, 'sell'), ('update', 'same'), ('query', None)])
        elif m == 2:    # query, mutate, query - no update in between
            forced.extend([('query', ['acct_equity', 'acct_mv', 'pf_equity', 'pf_cash']), ('sub_pf', pid), ('query', ['acct_equity', 'pf_equity']),
                           ('wd_pf', pid), ('query', ['acct_equity', 'acct_cash_usd', 'pf_cash']), ('sub_acct',), ('query', ['acct_cash', 'acct_equity'])])
        elif m == 3:    # one asset held by several portfolios, marked later
            forced.extend([('order', p, a, 'buy') for p in L.order] + [('update', 'open'), ('update', None),
                           ('query', ['acct_mv', 'pf_mv', 'pf_dict', 'pf_dict', 'acct_equity'])])
        elif m == 4:    # sells of a later portfolio vs buys of an earlier one
            forced.extend([('order', L.order[0], a, 'buy'), ('order', L.order[-1], rng.choice(assets), 'sell'),
                           ('order', L.order[0], rng.choice(assets), 'sell'), ('order', L.order[-1], a, 'buy'),
                           ('update', 'closed'), ('update', 'open')])
        else:           # refusals after positions and pending orders exist
            forced.extend([('order', pid, a, 'rand'), ('update', 'open'), ('order', pid, a, 'rand'), ('bad',), ('bad',),
                           ('query', None), ('update', 'boundary')])

    def random_bad():
        k = rng.randrange(7)
        if not L.order and k in (2, 3, 4):      # no portfolio yet: only the unknown-portfolio form of these exists
            return transfer(rng.choice(['sub', 'wd']), unknown_pid(), free_amount() if L.master <= 0 else
                            (valid_amount(L.master) or 0.01), True)
        if k == 0:
            op_sub_acct(True)
        elif k == 1:
            op_wd_acct(True)
        elif k == 2:
            op_sub_pf(True)
        elif k == 3:
            op_wd_pf(True)
        elif k == 4:
            op_create(True)
        elif k == 5:
            op_order(True)
        else:
            op_query([rng.choice(['bad_' + n for n in _QP] + ['acct_cash_bad'])])

    def one_op():
        if forced and L.order:
            f = forced.popleft()
            k = f[0]
            if k == 'order':
                return op_order(False, f[1], f[2], f[3])
            if k == 'update':
                return op_update(f[1])
            if k == 'query':
                return op_query(list(f[1]) if f[1] else None)
            if k == 'sub_pf':
                return op_sub_pf(False, f[1])
            if k == 'wd_pf':
                return op_wd_pf(False, f[1])
            if k == 'sub_acct':
                return op_sub_acct(False)
            return random_bad()
        if not L.order:
            k = rng.choices(['create', 'sub_acct', 'wd_acct', 'update', 'query', 'bad'], [50, 15, 5, 10, 10, 10])[0]
        else:
            k = rng.choices(['update', 'order', 'query', 'sub_pf', 'wd_pf', 'sub_acct', 'wd_acct', 'create', 'motif'],
                            [22, 26, 14, 9, 6, 4, 3, 5, 5])[0]
            if k not in ('update', 'query', 'motif') and rng.random() < 0.2:
                k = 'bad'
        if k == 'motif':
            motif()
            return one_op()
        if k == 'bad':
            return random_bad()
        if k == 'create':
            return op_create(rng.random() < 0.25)
        if k == 'update':
            return op_update()
        if k == 'order':
            return op_order(False)
        if k == 'query':
            return op_query()
        return {'sub_pf': op_sub_pf, 'wd_pf': op_wd_pf, 'sub_acct': op_sub_acct, 'wd_acct': op_wd_acct}[k](False)

    # -- resynchronisation: after a failing step the ledger adopts the broker's ACTUAL state, so that the following steps are
    #    judged on their own and one divergence is not reported again as a cascade under other clauses ----------------------
    def resync():
        L.master = broker.cash_balances['USD']
        pids = list(broker.portfolios.keys())
        for d in (L.cash, L.hold, L.last, L.pending, L.hist):
            for k in [k for k in d if k not in pids]:
                del d[k]
        L.order = pids
        tok_by_id = {id(o): tok for tok, o in order_objs.items()}
        for pid in pids:
            p = broker.portfolios[pid]
            if 'transact_asset' not in p.__dict__:       # a portfolio object the harness has not seen (e.g. silently replaced)
                wrap(pid)
            L.cash[pid] = p.cash
            hold, last = {}, {}
            for a, x in p.pos_handler.positions.items():
                q = x.buy_quantity - x.sell_quantity
                if q == int(q):
                    q = int(q)
                if q != 0:
                    hold[a] = q
                    last[a] = x.current_price
            L.hold[pid], L.last[pid] = hold, last
            pend = []
            for o in (_pending(broker, pid) if pid in broker.open_orders else []):
                tok = tok_by_id.get(id(o))
                if tok is None:
                    tokens[0] += 1
                    tok = tokens[0]
                    order_objs[tok] = o
                pend.append((tok, o.asset, o.quantity))
            L.pending[pid] = pend
            L.hist[pid] = [(ev.type, 'credit' if ev.credit else 'debit', ev.credit or ev.debit, ev.balance, None) for ev in p.history]
            seen_hist[pid] = len(p.history)

    # -- main loop -------------------------------------------------------------------------------------------------------
    executed = 0
    for i in range(n_ops):
        step[0] = i
        del step_fail[:]
        dirty[0] = False
        n_log = len(txn_log)
        n_before = len(ops)
        try:
            one_op()
            if len(ops) > n_before and ops[n_before][0] != 'update':
                chk('pending-until-first-open-update', len(txn_log) == n_log,
                    'fill outside update: %r' % ([list(f[:3]) for f in txn_log[n_log:]][:2],), 'no fill')
                for f in txn_log[n_log:]:           # booked as it happened, so that the accounting clauses judge the accounting
                    L.book(f[0], f[1], f[2], f[3], f[4], f[5].value // 1000)
            after_op()
        except _Stop:           # the step was abandoned (a valid request or an update raised); already recorded
            pass
        except Exception as e:  # the harness could not observe the state (never raise out of run())
            chk('cash-ledger', False, 'state not observable: %s: %s' % (type(e).__name__, e), 'observable broker state')
        executed += 1
        if dirty[0]:
            for f in step_fail:
                seq_fail[f['clause']] = dict(f, step=i, failing_op=ops[-1] if len(ops) > n_before else None,
                                             tail=[list(o) for o in ops[max(0, len(ops) - 6):]])
            try:
                resync()
            except Exception:
                break
    digest = hashlib.sha1(repr(ops).encode()).hexdigest()
    out = {'n_ops': n_ops, 'executed': executed, 'digest': digest, 'stats': stats,
           'nontrivial': all(stats[k] > 0 for k in ('fills', 'transfers', 'refused', 'queries')), 'failures': []}
    cfg = {'fee': 'zero' if fee_cfg is None else list(fee_cfg), 'initial_funds': initial, 'assets': assets, 'dense': dense,
           'dup_order_ids': dup_ids, 'start': _iso(start)}
    for f in sorted(seq_fail.values(), key=lambda f: (f['step'], _PRIORITY.index(f['clause']))):
        out['failures'].append({'clause': f['clause'],
                                'case': {'seed': seed, 'index': index, 'clause': f['clause'], 'step': f['step'], 'n_ops': n_ops,
                                         'config': cfg, 'failing_op': f['failing_op'], 'ops': ops[:want_render],
                                         'ops_before_failure': f['tail']},
                                'observed': _jsonable(f['observed']), 'expected': _jsonable(f['expected'])})
    out['sample'] = {'seed': seed, 'index': index, 'n_ops': n_ops, 'config': cfg, 'ops': ops[:8], 'stats': stats}
    return out


def _jsonable(x):
    if isinstance(x, (str, int, float, bool)) or x is None:
        return x
    if isinstance(x, dict):
        return {str(k): _jsonable(v) for k, v in x.items()}
    if isinstance(x, (list, tuple, set)):
        return [_jsonable(v) for v in x]
    return str(x)


# ----------------------------------------------------------------------------------------------------------------------
# driver
# ----------------------------------------------------------------------------------------------------------------------
def _setup():
    import qstrader
    from qstrader import settings
    root = os.path.realpath(os.environ.get('QSTRADER_ROOT', '/repo'))
    assert os.path.realpath(qstrader.__file__).startswith(root), qstrader.__file__
    settings.PRINT_EVENTS = os.environ.get("PYVC_AMBIENT") == "1"


def _run_range(args):
    seed, lo, hi, deadline = args
    _setup()
    acc = {c: [0, 0] for c in CLAUSES}
    fails, digests, samples = [], set(), []
    evaluations = done = nontrivial = 0
    for index in range(lo, hi):
        if deadline is not None and time.time() > deadline:
            break
        r = _run_sequence(seed, index, acc)
        done += 1
        evaluations += r['executed']
        if r['nontrivial'] and r['digest'] not in digests:
            digests.add(r['digest'])
            nontrivial += 1
            if len(samples) < 2 and r['n_ops'] <= 20:
                samples.append(r['sample'])
        fails.extend(r['failures'])
        if len(fails) > 400:
            fails = _smallest_per_clause(fails)
    return {'acc': acc, 'fails': _smallest_per_clause(fails), 'digests': digests, 'samples': samples, 'evaluations': evaluations, 'done': done,
            'complete': done == hi - lo}


# most specific clause first when several fail at the same step of the same sequence
_PRIORITY = ['refusal-type', 'refusal-changes-nothing', 'pending-until-first-open-update', 'filled-once-in-full',
             'fill-on-own-portfolio', 'sells-before-buys-then-submission-order', 'fill-price-ask-buy-bid-sell-at-update-time',
             'fill-stamped-update-time', 'commission-is-fee-on-rounded-consideration', 'transfer-zero-sum', 'queries-change-nothing',
             'holdings-are-net-fills', 'valued-at-latest-price', 'account-totals-are-sums', 'cash-ledger',
             'history-events-rounded-once']


def _fail_key(f):
    return (f['case']['step'], f['case']['n_ops'], f['case']['index'], _PRIORITY.index(f['clause']))


_KEEP_PER_CLAUSE = 3


def _smallest_per_clause(fails):
    """The _KEEP_PER_CLAUSE smallest failing cases of EVERY clause (so that a clause that fails rarely or late is not crowded out)."""
    out, n = [], {}
    for f in sorted(fails, key=_fail_key):
        if n.get(f['clause'], 0) < _KEEP_PER_CLAUSE:
            n[f['clause']] = n.get(f['clause'], 0) + 1
            out.append(f)
    return out


def run(tier='quick', seed=0, budget_s=60.0, jobs=1):
    _setup()
    t0 = time.time()
    if tier == 'quick':
        parts = [_run_range((seed, 0, N_QUICK, t0 + max(1.0, min(budget_s, 25.0) - 1.0)))]
        total = N_QUICK
    else:
        total = N_THOROUGH
        jobs = max(1, int(jobs or 1))
        chunk = 250
        tasks = [(seed, lo, min(lo + chunk, total), None) for lo in range(0, total, chunk)]
        if jobs > 1:
            import multiprocessing
            with multiprocessing.get_context('fork').Pool(jobs) as pool:
                parts = pool.map(_run_range, tasks, chunksize=1)
        else:
            parts = [_run_range(t) for t in tasks]
    acc = {c: [0, 0] for c in CLAUSES}
    fails, digests, samples = [], set(), []
    evaluations = done = 0
    complete = True
    for p in parts:
        for c in CLAUSES:
            acc[c][0] += p['acc'][c][0]
            acc[c][1] += p['acc'][c][1]
        fails.extend(p['fails'])
        digests |= p['digests']
        samples.extend(p['samples'])
        evaluations += p['evaluations']
        done += p['done']
        complete = complete and p['complete']
    fails = _smallest_per_clause(fails)
    return {
        'evaluations': evaluations,
        'sequences': done,
        'distinct_nontrivial': len(digests),
        'rule': RULE,
        'samples': samples[:4],
        'exhaustive': False,
        'budget_cut': not complete,
        'clauses': {c: {'checked': acc[c][0], 'failed': acc[c][1]} for c in CLAUSES},
        'n_failures': sum(v[1] for v in acc.values()),
        'failures': fails,
        'elapsed_s': round(time.time() - t0, 2),
    }


def replay(case):
    _setup()
    acc = {c: [0, 0] for c in CLAUSES}
    r = _run_sequence(int(case['seed']), int(case['index']), acc)
    fs = r['failures']
    if not fs:
        return {'reproduced': False, 'clause': None, 'observed': None, 'expected': 'ledger'}
    want = case.get('clause')
    if want is not None and not any(x['clause'] == want for x in fs):
        return {'reproduced': False, 'clause': want, 'clauses': [x['clause'] for x in fs], 'observed': None, 'expected': 'ledger'}
    f = ([x for x in fs if x['clause'] == want] or fs)[0]
    return {'reproduced': True, 'clause': f['clause'], 'clauses': [x['clause'] for x in fs], 'step': f['case']['step'],
            'observed': f['observed'], 'expected': f['expected']}


if __name__ == '__main__':
    import json
    import sys
    _tier = sys.argv[1] if len(sys.argv) > 1 else 'quick'
    _jobs = int(sys.argv[2]) if len(sys.argv) > 2 else (1 if _tier == 'quick' else (os.cpu_count() or 1))
    print(json.dumps(run(_tier, jobs=_jobs), default=str, indent=1))
