"""Independent pure-`datetime` calendar used as the oracle of the bounded checks C12 and C13.

Nothing in this file imports pandas, numpy or qstrader.  Everything is written from the property
statements in /verif/properties.jsonl (ids C12, C13):

* a *business day* is a Monday-Friday date (no holidays);
* a date d is *in the range* (start, end) iff   start <= (d at the start's time of day) <= end.
  The statements quantify over (start, end) pairs whose end time-of-day is not before the start's; on that
  domain the definition above is equivalent to the plain   start.date() <= d <= end.date()
  (if start.date() <= d <= end.date() then d@tod(start) >= start and d@tod(start) <= end.date()@tod(start)
  <= end; the converse is immediate), so there is only one reasonable reading of "inside the range" there.
  `dates_in_range` implements the first form literally and `dates_in_range_by_date` the second; the check
  modules assert that the two agree on every case they generate (an internal oracle self-check).
* the clock emits per business day  [pre_market 00:00]? , market_open 14:30 , market_close 21:00 ,
  [post_market 23:59]?  (UTC);
* weekly = in-range dates on the chosen weekday; daily = in-range business days; end of month = the last
  business day of each month, kept only when that date is in range; buy-and-hold = the start if its date is a
  business day, else the same time of day on the next business day.

All datetimes handled here are naive and mean UTC wall-clock time.
"""
import datetime as _dt

DAY = _dt.timedelta(days=1)

WEEKDAY_INDEX = {"MON": 0, "TUE": 1, "WED": 2, "THU": 3, "FRI": 4}

PRE_MARKET_TOD = (0, 0)
MARKET_OPEN_TOD = (14, 30)
MARKET_CLOSE_TOD = (21, 0)
POST_MARKET_TOD = (23, 59)

EVENT_TOD = {
    "pre_market": PRE_MARKET_TOD,
    "market_open": MARKET_OPEN_TOD,
    "market_close": MARKET_CLOSE_TOD,
    "post_market": POST_MARKET_TOD,
}
CANONICAL_EVENT_ORDER = ("pre_market", "market_open", "market_close", "post_market")

_EPOCH_ORDINAL = _dt.date(1970, 1, 1).toordinal()


def is_business_day(d):
    """Monday..Friday (datetime.date.weekday(): Monday == 0)."""
    return d.weekday() <= 4


def next_business_day(d):
    """The first business day strictly after d."""
    n = d + DAY
    while not is_business_day(n):
        n += DAY
    return n


def last_day_of_month(year, month):
    if month == 12:
        return _dt.date(year, 12, 31)
    return _dt.date(year, month + 1, 1) - DAY


def last_business_day_of_month(year, month):
    d = last_day_of_month(year, month)
    while not is_business_day(d):
        d -= DAY
    return d


def at(d, tod):
    """date d at time of day tod = (hour, minute[, second]) -> naive datetime."""
    return _dt.datetime(d.year, d.month, d.day, *tod)


def dates_in_range(start, end):
    """All dates d with  start <= d@time-of-day(start) <= end  (start, end naive datetimes)."""
    out = []
    tod = start.time()
    d = start.date() - DAY          # one day of slack on both sides; the filter decides
    last = end.date() + DAY
    while d <= last:
        inst = _dt.datetime.combine(d, tod)
        if start <= inst <= end:
            out.append(d)
        d += DAY
    return out


def dates_in_range_by_date(start, end):
    """All dates d with start.date() <= d <= end.date()."""
    out = []
    d = start.date()
    while d <= end.date():
        out.append(d)
        d += DAY
    return out


def tod_not_before(start, end):
    """The quantifier of C12/C13: the end's time of day is not before the start's."""
    return end.time() >= start.time()


def business_days_in_range(start, end):
    return [d for d in dates_in_range(start, end) if is_business_day(d)]


def weekday_dates_in_range(start, end, weekday):
    """weekday: one of MON..FRI in any letter case."""
    idx = WEEKDAY_INDEX[weekday.upper()]
    return [d for d in dates_in_range(start, end) if d.weekday() == idx]


def weekday_is_known(weekday):
    return isinstance(weekday, str) and weekday.upper() in WEEKDAY_INDEX


def end_of_month_dates_in_range(start, end):
    """Last business day of every month, kept iff that date is in range."""
    inside = set(dates_in_range(start, end))
    out = []
    y, m = start.year, start.month
    # one month of slack before the start is unnecessary: a month's last business day is never
    # earlier than the first of that month, and dates before start.date() are never in range.
    while (y, m) <= (end.year, end.month):
        d = last_business_day_of_month(y, m)
        if d in inside:
            out.append(d)
        m += 1
        if m == 13:
            y, m = y + 1, 1
    return out


def buy_and_hold_instant(start):
    """start if its date is a business day else the same time of day on the next business day."""
    d = start.date()
    if is_business_day(d):
        return start
    return _dt.datetime.combine(next_business_day(d), start.time())


def clock_events(start, end, pre_market, post_market):
    """Expected event list [(naive UTC datetime, event_type), ...] of the simulation clock."""
    out = []
    for d in business_days_in_range(start, end):
        if pre_market:
            out.append((at(d, PRE_MARKET_TOD), "pre_market"))
        out.append((at(d, MARKET_OPEN_TOD), "market_open"))
        out.append((at(d, MARKET_CLOSE_TOD), "market_close"))
        if post_market:
            out.append((at(d, POST_MARKET_TOD), "post_market"))
    return out


def expected_day_types(pre_market, post_market):
    out = []
    if pre_market:
        out.append("pre_market")
    out.append("market_open")
    out.append("market_close")
    if post_market:
        out.append("post_market")
    return out


def epoch_ns(dt):
    """Nanoseconds since 1970-01-01T00:00 UTC of a naive-UTC datetime, in exact integer arithmetic."""
    days = dt.date().toordinal() - _EPOCH_ORDINAL
    secs = days * 86400 + dt.hour * 3600 + dt.minute * 60 + dt.second
    return (secs * 1000000 + dt.microsecond) * 1000


def iso(dt):
    """JSON-able rendering of a naive-UTC datetime / date."""
    if isinstance(dt, _dt.datetime):
        return dt.strftime("%Y-%m-%dT%H:%M:%S")
    return dt.isoformat()


def parse_iso(s):
    return _dt.datetime.strptime(s, "%Y-%m-%dT%H:%M:%S")


# ---------------------------------------------------------------------------------------------
# The calendar window and range shapes shared by C12 and C13 (DESIGN.md section 4)
# ---------------------------------------------------------------------------------------------
WINDOW_FIRST = _dt.date(2015, 12, 15)
WINDOW_LAST = _dt.date(2032, 3, 15)
RANGE_LENGTHS = (0, 1, 2, 3, 4, 5, 6, 7, 8, 9, 10, 31, 33, 70, 366, 800)
# lengths also run with the end's time of day EQUAL to the start's (the edge of "not before")
EQUAL_TOD_LENGTHS = (0, 1, 3, 7, 31)
END_TOD = (23, 59)


def window_dates():
    out = []
    d = WINDOW_FIRST
    while d <= WINDOW_LAST:
        out.append(d)
        d += DAY
    return out


def boundary_start_dates():
    """Fixed boundary set of start dates used by the quick tiers: a full week (every weekday alignment,
    weekend-only and single-day ranges), the days around every leap day of the window, around every year
    end, and around the month ends of months whose last calendar day is a Saturday or a Sunday."""
    out = []
    seen = set()

    def add(d):
        if WINDOW_FIRST <= d <= WINDOW_LAST and d not in seen:
            seen.add(d)
            out.append(d)

    for k in range(7):                                   # Mon 2020-01-06 .. Sun 2020-01-12
        add(_dt.date(2020, 1, 6) + k * DAY)
    for y in (2016, 2020, 2024, 2028):                   # leap days (Mon, Sat, Thu, Tue)
        for k in (-2, -1, 0, 1):
            add(_dt.date(y, 2, 29) + k * DAY)
    for y in range(2015, 2032):                          # year ends
        for k in (-2, -1, 0, 1):
            add(_dt.date(y, 12, 31) + k * DAY)
    y, m = 2016, 1                                       # month ends on a weekend
    n = 0
    while (y, m) <= (2032, 2) and n < 12:
        last = last_day_of_month(y, m)
        if not is_business_day(last):
            for k in (-2, -1, 0, 1):
                add(last + k * DAY)
            n += 1
        m += 1
        if m == 13:
            y, m = y + 1, 1
    add(WINDOW_FIRST)
    add(WINDOW_LAST)
    return out
