"""Bounded stand-in for property C16 (numeric part): momentum / SMA / volatility signals equal their
definitions over the trailing window, lookbacks and assets are independent, non-positive prices are
rejected, and SignalsCollection.update feeds exactly one observation per tracked asset per call.

The spec functions (`spec_momentum`, `spec_sma`, `spec_vol`, `spec_stream_of`) are written from the
property statement in plain Python (lists, math) and never call the code under test.
"""
import hashlib
import itertools
import json
import math
import os
import random
import time
import warnings

import numpy as np
import pandas as pd

import qstrader
from qstrader import settings
from qstrader.asset.universe.dynamic import DynamicUniverse
from qstrader.asset.universe.static import StaticUniverse
from qstrader.signals.buffer import AssetPriceBuffers
from qstrader.signals.momentum import MomentumSignal
from qstrader.signals.signals_collection import SignalsCollection
from qstrader.signals.sma import SMASignal
from qstrader.signals.vol import VolatilitySignal

assert os.path.realpath(qstrader.__file__).startswith(
    os.path.realpath(os.environ.get("QSTRADER_ROOT", "/repo"))
), qstrader.__file__
settings.PRINT_EVENTS = os.environ.get("PYVC_AMBIENT") == "1"      # (ambient re-run: the library default True, output discarded)

PROPERTY = "C16"
PROPERTIES = ["C16"]

ALPHABET = (1.0, 2.0, 2.5, 10.0)
LOOKBACKS = (1, 2, 3, 5, 8, 21)
MAX_SMALL_LEN = 7
NAMES = ('EQ:A_1', 'EQ:A', 'A_1_2', 'A_1', 'A', 'X_1', 'X', 'EQ:SPY', 'A_12', 'A_2', '1', '1_2')
BAD_PRICES = (0.0, -0.0, -1.0, -2.5, -1e-12, 0, -3)

BOUND = (
    "quick: a seeded sample (random.Random(seed)) of: 400 of the 21845 price streams of length 0-7 over "
    "{1.0,2.0,2.5,10.0} (one asset, all six lookbacks {1,2,3,5,8,21}, value checked after the last append; single-lookback twin comparison on every 4th); "
    "interleaved 2-3 asset small-alphabet streams and random log-normal streams up to length 300 with "
    "lookback subsets of {1,2,3,5,8,21} (any order) and 1-3 asset names drawn from a 12-name list with "
    "underscores/digits/colons; three fixed two-asset streams whose scale changes one way by up to 16 orders of magnitude (1e16 -> 1 in one step, 4e5 falling to "
    "4e-6 and back up by sqrt(10) per step), every value checked after every append (both tiers); rejected-price cases (0.0,-0.0,-1.0,-2.5,-1e-12,0,-3, seen and unseen assets); "
    "SignalsCollection cases with a stub data handler, 1-10 business-day updates, Static and Dynamic "
    "universes with entry before/at/between/after the update times or None; and one mechanical "
    "key-injectivity case over 226 generated asset names x 33 lookbacks (keys of AssetPriceBuffers, MomentumSignal, VolatilitySignal; windows of all four classes). "
    "thorough: the complete set of the 21845 small streams (exhaustive) plus 4000 interleaved, 3000 random, "
    "1000 rejection, 1500 static-collection and 2500 dynamic-collection cases. Tolerance rel 1e-9 / abs 1e-12; "
    "the zero results (no return yet) are compared exactly."
)

CLAUSES = (
    'momentum-definition', 'sma-definition', 'vol-definition', 'warmup-shorter-window',
    'no-return-gives-zero', 'lookbacks-independent', 'assets-independent', 'keys-do-not-collide',
    'non-positive-price-rejected', 'collection-one-observation-per-asset', 'dynamic-entry-starts-empty',
)

RULE = (
    "Cases are generated from random.Random(seed) (per chunk in thorough) and deduplicated by the sha1 of "
    "their canonical JSON. A stream/reject case is non-trivial when at least one asset receives >= 2 accepted "
    "prices (so a return exists); a collection case when it has >= 2 updates with an asset tracked in both; "
    "the key-injectivity case is non-trivial."
)

KINDS = (('mom', MomentumSignal), ('sma', SMASignal), ('vol', VolatilitySignal))
_START = '2020-01-01T00:00:00+00:00'


# --------------------------------------------------------------------------------------------------
# Spec (independent, pure Python, from the property statement)
# --------------------------------------------------------------------------------------------------
def spec_momentum(prices, n_lookback):
    """last/first - 1 over the most recent min(N+1, n) prices; 0.0 with fewer than two prices."""
    window = prices[-(n_lookback + 1):]
    if len(window) < 2:
        return 0.0
    return window[-1] / window[0] - 1.0


def spec_sma(prices, n_lookback):
    """arithmetic mean of the most recent min(N, n) prices (n >= 1)."""
    window = prices[-n_lookback:]
    return math.fsum(window) / len(window)


def spec_vol(prices, n_lookback):
    """population std (ddof=0) of the most recent min(N, n-1) simple returns, times sqrt(252); 0.0 if none."""
    rets = [prices[i] / prices[i - 1] - 1.0 for i in range(1, len(prices))]
    window = rets[-n_lookback:]
    if not window:
        return 0.0
    mean = math.fsum(window) / len(window)
    var = math.fsum((r - mean) ** 2 for r in window) / len(window)
    return math.sqrt(var) * math.sqrt(252.0)


def spec_stream_of(entry, start, dts, prices):
    """Observations an asset must have received after each update: the mid price of every update whose
    time is on/after the asset's entry time (entry None = never enters).  ISO strings compare via datetime."""
    if entry is None:
        return []
    e = _dt(entry)
    return [p for d, p in zip(dts, prices) if _dt(d) >= e]


def _dt(iso):
    import datetime
    return datetime.datetime.fromisoformat(iso)


def _close(a, b):
    try:
        a = float(a)
        b = float(b)
    except Exception:
        return False
    if math.isnan(a) or math.isnan(b):
        return False
    return math.isclose(a, b, rel_tol=1e-9, abs_tol=1e-12)


def _same(a, b):
    """Exact equality of two library results (nan == nan)."""
    try:
        a = float(a)
        b = float(b)
    except Exception:
        return a == b
    return a == b or (math.isnan(a) and math.isnan(b))


def _js(x):
    if isinstance(x, (np.floating, np.integer)):
        x = x.item()
    if isinstance(x, float) and (math.isnan(x) or math.isinf(x)):
        return repr(x)
    if isinstance(x, (int, float, str, bool)) or x is None:
        return x
    if isinstance(x, (list, tuple)):
        return [_js(i) for i in x]
    if isinstance(x, dict):
        return {str(k): _js(v) for k, v in x.items()}
    return repr(x)


# --------------------------------------------------------------------------------------------------
# Result accumulator
# --------------------------------------------------------------------------------------------------
class _Acc(object):
    def __init__(self):
        self.clauses = {c: [0, 0] for c in CLAUSES}
        self.failures = []
        self.n_failures = 0

    def check(self, clause, ok, case, where, observed, expected):
        c = self.clauses[clause]
        c[0] += 1
        if not ok:
            c[1] += 1
            self.n_failures += 1
            if len(self.failures) < 60:
                fc = dict(case)
                fc['clause'] = clause
                fc['where'] = where
                self.failures.append({'clause': clause, 'case': _js(fc),
                                      'observed': _js(observed), 'expected': _js(expected),
                                      '_size': _case_size(case)})

    def merge(self, other):
        for k, (a, b) in other.clauses.items():
            self.clauses[k][0] += a
            self.clauses[k][1] += b
        self.n_failures += other.n_failures
        self.failures.extend(other.failures)
        self.failures.sort(key=lambda f: f['_size'])
        del self.failures[60:]


def _case_size(case):
    return len(case.get('appends', ())) + len(case.get('dts', ())) * max(1, len(case.get('assets', ())))


def _call(fn, *args):
    try:
        return fn(*args)
    except Exception as e:  # a failure, never an exception of the harness
        return 'EXC:%s:%s' % (type(e).__name__, e)


# --------------------------------------------------------------------------------------------------
# Case runners (call the REAL qstrader classes)
# --------------------------------------------------------------------------------------------------
def _mk_static_signals(assets, lookbacks):
    start = pd.Timestamp(_START)
    return {k: cls(start, StaticUniverse(list(assets)), list(lookbacks)) for k, cls in KINDS}


def _check_values(acc, case, sigs, assets, lookbacks, hist, pos, base_clause=None):
    """Compare every (kind, asset, lookback) value with the spec on the asset's accepted price history."""
    for a in assets:
        p = hist.get(a, [])
        n = len(p)
        for N in lookbacks:
            where = {'pos': pos, 'asset': a, 'lookback': N, 'n_prices': n}
            # momentum
            obs = _call(sigs['mom'], a, N)
            exp = spec_momentum(p, N)
            if n < 2:
                cl, ok = 'no-return-gives-zero', _same(obs, 0.0) and not isinstance(obs, str)
            else:
                cl, ok = ('warmup-shorter-window' if n < N + 1 else 'momentum-definition'), _close(obs, exp)
            acc.check(base_clause or cl, ok, case, dict(where, kind='mom'), obs, exp)
            # volatility
            obs = _call(sigs['vol'], a, N)
            exp = spec_vol(p, N)
            if n < 2:
                cl, ok = 'no-return-gives-zero', _same(obs, 0.0) and not isinstance(obs, str)
            else:
                cl, ok = ('warmup-shorter-window' if n - 1 < N else 'vol-definition'), _close(obs, exp)
            acc.check(base_clause or cl, ok, case, dict(where, kind='vol'), obs, exp)
            # sma (n = 0 is outside the statement)
            if n >= 1:
                obs = _call(sigs['sma'], a, N)
                exp = spec_sma(p, N)
                cl = 'warmup-shorter-window' if n < N else 'sma-definition'
                acc.check(base_clause or cl, _close(obs, exp), case, dict(where, kind='sma'), obs, exp)


def _run_stream(case, acc):
    assets = case['assets']
    lookbacks = case['lookbacks']
    appends = case['appends']
    cps = case.get('checkpoints', 'final')
    if cps == 'all':
        cps = set(range(len(appends) + 1))
    elif cps == 'final':
        cps = {len(appends)}
    else:
        cps = set(cps) | {len(appends)}
    sigs = _mk_static_signals(assets, lookbacks)
    hist = {a: [] for a in assets}
    if 0 in cps:
        _check_values(acc, case, sigs, assets, lookbacks, hist, 0)
    for i, (ai, price) in enumerate(appends):
        a = assets[ai]
        for k, _ in KINDS:
            sigs[k].append(a, price)
        hist[a].append(price)
        if (i + 1) in cps:
            _check_values(acc, case, sigs, assets, lookbacks, hist, i + 1)
    pos = len(appends)
    # lookbacks never influence each other: same value as a signal that only knows this one lookback
    if len(lookbacks) >= 2 and case.get('indep', True):
        for N in lookbacks:
            solo = _mk_static_signals(assets, [N])
            for ai, price in appends:
                for k, _ in KINDS:
                    solo[k].append(assets[ai], price)
            for a in assets:
                for k, _ in KINDS:
                    if k == 'sma' and not hist[a]:
                        continue
                    o, e = _call(sigs[k], a, N), _call(solo[k], a, N)
                    acc.check('lookbacks-independent', _same(o, e) and not isinstance(o, str), case,
                              {'pos': pos, 'asset': a, 'lookback': N, 'kind': k}, o, e)
    # assets never influence each other: same value as a signal that only knows this one asset
    if len(assets) >= 2:
        for a in assets:
            solo = _mk_static_signals([a], lookbacks)
            for price in hist[a]:
                for k, _ in KINDS:
                    solo[k].append(a, price)
            for N in lookbacks:
                for k, _ in KINDS:
                    if k == 'sma' and not hist[a]:
                        continue
                    o, e = _call(sigs[k], a, N), _call(solo[k], a, N)
                    acc.check('assets-independent', _same(o, e) and not isinstance(o, str), case,
                              {'pos': pos, 'asset': a, 'lookback': N, 'kind': k}, o, e)


def _windows(sig):
    return {k: list(d) for k, d in sig.buffers.prices.items()}


def _check_twin(acc, clause, case, sigs, twin, assets, lookbacks, hist, where):
    """The signals under test hold exactly the windows / give exactly the values of twin signals that were
    fed the expected observations (from the spec) directly through Signal.append."""
    for k, _ in KINDS:
        w, e = _call(_windows, sigs[k]), _call(_windows, twin[k])
        if not isinstance(w, str) and not isinstance(e, str):
            w = {kk: v for kk, v in w.items() if v}
            e = {kk: v for kk, v in e.items() if v}
        acc.check(clause, w == e and not isinstance(w, str), case, dict(where, kind=k, sub='windows'), w, e)
        for a in assets:
            if k == 'sma' and not hist.get(a):
                continue
            for N in lookbacks:
                o, e = _call(sigs[k], a, N), _call(twin[k], a, N)
                acc.check(clause, _same(o, e) and not isinstance(o, str), case,
                          dict(where, kind=k, asset=a, lookback=N, sub='value'), o, e)


def _run_reject(case, acc):
    assets = case['assets']
    lookbacks = case['lookbacks']
    appends = case['appends']
    bad = {}
    for pos, name, price in case['bad']:
        bad.setdefault(pos, []).append((name, price))
    sigs = _mk_static_signals(assets, lookbacks)
    bufs = AssetPriceBuffers(list(assets), lookbacks=list(lookbacks))
    hist = {a: [] for a in assets}
    for i in range(len(appends) + 1):
        for name, price in bad.get(i, ()):
            targets = [(k, sigs[k], sigs[k].append, lambda s=sigs[k]: _windows(s)) for k, _ in KINDS]
            targets.append(('buffers', bufs, bufs.append, lambda: {k: list(d) for k, d in bufs.prices.items()}))
            for k, obj, app, snap in targets:
                before = snap()
                raised = None
                try:
                    app(name, price)
                except ValueError:
                    raised = 'ValueError'
                except Exception as e:
                    raised = type(e).__name__
                after = snap()
                where = {'pos': i, 'asset': name, 'price': price, 'target': k}
                acc.check('non-positive-price-rejected', raised == 'ValueError', case,
                          dict(where, what='raises'), raised, 'ValueError')
                acc.check('non-positive-price-rejected', before == after, case,
                          dict(where, what='windows-unchanged'), after, before)
        if i < len(appends):
            ai, price = appends[i]
            for k, _ in KINDS:
                sigs[k].append(assets[ai], price)
            bufs.append(assets[ai], price)
            hist[assets[ai]].append(price)
    # afterwards the signals are exactly those of a twin that never saw the rejected prices
    twin = _mk_static_signals(assets, lookbacks)
    for a in assets:
        for price in hist[a]:
            for k, _ in KINDS:
                twin[k].append(a, price)
    _check_twin(acc, 'non-positive-price-rejected', case, sigs, twin, assets, lookbacks, hist,
                {'pos': len(appends), 'what': 'values-as-if-never-offered'})


def key_names():
    """Asset-name alphabet for the mechanical injectivity test: bases x up to two suffix pieces."""
    bases = ('A', 'X', 'EQ:A', '1', 'A1', 'X_1')
    pieces = ('_1', '_2', '_12', '_21', '1', '2')
    names = []
    for b in bases:
        names.append(b)
        for p in pieces:
            names.append(b + p)
            for q in pieces:
                names.append(b + p + q)
    out = []
    for n in names:
        if n not in out:
            out.append(n)
    return out


KEY_LOOKBACKS = tuple(range(1, 26)) + (111, 112, 121, 122, 211, 212, 221, 1212)


def _run_keys(case, acc):
    names = key_names()
    lbs = list(KEY_LOOKBACKS)
    pairs = [(a, lb) for a in names for lb in lbs]
    keyfns = (
        ('AssetPriceBuffers', AssetPriceBuffers._asset_lookback_key),
        ('MomentumSignal', MomentumSignal._asset_lookback_key),
        ('VolatilitySignal', VolatilitySignal._asset_lookback_key),
    )
    for fname, fn in keyfns:
        seen = {}
        for pr in pairs:
            k = _call(fn, *pr)
            other = seen.get(k)
            acc.check('keys-do-not-collide', other is None and isinstance(k, str) and not k.startswith('EXC:'),
                      case, {'keyfn': fname, 'pair': list(pr), 'collides_with': list(other) if other else None},
                      k, 'a key not shared with any other (asset, lookback)')
            seen.setdefault(k, pr)
    # behavioural: one price per asset (its index + 1); every window of that asset holds exactly that price
    for kname, mk in (
        ('buffers', lambda: AssetPriceBuffers(list(names), lookbacks=list(lbs))),
        ('sma', lambda: SMASignal(pd.Timestamp(_START), StaticUniverse(list(names)), list(lbs))),
        ('mom', lambda: MomentumSignal(pd.Timestamp(_START), StaticUniverse(list(names)), list(lbs))),
        ('vol', lambda: VolatilitySignal(pd.Timestamp(_START), StaticUniverse(list(names)), list(lbs))),
    ):
        obj = mk()
        prices = obj.prices if kname == 'buffers' else obj.buffers.prices
        acc.check('keys-do-not-collide', len(prices) == len(pairs), case,
                  {'target': kname, 'what': 'number-of-windows'}, len(prices), len(pairs))
        ids = {id(d) for d in prices.values()}
        acc.check('keys-do-not-collide', len(ids) == len(prices), case,
                  {'target': kname, 'what': 'windows-are-distinct-objects'}, len(ids), len(prices))
        for i, a in enumerate(names):
            obj.append(a, float(i + 1))
        # every window holds exactly one observation, and each asset's price sits in exactly one window per
        # lookback (no assumption on how keys are spelled)
        got = sorted(tuple(d) for d in prices.values())
        want = sorted((float(i + 1),) for i in range(len(names)) for _ in lbs)
        diff = [g for g in got if len(g) != 1][:5]
        acc.check('keys-do-not-collide', got == want, case,
                  {'target': kname, 'what': 'each-window-holds-only-its-own-asset-price'},
                  {'n_windows': len(got), 'odd_windows': diff}, {'n_windows': len(want), 'odd_windows': []})
        if kname != 'buffers':
            badv = []
            for i, a in enumerate(names):
                for j, lb in enumerate(lbs):
                    if kname != 'sma' and (i + j) % 6:
                        continue  # momentum/volatility evaluations are slow: every 6th pair
                    v = _call(obj, a, lb)
                    e = float(i + 1) if kname == 'sma' else 0.0
                    if isinstance(v, str) or not _same(v, e):
                        badv.append([a, lb, _js(v)])
            acc.check('keys-do-not-collide', not badv, case,
                      {'target': kname, 'what': 'value-after-one-own-price'}, badv[:5], [])


class _StubHandler(object):
    """Data handler exposing the one query SignalsCollection uses; a distinct price per (dt, asset)."""
    def __init__(self, table):
        self.table = table
        self.calls = []

    def get_asset_latest_mid_price(self, dt, asset):
        self.calls.append((dt, asset))
        return self.table.get((dt, asset), 7777.0)


def _run_collection(case, acc):
    assets = case['assets']
    lookbacks = case['lookbacks']
    dts = case['dts']
    start = pd.Timestamp(case['start'])
    tss = [pd.Timestamp(d) for d in dts]
    dynamic = case['universe'] == 'dynamic'
    if dynamic:
        universe = DynamicUniverse({a: (None if case['entry'][a] is None else pd.Timestamp(case['entry'][a]))
                                    for a in assets})
        entry = case['entry']
    else:
        universe = StaticUniverse(list(assets))
        entry = {a: case['start'] for a in assets}
    table = {}
    for a in assets:
        for ts, p in zip(tss, case['prices'][a]):
            table[(ts, a)] = p
    handler = _StubHandler(table)
    sigs = {k: cls(start, universe, list(lookbacks)) for k, cls in KINDS}
    coll = SignalsCollection(sigs, handler)
    # twin signals: fed by hand with the observations the spec expects (static universe of the initial members)
    initial = [a for a in assets if entry[a] is not None and _dt(entry[a]) <= _dt(case['start'])]
    twin = _mk_static_signals(initial, lookbacks)
    entered = set()
    for i, ts in enumerate(tss):
        n_before = len(handler.calls)
        err = None
        try:
            coll.update(ts)
        except Exception as e:
            err = 'EXC:%s:%s' % (type(e).__name__, e)
        calls = handler.calls[n_before:]
        where = {'update': i, 'dt': dts[i]}
        acc.check('collection-one-observation-per-asset', err is None, case, dict(where, what='update-runs'),
                  err, None)
        acc.check('collection-one-observation-per-asset', _same(coll.warmup, i + 1), case,
                  dict(where, what='warmup'), coll.warmup, i + 1)
        wrong = [[str(d), a] for d, a in calls if d != ts]
        acc.check('collection-one-observation-per-asset', not wrong, case,
                  dict(where, what='prices-queried-at-dt-only'), wrong[:4], [])
        hist = {}
        for a in assets:
            hist[a] = spec_stream_of(entry[a], case['start'], dts[:i + 1], case['prices'][a][:i + 1])
            if hist[a]:
                for k, _ in KINDS:
                    twin[k].append(a, hist[a][-1])
        tracked = [a for a in assets if hist[a]]
        static_or_initial = [a for a in tracked if a in initial]
        _check_twin(acc, 'collection-one-observation-per-asset', case, sigs, twin, static_or_initial,
                    lookbacks, hist, dict(where, what='one-observation-each'))
        # the most recent observation is this update's mid price (1-period SMA), and it arrived once
        # (1-period momentum is this price over the previous update's price)
        for a in static_or_initial:
            o = _call(sigs['sma'], a, 1)
            acc.check('collection-one-observation-per-asset', _close(o, hist[a][-1]), case,
                      dict(where, what='latest-observation-is-mid-at-dt', asset=a), o, hist[a][-1])
            o = _call(sigs['mom'], a, 1)
            e = spec_momentum(hist[a], 1)
            acc.check('collection-one-observation-per-asset', _close(o, e), case,
                      dict(where, what='one-period-return-is-day-over-previous-day', asset=a), o, e)
        if dynamic:
            for a in assets:
                if a in initial:
                    continue
                if not hist[a]:
                    # not entered yet: never asked for a price, not tracked, no window with observations
                    asked = [str(d) for d, x in handler.calls if x == a]
                    acc.check('dynamic-entry-starts-empty', not asked, case,
                              dict(where, what='no-observation-before-entry', asset=a), asked[:3], [])
                    for k, _ in KINDS:
                        held = [kk for kk, d in sigs[k].buffers.prices.items()
                                if kk.rsplit('_', 1)[0] == a and len(d)]
                        acc.check('dynamic-entry-starts-empty', not held and a not in sigs[k].assets, case,
                                  dict(where, what='no-window-content-before-entry', asset=a, kind=k),
                                  {'windows': held, 'tracked': a in sigs[k].assets}, {'windows': [], 'tracked': False})
                elif a not in entered:
                    entered.add(a)
                    # first update on/after entry: exactly one observation -> no return, SMA == that price
                    p = hist[a][0]
                    for N in lookbacks:
                        w2 = dict(where, what='one-observation-at-entry', asset=a, lookback=N)
                        o = _call(sigs['mom'], a, N)
                        acc.check('dynamic-entry-starts-empty', len(hist[a]) == 1 and not isinstance(o, str)
                                  and _same(o, 0.0), case, dict(w2, kind='mom'), o, 0.0)
                        o = _call(sigs['vol'], a, N)
                        acc.check('dynamic-entry-starts-empty', not isinstance(o, str) and _same(o, 0.0), case,
                                  dict(w2, kind='vol'), o, 0.0)
                        o = _call(sigs['sma'], a, N)
                        acc.check('dynamic-entry-starts-empty', _close(o, p), case, dict(w2, kind='sma'), o, p)
            late = [a for a in tracked if a not in initial]
            if late:
                _check_twin(acc, 'dynamic-entry-starts-empty', case,
                            {k: _Only(sigs[k], late) for k, _ in KINDS}, {k: _Only(twin[k], late) for k, _ in KINDS},
                            late, lookbacks, hist, dict(where, what='stream-since-entry'))


class _Only(object):
    """View of a signal restricted to some assets (windows of the other assets are hidden)."""
    def __init__(self, sig, assets):
        self._sig = sig
        self._assets = set(assets)
        self.buffers = self

    @property
    def prices(self):
        return {k: d for k, d in self._sig.buffers.prices.items() if k.rsplit('_', 1)[0] in self._assets}

    def __call__(self, asset, lookback):
        return self._sig(asset, lookback)


_RUNNERS = {'stream': _run_stream, 'reject': _run_reject, 'keys': _run_keys, 'collection': _run_collection}


def _run_case(case, acc):
    with warnings.catch_warnings():
        warnings.simplefilter('ignore')
        with np.errstate(all='ignore'):
            try:
                _RUNNERS[case['type']](case, acc)
            except Exception as e:  # the library broke in an unexpected place: report, do not raise
                clause = {'stream': 'momentum-definition', 'reject': 'non-positive-price-rejected',
                          'keys': 'keys-do-not-collide',
                          'collection': 'collection-one-observation-per-asset'}[case['type']]
                acc.check(clause, False, case, {'what': 'unexpected-exception'},
                          'EXC:%s:%s' % (type(e).__name__, e), 'no exception')


def _nontrivial(case):
    t = case['type']
    if t == 'keys':
        return True
    if t in ('stream', 'reject'):
        cnt = {}
        for ai, _ in case['appends']:
            cnt[ai] = cnt.get(ai, 0) + 1
        return any(v >= 2 for v in cnt.values())
    if t == 'collection':
        for a in case['assets']:
            e = case['entry'][a] if case['universe'] == 'dynamic' else case['start']
            if len(spec_stream_of(e, case['start'], case['dts'], case['prices'][a])) >= 2:
                return True
        return False
    return False


def _key(case):
    return hashlib.sha1(json.dumps(case, sort_keys=True).encode()).hexdigest()


# --------------------------------------------------------------------------------------------------
# Case generators
# --------------------------------------------------------------------------------------------------
def _small_stream_case(word, name, indep=True):
    c = {'type': 'stream', 'assets': [name], 'lookbacks': list(LOOKBACKS),
         'appends': [[0, p] for p in word], 'checkpoints': 'final'}
    if not indep:
        c['indep'] = False  # skip the (slow) single-lookback twin comparison for this case
    return c


def _all_small_words():
    for n in range(0, MAX_SMALL_LEN + 1):
        for w in itertools.product(ALPHABET, repeat=n):
            yield w


def _pick_lookbacks(rng, kmin=1, kmax=4):
    k = rng.randint(kmin, kmax)
    lbs = rng.sample(LOOKBACKS, k)
    if rng.random() < 0.5:
        lbs.sort()
    return lbs


def _pick_assets(rng, kmin=1, kmax=3):
    return rng.sample(NAMES, rng.randint(kmin, kmax))


def _gen_multi_small(rng):
    assets = _pick_assets(rng, 2, 3)
    if rng.random() < 0.3:
        assets = rng.choice((['A_1', 'A'], ['A', 'A_1', 'A_1_2'], ['EQ:A_1', 'EQ:A'], ['X', 'X_1'], ['1', '1_2']))
    lbs = _pick_lookbacks(rng, 2, 3)
    appends = []
    for ai in range(len(assets)):
        if ai == len(assets) - 1 and rng.random() < 0.2:
            continue  # an asset of the universe that never receives a price
        for _ in range(rng.randint(0, MAX_SMALL_LEN)):
            appends.append([ai, rng.choice(ALPHABET)])
    rng.shuffle(appends)
    cps = sorted(rng.sample(range(len(appends) + 1), min(3, len(appends) + 1)))
    return {'type': 'stream', 'assets': assets, 'lookbacks': lbs, 'appends': appends, 'checkpoints': cps}


def _gen_random_stream(rng):
    assets = _pick_assets(rng, 1, 3)
    lbs = _pick_lookbacks(rng, 1, 4)
    total = rng.choice((rng.randint(2, 30), rng.randint(20, 120), rng.randint(100, 300)))
    sigma = rng.choice((0.001, 0.02, 0.02, 0.3))
    last = {}
    appends = []
    for _ in range(total):
        ai = rng.randrange(len(assets))
        p = last.get(ai, rng.choice((0.37, 1.0, 100.0, 2513.25)))
        p = p * math.exp(rng.gauss(0.0, sigma))
        last[ai] = p
        appends.append([ai, p])
    n = len(appends)
    cps = set(rng.sample(range(n + 1), min(4, n + 1)))
    # hit the warm-up boundary of one lookback
    N = rng.choice(lbs)
    for c in (N, N + 1, N + 2):
        if c <= n and rng.random() < 0.5:
            cps.add(c)
    return {'type': 'stream', 'assets': assets, 'lookbacks': lbs, 'appends': appends, 'checkpoints': sorted(cps)}


def _wide_range_cases():
    """positive streams whose scale changes by many orders of magnitude: the definitions are over the trailing WINDOW only, so a
    price that has left the window has left the value (fixed cases, both tiers)"""
    falling = [4e5 * (0.1 ** (i / 2.0)) for i in range(23)]
    # (one-way changes of scale only: a stream that jumps 12 orders up and back within one window makes the library's product of
    # one-period returns lose 11 digits - observed -2.2e-5 for 1.0/1.0 - 1 over [1, 1e12, 1] -, which is float cancellation on an
    # input no equity series resembles, not a wrong definition; such streams are left out rather than judged at a looser tolerance)
    streams = ([1e16, 1.2e16, 1.5e16, 1.0, 1.0, 1.0, 1.0, 1.0, 1.0], falling, list(reversed(falling)))
    out = []
    for i, st in enumerate(streams):
        appends = []
        for p in st:
            appends.append([0, p])
            appends.append([1, p * 3.0])            # a second asset interleaved
        out.append({'type': 'stream', 'assets': ['EQ:A', 'A_1'], 'lookbacks': [3, 1, 5, 2] if i % 2 == 0 else [2, 3, 8],
                    'appends': appends, 'checkpoints': list(range(0, len(appends) + 1))})
    return out


def _gen_reject(rng):
    assets = _pick_assets(rng, 1, 2)
    lbs = _pick_lookbacks(rng, 1, 3)
    appends = [[rng.randrange(len(assets)), rng.choice(ALPHABET)] for _ in range(rng.randint(0, 9))]
    bad = []
    for _ in range(rng.randint(1, 3)):
        pos = rng.randint(0, len(appends))
        name = rng.choice(assets) if rng.random() < 0.8 else 'ZZ_9'
        bad.append([pos, name, rng.choice(BAD_PRICES)])
    bad.sort(key=lambda b: b[0])
    return {'type': 'reject', 'assets': assets, 'lookbacks': lbs, 'appends': appends, 'bad': bad}


_STARTS = ('2015-12-21', '2020-12-28', '2024-02-26', '2019-03-01', '2021-01-04')


def _bdays(start_date, n, hhmm):
    import datetime
    d = datetime.date.fromisoformat(start_date)
    out = []
    while len(out) < n:
        if d.weekday() < 5:
            out.append('%sT%s:00+00:00' % (d.isoformat(), hhmm))
        d += datetime.timedelta(days=1)
    return out


def _gen_collection(rng, dynamic):
    import datetime
    assets = _pick_assets(rng, 1, 3)
    lbs = sorted(set([1] + _pick_lookbacks(rng, 1, 2)))
    if rng.random() < 0.5:
        lbs.reverse()
    n = rng.randint(1, 10)
    sd = rng.choice(_STARTS)
    hhmm = rng.choice(('21:00', '21:00', '00:00'))
    dts = _bdays(sd, n, hhmm)
    start = '%sT%s:00+00:00' % (sd, rng.choice(('00:00', '14:30')) if hhmm == '21:00' else '00:00')
    prices = {}
    for a in assets:
        if rng.random() < 0.5:
            prices[a] = [rng.choice(ALPHABET) for _ in range(n)]
        else:
            p = rng.choice((0.5, 20.0, 431.0))
            seq = []
            for _ in range(n):
                p *= math.exp(rng.gauss(0, 0.05))
                seq.append(p)
            prices[a] = seq
    case = {'type': 'collection', 'universe': 'dynamic' if dynamic else 'static', 'assets': assets,
            'lookbacks': lbs, 'start': start, 'dts': dts, 'prices': prices}
    if dynamic:
        entry = {}
        for j, a in enumerate(assets):
            mode = rng.choice(('before', 'at-start', 'at-update', 'between', 'after-update-same-day',
                               'never-late', 'none', 'at-update', 'between'))
            if j == 0 and len(assets) > 1 and rng.random() < 0.5:
                mode = 'before'
            i = rng.randrange(n)
            base = _dt(dts[i])
            if mode == 'before':
                e = (_dt(start) - datetime.timedelta(days=rng.randint(1, 400))).isoformat()
            elif mode == 'at-start':
                e = start
            elif mode == 'at-update':
                e = dts[i]
            elif mode == 'between':
                e = (base - datetime.timedelta(hours=rng.choice((1, 5, 30, 50)))).isoformat()
            elif mode == 'after-update-same-day':
                e = (base + datetime.timedelta(minutes=rng.choice((1, 60, 179)))).isoformat()
            elif mode == 'never-late':
                e = (_dt(dts[-1]) + datetime.timedelta(days=rng.randint(1, 30))).isoformat()
            else:
                e = None
            entry[a] = e
        case['entry'] = entry
    return case


def _quick_cases(seed):
    rng = random.Random('c16-quick-%s' % seed)
    words = list(_all_small_words())
    groups = [
        [{'type': 'keys', 'names': len(key_names()), 'lookbacks': list(KEY_LOOKBACKS)}],
        [_small_stream_case(list(w), NAMES[i % len(NAMES)], indep=(i % 4 == 0))
         for i, w in enumerate(rng.sample(words, 400))],
        [_gen_multi_small(rng) for _ in range(50)],
        [_gen_random_stream(rng) for _ in range(40)],
        _wide_range_cases(),
        [_gen_reject(rng) for _ in range(40)],
        [_gen_collection(rng, False) for _ in range(25)],
        [_gen_collection(rng, True) for _ in range(40)],
    ]
    # interleave the groups proportionally so that a budget cut still exercises every clause
    out = []
    total = sum(len(g) for g in groups)
    pos = [0] * len(groups)
    for step in range(total):
        best = None
        for gi, g in enumerate(groups):
            if pos[gi] < len(g):
                frac = pos[gi] / float(len(g))
                if best is None or frac < best[0]:
                    best = (frac, gi)
        gi = best[1]
        out.append(groups[gi][pos[gi]])
        pos[gi] += 1
    return out


def _thorough_chunks(seed):
    """Deterministic list of chunks (lists of cases), independent of `jobs`."""
    chunks = [[{'type': 'keys', 'names': len(key_names()), 'lookbacks': list(KEY_LOOKBACKS)}], _wide_range_cases()]
    cur = []
    for i, w in enumerate(_all_small_words()):
        cur.append(_small_stream_case(list(w), NAMES[i % len(NAMES)]))
        if len(cur) == 400:
            chunks.append(cur)
            cur = []
    if cur:
        chunks.append(cur)
    plan = (('multi', 4000, 100, _gen_multi_small), ('random', 3000, 60, _gen_random_stream),
            ('reject', 1000, 250, _gen_reject),
            ('static', 1500, 50, lambda r: _gen_collection(r, False)),
            ('dynamic', 2500, 50, lambda r: _gen_collection(r, True)))
    for name, total, per, gen in plan:
        for c in range(total // per):
            rng = random.Random('c16-thorough-%s-%s-%d' % (seed, name, c))
            chunks.append([gen(rng) for _ in range(per)])
    return chunks


def _run_chunk(cases):
    acc = _Acc()
    keys = []
    for case in cases:
        _run_case(case, acc)
        keys.append((_key(case), _nontrivial(case)))
    return acc, keys


# --------------------------------------------------------------------------------------------------
# Public interface
# --------------------------------------------------------------------------------------------------
def run(tier="quick", seed=0, budget_s=20.0, jobs=1):
    t0 = time.time()
    acc = _Acc()
    seen = {}
    evaluations = 0
    samples = []
    complete = True
    if tier == 'quick':
        cases = _quick_cases(seed)
        for case in cases:
            if time.time() - t0 > budget_s * 0.92:
                complete = False
                break
            _run_case(case, acc)
            evaluations += 1
            seen[_key(case)] = _nontrivial(case)
        sample_pool = cases[:evaluations]
        exhaustive = False
    else:
        chunks = _thorough_chunks(seed)
        if jobs and jobs > 1:
            import multiprocessing
            ctx = multiprocessing.get_context('fork')
            with ctx.Pool(int(jobs)) as pool:
                results = pool.map(_run_chunk, chunks, chunksize=1)
        else:
            results = [_run_chunk(c) for c in chunks]
        for part, keys in results:
            acc.merge(part)
            evaluations += len(keys)
            for k, nt in keys:
                seen[k] = nt
        sample_pool = [c for ch in chunks for c in ch[:1]]
        exhaustive = True  # the 21845-stream sub-space is complete; the random part is sampled (see BOUND)
    by_type = {}
    for c in sample_pool:
        t = c['type'] + ':' + c.get('universe', '')
        if t not in by_type and (c['type'] == 'keys' or _nontrivial(c)):
            by_type[t] = c
    for c in by_type.values():
        s = dict(c)
        if len(s.get('appends', ())) > 12:
            s['appends'] = s['appends'][:12] + ['... %d more' % (len(c['appends']) - 12)]
        samples.append(_js(s))
    samples = samples[:6]
    acc.failures.sort(key=lambda f: f['_size'])
    failures = [{k: v for k, v in f.items() if k != '_size'} for f in acc.failures[:25]]
    return {
        'property': PROPERTY,
        'tier': tier,
        'seed': seed,
        'evaluations': evaluations,
        'distinct_nontrivial': sum(1 for v in seen.values() if v),
        'rule': RULE,
        'samples': samples,
        'exhaustive': bool(exhaustive and complete),
        'clauses': {k: {'checked': v[0], 'failed': v[1]} for k, v in acc.clauses.items()},
        'n_failures': acc.n_failures,
        'failures': failures,
        'elapsed_s': round(time.time() - t0, 2),
    }


def replay(case):
    """Re-run one failure's case on the real code; reproduced iff the same clause fails at the same place."""
    case = dict(case)
    clause = case.pop('clause', None)
    where = case.pop('where', None)
    acc = _Acc()
    _run_case(case, acc)
    hit = None
    for f in acc.failures:
        if clause is None or f['clause'] == clause:
            if where is None or f['case'].get('where') == _js(where):
                hit = f
                break
    if hit is None:
        for f in acc.failures:
            if clause is None or f['clause'] == clause:
                hit = f
                break
    if hit is None:
        return {'reproduced': False, 'clause': clause, 'observed': None, 'expected': None}
    return {'reproduced': True, 'clause': hit['clause'], 'observed': hit['observed'], 'expected': hit['expected']}


if __name__ == '__main__':
    import sys
    _tier = sys.argv[1] if len(sys.argv) > 1 else 'quick'
    _jobs = int(sys.argv[2]) if len(sys.argv) > 2 else (16 if _tier == 'thorough' else 1)
    print(json.dumps(run(tier=_tier, seed=0, jobs=_jobs), indent=1, default=str))
