"""C08 (bounded): a fixed-weight backtest reproduces the documented trading rules exactly.

An independent plain-Python reference implementation of the documented rules (own CSV reader, own
business-day calendar, own schedules, own sizing / filling / marking arithmetic, written from the
statements of C08, C10, C11, C05, C04, C06, C12, C13 - not from the library's code) is run on the same
synthetic CSV directory as the REAL ``BacktestTradingSession`` and the two results are compared.
"""
import bisect
import csv
import datetime as dt
import json
import math
import os
import random
import sys
import tempfile

if __package__ in (None, ""):
    sys.path.insert(0, os.path.dirname(os.path.dirname(os.path.abspath(__file__))))
    __package__ = "bounded"

from . import _market as M  # noqa: E402

PROPERTY = "C08"
CLAUSES = ["fills-time-asset-quantity", "fills-price", "fills-commission", "final-cash", "final-holdings",
           "daily-equity", "equity-dates"]
N_QUICK = 96
N_THOROUGH = 12000
BOUND = (
    "Sampled, not exhaustive. Case i of a run is drawn from random.Random('c08:<seed>:<i>'): a synthetic market of "
    "1-4 assets (seeded random walk, 2-decimal prices, first close in 8-400 / 1-20 / 0.6-3, Adj Close != Close in 2 of 3 markets, rows missing "
    "with probability 0.05 in 1 of 4 markets), a static universe, a fixed weight vector (long-only: non-negative, "
    "unnormalised, zeros allowed; long/short: signed), schedule kind cycling through weekly MON..FRI / daily / "
    "end_of_month / buy_and_hold (start 14:30) and sizer cycling long-only / long-short with the case index, cash "
    "buffer in {0,.01,.05,.25,.5}, gross leverage in {.5,1,1.5,2,3}, zero fee or percentage fee with "
    "commission+tax <= 1.5%%, initial cash in {1e4,12345.67,1e5,1e6,2.5e7}, start on any calendar day 2018-2021 at 09:00, "
    "00:00 or 14:30, end 2-12 weeks later at 23:59. quick: the first %d cases (or fewer if budget_s is used up); "
    "thorough: the first %d cases. Money compared to 1e-6 relative, quantities / times / assets exactly. Cases in "
    "which the FIRST fill that differs is a quantity difference explained by a sizing step of the reference that "
    "sits within 1e-9 of a rounding boundary (exact multiples: round cash, round fee, 2-decimal price) are left "
    "out as ill-conditioned and counted in 'rule'." % (N_QUICK, N_THOROUGH))

OPEN_T = dt.time(14, 30)
CLOSE_T = dt.time(21, 0)


# ==================================================================================================
# The reference implementation (pure Python: csv, datetime, math, bisect)
# ==================================================================================================
def stamp(t):
    return t.strftime("%Y-%m-%d %H:%M:%S") + "+00:00"


def parse_instant(s):
    """'YYYY-MM-DD HH:MM' -> naive UTC datetime"""
    return dt.datetime(int(s[0:4]), int(s[5:7]), int(s[8:10]), int(s[11:13]), int(s[14:16]))


def weekdays_between(d0, d1):
    out, d = [], d0
    while d <= d1:
        if d.isoweekday() <= 5:
            out.append(d)
        d += dt.timedelta(days=1)
    return out


def clock(start, end):
    """Documented clock: for every Monday-Friday date of the range an open event at 14:30 and a close event
    at 21:00 (domain: start time of day <= 14:30, end time of day 23:59)."""
    events = []
    for d in weekdays_between(start.date(), end.date()):
        events.append((dt.datetime.combine(d, OPEN_T), "open"))
        events.append((dt.datetime.combine(d, CLOSE_T), "close"))
    return events


def schedule(kind, weekday, start, end):
    """Documented rebalance instants (C13)."""
    days = weekdays_between(start.date(), end.date())
    if kind == "daily":
        return [dt.datetime.combine(d, CLOSE_T) for d in days]
    if kind == "weekly":
        wd = ["MON", "TUE", "WED", "THU", "FRI"].index(weekday) + 1
        return [dt.datetime.combine(d, CLOSE_T) for d in days if d.isoweekday() == wd]
    if kind == "end_of_month":
        out = []
        for d in days:
            nxt = d + dt.timedelta(days=1)
            while nxt.isoweekday() > 5:
                nxt += dt.timedelta(days=1)
            if nxt.month != d.month:          # d is the last Monday-Friday date of its month
                out.append(dt.datetime.combine(d, CLOSE_T))
        return out
    if kind == "buy_and_hold":
        d = start
        while d.isoweekday() > 5:
            d += dt.timedelta(days=1)
        return [d]
    raise ValueError(kind)


def exchange_open(t):
    return t.isoweekday() <= 5 and OPEN_T <= t.time() < CLOSE_T


class Quotes(object):
    """Point-in-time prices read straight from the CSV files (C06): every bar gives an observation at
    14:30 (open, adjusted by AdjClose/Close) and one at 21:00 (adjusted close); a query returns the latest
    observation at or before the query time, NaN when there is none."""

    def __init__(self, csv_dir, symbols):
        self.times, self.values = {}, {}
        for sym in symbols:
            pts = []
            with open(os.path.join(csv_dir, "%s.csv" % sym), newline="") as fh:
                for row in csv.DictReader(fh):
                    day = dt.date(int(row["Date"][0:4]), int(row["Date"][5:7]), int(row["Date"][8:10]))
                    opn, cls, adj = float(row["Open"]), float(row["Close"]), float(row["Adj Close"])
                    pts.append((dt.datetime.combine(day, OPEN_T), (adj / cls) * opn))
                    pts.append((dt.datetime.combine(day, CLOSE_T), adj))
            pts.sort(key=lambda p: p[0])
            self.times["EQ:%s" % sym] = [p[0] for p in pts]
            self.values["EQ:%s" % sym] = [p[1] for p in pts]

    def at(self, asset, t):
        i = bisect.bisect_right(self.times[asset], t) - 1
        return self.values[asset][i] if i >= 0 else float("nan")


def _near_integer(x):
    return abs(x - round(x)) <= 1e-9 * max(1.0, abs(x))


def reference_backtest(csv_dir, cfg):
    """Apply the documented rules.  Returns fills [(time, asset, qty, price, commission)], final cash,
    holdings, equity [(time, value)], the rebalance instants and the sizing steps that sat on a rounding
    boundary [(rebalance time, asset, chosen quantity, alternative quantities)]."""
    symbols = list(cfg["symbols"])
    universe = ["EQ:%s" % s for s in symbols]
    weights = {"EQ:%s" % s: float(w) for s, w in cfg["alpha"]["weights"].items()}
    start, end = parse_instant(cfg["start"]), parse_instant(cfg["end"])
    rate = 0.0 if cfg.get("fee") is None else (cfg["fee"][0] + cfg["fee"][1])
    quotes = Quotes(csv_dir, symbols)
    instants = set(schedule(cfg["rebalance"], cfg.get("weekday"), start, end))

    state = {"cash": float(cfg.get("initial_cash", 1e6)), "boundary": [], "rebalances": []}
    held = {}
    fills, equity, pending = [], [], []

    def marked(t):
        return state["cash"] + sum(q * quotes.at(a, t) for a, q in held.items())

    def fill(t, asset, qty):
        price = quotes.at(asset, t)
        if price != price:
            raise ValueError("no quote for %s at %s" % (asset, t))
        consideration = round(price * qty)
        commission = rate * abs(consideration)
        state["cash"] -= price * qty + commission
        held[asset] = held.get(asset, 0) + qty
        if held[asset] == 0:
            del held[asset]
        fills.append((stamp(t), asset, qty, price, commission))

    def targets(t):
        eq = marked(t)
        assets = sorted(set(universe) | set(held) | set(weights))
        w = {a: weights.get(a, 0.0) for a in assets}
        out = {}
        if cfg["long_only"]:
            if any(x < 0.0 for x in w.values()):
                raise ValueError("negative weight")
            total = sum(w.values())
            budget = (1.0 - cfg["cash_buffer"]) * eq
            for a in assets:
                p = quotes.at(a, t)
                if p != p:
                    raise ValueError("no quote for %s at %s" % (a, t))
                alloc = budget * (w[a] / total) if total != 0.0 else 0.0
                x = (alloc - rate * abs(alloc)) / p
                out[a] = int(math.floor(x))
                if x != 0.0 and _near_integer(x):
                    state["boundary"].append((stamp(t), a, out[a], [int(round(x)) - 1, int(round(x))]))
        else:
            gross = sum(abs(x) for x in w.values())
            for a in assets:
                p = quotes.at(a, t)
                if p != p:
                    raise ValueError("no quote for %s at %s" % (a, t))
                alloc = eq * cfg["gross_leverage"] * w[a] / gross if gross != 0.0 else 0.0
                dollars = alloc - rate * abs(alloc)
                whole = math.trunc(dollars)
                x = whole / p
                out[a] = int(math.trunc(x))
                if dollars != 0.0 and _near_integer(dollars):
                    # a one-unit slip of the whole-currency amount: does it change the quantity?
                    alts = [int(math.trunc((whole + s) / p)) for s in (-1, 1)]
                    if any(q != out[a] for q in alts):
                        state["boundary"].append((stamp(t), a, out[a], alts))
                if x != 0.0 and _near_integer(x):
                    state["boundary"].append((stamp(t), a, out[a], [int(round(x)) + s for s in (-1, 0, 1)]))
        return assets, out

    for t, kind in clock(start, end):
        if kind == "open" and pending:
            batch = [o for o in pending if o[1] < 0] + [o for o in pending if o[1] > 0]
            del pending[:]
            for asset, qty in batch:
                fill(t, asset, qty)
        if t in instants:
            state["rebalances"].append(stamp(t))
            assets, target = targets(t)
            orders = [(a, target[a] - held.get(a, 0)) for a in assets if target[a] - held.get(a, 0) != 0]
            if exchange_open(t):
                for asset, qty in orders:      # each order is handed to an open exchange: filled at once
                    fill(t, asset, qty)
            else:
                pending.extend(orders)
        if kind == "close":
            equity.append((stamp(t), marked(t)))
    return {"fills": fills, "cash": state["cash"], "holdings": dict(held), "equity": equity,
            "boundary": state["boundary"], "rebalances": state["rebalances"]}


# ==================================================================================================
# Case generation
# ==================================================================================================
KINDS = [("weekly", "MON"), ("weekly", "TUE"), ("weekly", "WED"), ("weekly", "THU"), ("weekly", "FRI"),
         ("daily", None), ("end_of_month", None), ("buy_and_hold", None)]
SYMS = ["AAA", "BBB", "CCC", "DDD"]


def gen_case(seed, i):
    rng = random.Random("c08:%s:%s" % (seed, i))
    kind, weekday = KINDS[i % 8]
    long_only = (i // 8) % 2 == 0
    n = rng.choice([1, 2, 2, 3, 3, 4])
    symbols = SYMS[:n]
    start_day = dt.date(2018, 1, 1) + dt.timedelta(days=rng.randrange(0, 1400))
    weeks = rng.randint(2, 12)
    if kind == "end_of_month":
        weeks = max(weeks, 5)                 # at least one month end inside the range
    end_day = start_day + dt.timedelta(days=7 * weeks - 1 + rng.randrange(0, 3))
    start_tod = "14:30" if kind == "buy_and_hold" else rng.choice(["00:00", "00:00", "14:30", "09:00"])
    if long_only:
        weights = {s: rng.choice([0.0, 0.1, 0.25, 0.5, 1.0, 1.0, 2.5, round(rng.uniform(0.01, 3.0), 3)])
                   for s in symbols}
        if sum(weights.values()) == 0.0 and rng.random() < 0.8:
            weights[symbols[0]] = 1.0
    else:
        weights = {s: rng.choice([0.0, -1.0, 1.0, 0.5, -0.5, round(rng.uniform(-2.0, 2.0), 3)]) for s in symbols}
        if sum(abs(w) for w in weights.values()) == 0.0 and rng.random() < 0.8:
            weights[symbols[-1]] = -1.0
    fee = rng.choice([None, None, [0.001, 0.0], [0.0025, 0.005], [0.01, 0.005], [0.0, 0.001], [0.0005, 0.0005]])
    cfg = {
        "symbols": symbols,
        "start": "%s %s" % (start_day.isoformat(), start_tod),
        "end": "%s 23:59" % end_day.isoformat(),
        "burn_in": None,
        "rebalance": kind, "weekday": weekday,
        "long_only": long_only,
        "cash_buffer": rng.choice([0.0, 0.01, 0.05, 0.25, 0.5]),
        "gross_leverage": rng.choice([0.5, 1.0, 1.5, 2.0, 3.0]),
        "fee": fee,
        "initial_cash": rng.choice([1e4, 12345.67, 1e5, 1e6, 1e6, 2.5e7]),
        "universe": {"kind": "static"},
        "alpha": {"kind": "fixed", "weights": weights},
    }
    market = {
        "seed": rng.randrange(10 ** 9), "symbols": symbols,
        "first": M.add_bdays(start_day, -8).isoformat(), "last": (end_day + dt.timedelta(days=5)).isoformat(),
        "gap_prob": rng.choice([0.0, 0.0, 0.0, 0.05]), "adjust": rng.random() < 0.67,
        "sigma": rng.choice([0.01, 0.02, 0.04]), "price_range": rng.choice([[8.0, 400.0], [8.0, 400.0], [0.6, 3.0], [1.0, 20.0]]),
    }
    return {"market": market, "cfg": cfg}


# ==================================================================================================
# Comparison
# ==================================================================================================
def money_eq(a, b):
    return M.approx(a, b, rel=1e-6, abs_=1e-6)


def ill_conditioned(ref, got, exp):
    """True iff the FIRST difference between the real and the reference fill lists is a quantity difference
    for one (time, asset) that is explained by a sizing step of the latest rebalance which sat within 1e-9
    of a rounding boundary (floating-point noise decides such a step; the property is stated over reals).
    Everything after such a fill legitimately diverges, so the case is then left out."""
    k = next((j for j in range(max(len(got), len(exp))) if j >= len(got) or j >= len(exp) or got[j] != exp[j]), None)
    if k is None or not ref["boundary"]:
        return False
    g = got[k] if k < len(got) else None
    e = exp[k] if k < len(exp) else None
    if g is not None and e is not None and g[:2] == e[:2]:
        t, asset, dq = g[0], g[1], g[2] - e[2]
    elif g is not None and g[:2] not in [x[:2] for x in exp]:
        t, asset, dq = g[0], g[1], g[2]                 # an order the reference sized to zero
    elif e is not None and e[:2] not in [x[:2] for x in got]:
        t, asset, dq = e[0], e[1], -e[2]                # an order the library sized to zero
    else:
        return False
    earlier = [r for r in ref["rebalances"] if r <= t]
    if not earlier:
        return False
    return any(bt == earlier[-1] and ba == asset and dq in [alt - q for alt in alts]
               for (bt, ba, q, alts) in ref["boundary"])


def compare(case, obs, ref):
    """Returns (ill_conditioned, [(clause, ok, observed, expected), ...])."""
    res = []
    if obs["error"] is not None:
        res = [(c, False, obs["error"], "run completes") for c in CLAUSES]
        return False, res
    hist = []
    for (t, desc, debit, credit, balance) in obs["fills"]:
        asset, qty, p2 = M.parse_fill_description(desc)
        hist.append((t, asset, qty, p2, debit, credit))
    got_taq = [(h[0], h[1], h[2]) for h in hist]
    tap_taq = [(x[0], x[1], x[2]) for x in obs["txns"]]
    exp_taq = [(f[0], f[1], f[2]) for f in ref["fills"]]
    ok_taq = got_taq == exp_taq and tap_taq == exp_taq
    first = next((k for k in range(max(len(got_taq), len(exp_taq)))
                  if k >= len(got_taq) or k >= len(exp_taq) or got_taq[k] != exp_taq[k]), None)
    res.append(("fills-time-asset-quantity", ok_taq,
                {"n": len(got_taq), "first_diff": None if first is None or first >= len(got_taq) else got_taq[first]},
                {"n": len(exp_taq), "first_diff": None if first is None or first >= len(exp_taq) else exp_taq[first]}))
    ok_h = obs["holdings"] == ref["holdings"]
    ill = (not ok_taq) and got_taq == tap_taq and ill_conditioned(ref, got_taq, exp_taq)
    bad_p = bad_c = None
    for k in range(min(len(hist), len(ref["fills"]), len(obs["txns"]))):
        f, h, x = ref["fills"][k], hist[k], obs["txns"][k]
        if (h[0], h[1], h[2]) != (f[0], f[1], f[2]) or (x[0], x[1], x[2]) != (f[0], f[1], f[2]):
            continue
        if bad_p is None and not (money_eq(x[3], f[3]) and abs(h[3] - f[3]) <= 0.005 + 1e-9):
            bad_p = (k, {"fill": f[:3], "price": x[3], "history_price": h[3]}, {"price": f[3]})
        total = f[3] * f[2] + f[4]
        if bad_c is None and not (money_eq(x[4], f[4]) and abs((h[4] - h[5]) - total) <= 0.005 + 1e-6 * abs(total)):
            bad_c = (k, {"fill": f[:3], "commission": x[4], "history_debit_minus_credit": h[4] - h[5]},
                     {"commission": f[4], "debit_minus_credit": total})
    res.append(("fills-price", bad_p is None, bad_p and bad_p[1], bad_p and bad_p[2]))
    res.append(("fills-commission", bad_c is None, bad_c and bad_c[1], bad_c and bad_c[2]))
    res.append(("final-cash", money_eq(obs["cash"], ref["cash"]), obs["cash"], ref["cash"]))
    res.append(("final-holdings", ok_h, obs["holdings"], ref["holdings"]))
    got_d, exp_d = [e[0] for e in obs["equity"]], [e[0] for e in ref["equity"]]
    bad_e = next(((g, e) for g, e in zip(obs["equity"], ref["equity"]) if g[0] == e[0] and not money_eq(g[1], e[1])),
                 None)
    res.append(("daily-equity", bad_e is None, bad_e and bad_e[0], bad_e and bad_e[1]))
    res.append(("equity-dates", got_d == exp_d, {"n": len(got_d), "first": got_d[:1], "last": got_d[-1:]},
                {"n": len(exp_d), "first": exp_d[:1], "last": exp_d[-1:]}))
    return ill, res


def check_case(case):
    """Runs the real session and the reference on one case.  Returns a JSON-able record."""
    market = M.gen_market(case["market"])
    with tempfile.TemporaryDirectory(prefix="c08_") as d:
        M.write_market(d, market)
        obs = M.run_session(d, case["cfg"])
        ref = reference_backtest(d, case["cfg"])
    ill, res = compare(case, obs, ref)
    return {"case": case, "ill": ill, "results": [(c, ok, o, e) for c, ok, o, e in res],
            "n_fills": len(ref["fills"]), "n_equity": len(ref["equity"]), "boundary": len(ref["boundary"]),
            "ill_detail": ([b for b in ref["boundary"]][:4] if ill else None)}


def _worker(args):
    case = gen_case(*args)
    try:
        return check_case(case)
    except Exception as exc:  # noqa: BLE001  (never raise out of run(): report it against every clause)
        why = "check could not be evaluated: %s: %s" % (type(exc).__name__, exc)
        return {"case": case, "ill": False, "results": [(c, False, why, None) for c in CLAUSES],
                "n_fills": 0, "n_equity": 0, "boundary": 0}


def run(tier="quick", seed=0, budget_s=60.0, jobs=1):
    budget = M.Budget(budget_s)
    n = N_QUICK if tier == "quick" else N_THOROUGH
    tally = M.Tally(CLAUSES)
    seen, nontrivial, evaluations, skipped_ill, samples = set(), 0, 0, 0, []
    done_all = True

    def absorb(rec):
        nonlocal nontrivial, evaluations, skipped_ill
        evaluations += 1
        key = json.dumps(rec["case"], sort_keys=True)
        if rec["ill"]:
            skipped_ill += 1
            return
        for clause, ok, o, e in rec["results"]:
            tally.check(clause, ok, rec["case"], o, e, size=M.case_size(rec["case"]))
        if key not in seen and rec["n_fills"] > 0:
            nontrivial += 1
        seen.add(key)
        if len(samples) < 4 and rec["n_fills"] > 0:
            samples.append({"case": rec["case"], "n_fills": rec["n_fills"], "n_equity_points": rec["n_equity"]})

    for rec in M.pool_iter(_worker, [(seed, i) for i in range(n)], 1 if tier == "quick" else jobs):
        absorb(rec)
        if budget.left() < 1.0 and evaluations < n:
            done_all = False
            break
    return {
        "evaluations": evaluations,
        "distinct_nontrivial": nontrivial,
        "rule": ("case i = gen_case(seed, i) (see BOUND); one evaluation = one real session + one reference run on the "
                 "same CSV directory; distinct = distinct (market spec, configuration) JSON; non-trivial = the "
                 "reference produced at least one fill. %d case(s) left out as ill-conditioned (first differing fill is "
                 "a sizing step within 1e-9 of a rounding boundary, see BOUND). %s"
                 % (skipped_ill, "all %d cases of the tier ran" % n if done_all else "stopped early on budget_s")),
        "samples": samples,
        "exhaustive": False,
        "clauses": tally.clauses,
        "n_failures": tally.n_failures,
        "failures": tally.kept_failures(),
    }


def replay(case):
    clause = case.get("clause") if "cfg" not in case else None     # a whole failure record is accepted too
    inner = case.get("case", case)
    rec = check_case({"market": inner["market"], "cfg": inner["cfg"]})
    bad = [(c, o, e) for c, ok, o, e in rec["results"] if not ok and (clause is None or c == clause)]
    if rec["ill"] or not bad:
        return {"reproduced": False, "clause": clause or "", "observed": None, "expected": None}
    c, o, e = bad[0]
    return {"reproduced": True, "clause": c, "observed": o, "expected": e}


if __name__ == "__main__":
    tier = sys.argv[1] if len(sys.argv) > 1 else "quick"
    out = run(tier=tier, seed=int(sys.argv[2]) if len(sys.argv) > 2 else 0,
              budget_s=25.0 if tier == "quick" else 900.0, jobs=1 if tier == "quick" else 16)
    print(json.dumps(out, indent=1, default=str))
