"""C14 (bounded): a session trades only at scheduled rebalances after burn-in; equity is daily.

REAL ``BacktestTradingSession`` runs over synthetic markets; everything observed (allocation-row dates,
fill times, equity curve, ``get_target_allocations()``) is compared with a pure-Python oracle: the
documented calendar and schedules (shared with the C08 reference: datetime arithmetic only), a
recomputation of cash + sum(quantity x close) from the fills and the CSV files, and a plain forward fill.
"""
import datetime as dt
import json
import os
import random
import sys
import tempfile

if __package__ in (None, ""):
    sys.path.insert(0, os.path.dirname(os.path.dirname(os.path.abspath(__file__))))
    __package__ = "bounded"

from . import _market as M  # noqa: E402
from .c08_reference import (CLOSE_T, OPEN_T, Quotes, clock, parse_instant, schedule, stamp,  # noqa: E402
                            weekdays_between)

PROPERTY = "C14"
CLAUSES = ["rebalances-exactly-scheduled-after-burn-in", "no-fill-before-first-rebalance",
           "fills-only-at-market-open", "equity-one-point-per-business-day",
           "equity-equals-marked-account-equity", "allocation-table-ffill",
           "later-session-in-the-same-process-unaffected"]
N_QUICK = 96
N_THOROUGH = 9600
BOUND = (
    "Sampled, not exhaustive. Case i = gen_case(seed, i) from random.Random('c14:<seed>:<i>'): 2-3 assets, synthetic "
    "random-walk market; start on any calendar day 2018-2021 at 00:00 / 09:00 / 14:30, end 3-10 weeks later at 23:59; "
    "schedule kind cycling weekly MON..FRI / daily / end_of_month / buy_and_hold (14:30 start) with i mod 8; burn-in "
    "mode cycling with (i div 8) mod 6 through absent / before the first instant / exactly on the k-th scheduled "
    "instant / between two instants (one minute after an instant, or a later day 10:00) / on a 21:00 close that is "
    "not necessarily scheduled / on a 14:30 open; alpha model fixed weights on a static universe (2 of 4), fixed "
    "weights or top-N momentum on a dynamic universe whose last asset enters mid-range, or fixed weights on a universe whose last "
    "asset LEAVES mid-range (2 of 4); long-only "
    "(buffer .0-.25) or long/short (leverage 1-2), zero or percentage fees. quick: first %d cases (or fewer if "
    "budget_s runs out); thorough: first %d cases. Equity recomputation compared to 1e-9 relative, everything "
    "else exactly. Runs with no executed rebalance are outside the allocation-table clause (as stated in the "
    "property) and are not counted as non-trivial. Every case with a burn-in is followed, in the same process, by the same "
    "session without the burn-in, whose construction instants are compared with the schedule again (state leaking from "
    "one session into the next)." % (N_QUICK, N_THOROUGH))

KINDS = [("weekly", "MON"), ("weekly", "TUE"), ("weekly", "WED"), ("weekly", "THU"), ("weekly", "FRI"),
         ("daily", None), ("end_of_month", None), ("buy_and_hold", None)]
BURN_MODES = ["absent", "before", "on", "between", "close", "open"]
SYMS = ["AAA", "BBB", "CCC"]


def _hm(t):
    return t.strftime("%Y-%m-%d %H:%M")


def gen_case(seed, i):
    rng = random.Random("c14:%s:%s" % (seed, i))
    kind, weekday = KINDS[i % 8]
    mode = BURN_MODES[(i // 8) % 6]
    n = rng.choice([2, 3, 3])
    symbols = SYMS[:n]
    start_day = dt.date(2018, 1, 1) + dt.timedelta(days=rng.randrange(0, 1400))
    weeks = rng.randint(3, 10)
    if kind == "end_of_month":
        weeks = max(weeks, 6)
    end_day = start_day + dt.timedelta(days=7 * weeks - 1 + rng.randrange(0, 3))
    tod = "14:30" if kind == "buy_and_hold" else rng.choice(["00:00", "09:00", "14:30"])
    start, end = parse_instant("%s %s" % (start_day, tod)), parse_instant("%s 23:59" % end_day)
    instants = schedule(kind, weekday, start, end)
    days = weekdays_between(start_day, end_day)
    burn = None
    if mode == "before":
        burn = rng.choice([start - dt.timedelta(days=3), start, dt.datetime.combine(days[0], dt.time(0, 0))])
        if instants and burn > instants[0]:
            burn = start
    elif mode == "on" and instants:
        burn = instants[rng.randrange(0, max(1, len(instants) // 2 + 1))]
    elif mode == "between" and instants:
        k = rng.randrange(0, max(1, len(instants) // 2 + 1))
        burn = rng.choice([instants[k] + dt.timedelta(minutes=1), instants[k] + dt.timedelta(hours=13),
                           dt.datetime.combine(instants[k].date() + dt.timedelta(days=1), dt.time(10, 0))])
    elif mode == "close":
        burn = dt.datetime.combine(days[rng.randrange(0, max(1, len(days) // 2))], CLOSE_T)
    elif mode == "open":
        burn = dt.datetime.combine(days[rng.randrange(0, max(1, len(days) // 2))], OPEN_T)
    long_only = rng.random() < 0.6
    akind = rng.choice(["fixed", "fixed", "universe_fixed", "momentum"])
    universe = {"kind": "static"}
    if akind != "fixed":
        entry = days[rng.randrange(1, max(2, len(days) - 1))]
        universe = {"kind": "dynamic",
                    "dates": {symbols[-1]: "%s %s" % (entry, rng.choice(["00:00", "14:30", "21:00"]))}}
    if akind == "universe_fixed" and rng.random() < 0.5:
        # the last asset LEAVES the universe mid-range: later weight vectors have fewer keys than earlier ones
        leave = days[rng.randrange(max(1, len(days) // 3), max(2, len(days) - 1))]
        universe = {"kind": "window", "exits": {symbols[-1]: "%s %s" % (leave, rng.choice(["00:00", "21:00"]))}}
    if akind in ("fixed", "universe_fixed"):
        ws = {s: (rng.choice([0.2, 0.5, 1.0, 2.0]) if long_only else rng.choice([-1.0, -0.5, 0.5, 1.0]))
              for s in symbols}
        alpha = {"kind": akind, "weights": ws}
    else:
        alpha = {"kind": "momentum", "lookback": rng.choice([2, 3, 5]), "top_n": rng.choice([1, 2])}
    cfg = {
        "symbols": symbols, "start": _hm(start), "end": _hm(end), "burn_in": _hm(burn) if burn else None,
        "rebalance": kind, "weekday": weekday, "long_only": long_only,
        "cash_buffer": rng.choice([0.0, 0.05, 0.25]), "gross_leverage": rng.choice([1.0, 1.5, 2.0]),
        "fee": rng.choice([None, None, [0.001, 0.0005], [0.005, 0.0]]),
        "initial_cash": rng.choice([1e5, 1e6]), "universe": universe, "alpha": alpha,
    }
    market = {"seed": rng.randrange(10 ** 9), "symbols": symbols,
              "first": M.add_bdays(start_day, -8).isoformat(), "last": (end_day + dt.timedelta(days=5)).isoformat(),
              "gap_prob": 0.0, "adjust": rng.random() < 0.5, "sigma": 0.02}
    return {"market": market, "cfg": cfg}


# --------------------------------------------------------------------------------------------------
# oracle
# --------------------------------------------------------------------------------------------------
def oracle(cfg):
    start, end = parse_instant(cfg["start"]), parse_instant(cfg["end"])
    burn = parse_instant(cfg["burn_in"]) if cfg.get("burn_in") else None
    events = clock(start, end)
    event_times = set(t for t, _ in events)
    rebalances = [t for t in schedule(cfg["rebalance"], cfg.get("weekday"), start, end)
                  if t in event_times and (burn is None or t >= burn)]
    closes = [t for t, k in events if k == "close" and (burn is None or t >= burn)]
    opens = set(t for t, k in events if k == "open")
    return {"rebalances": rebalances, "closes": closes, "opens": opens, "burn": burn}


def ffill_table(alloc_rows, equity_days, burn):
    """alloc_rows [(day, {asset: weight})] ascending; one row per equity day (>= burn-in day) holding the
    weights of the latest rebalance dated on or before that day, NaN where there is none / no such key."""
    columns = []
    for _, w in alloc_rows:
        for k in w:
            if k not in columns:
                columns.append(k)
    table = []
    for d in equity_days:
        if burn is not None and d < burn.date():
            continue
        latest = None
        for day, w in alloc_rows:
            if day <= d:
                latest = w
        table.append((d.isoformat(), {c: (latest[c] if latest is not None and c in latest else float("nan"))
                                      for c in columns}))
    return columns, table


def _same_float(a, b):
    return (a != a and b != b) or a == b


def check_case(case):
    cfg = case["cfg"]
    market = M.gen_market(case["market"])
    with tempfile.TemporaryDirectory(prefix="c14_") as d:
        M.write_market(d, market)
        obs = M.run_session(d, cfg)
        quotes = Quotes(d, cfg["symbols"])
        obs2 = None
        if cfg.get("burn_in"):
            # a session is a function of its configuration: the SAME range and schedule run again in this process without the
            # burn-in (state kept at module / class level by an earlier session must not leak into a later one)
            cfg2 = dict(cfg)
            cfg2.pop("burn_in")
            obs2 = M.run_session(d, cfg2)
    exp = oracle(cfg)
    res = []
    if obs["error"] is not None:
        return {"case": case, "results": [(c, False, obs["error"], "run completes") for c in CLAUSES],
                "n_rebalances": 0, "n_fills": 0}

    # 1. portfolio construction ran exactly at the scheduled instants >= burn-in
    want = [stamp(t) for t in exp["rebalances"]]
    got_rows = [r[0] for r in obs["alloc_rows"]]
    res.append(("rebalances-exactly-scheduled-after-burn-in", got_rows == want and obs["qts_calls"] == want,
                {"allocation_row_dates": got_rows, "trading_system_calls": obs["qts_calls"]}, want))

    # 2. no fill before the first such instant
    fill_times = [f[0] for f in obs["fills"]]
    if want:
        early = [t for t in fill_times if t < want[0]]
    else:
        early = list(fill_times)
    res.append(("no-fill-before-first-rebalance", not early, early[:3],
                "no fill earlier than %s" % (want[0] if want else "ever (no rebalance executed)")))

    # 3. fills only at market-open events of the simulation
    open_stamps = set(stamp(t) for t in exp["opens"])
    off = [t for t in fill_times if t not in open_stamps]
    res.append(("fills-only-at-market-open", not off, off[:3], "every fill time is a Mon-Fri 14:30 event in range"))

    # 4. one equity point per business day whose close lies in [max(start, burn-in), end]
    want_eq = [stamp(t) for t in exp["closes"]]
    got_eq = [e[0] for e in obs["equity"]]
    if exp["closes"]:
        idx_ok = ("error" not in obs["equity_df"]
                  and obs["equity_df"]["index"] == [t.date().isoformat() for t in exp["closes"]])
    else:
        idx_ok = True       # burn-in after the last close: no point at all; the (empty) table is not looked at
    res.append(("equity-one-point-per-business-day", got_eq == want_eq and idx_ok,
                {"n": len(got_eq), "first": got_eq[:1], "last": got_eq[-1:],
                 "frame_index_n": len(obs["equity_df"].get("index", []))},
                {"n": len(want_eq), "first": want_eq[:1], "last": want_eq[-1:]}))

    # 5. each point equals cash + sum(quantity x close) recomputed from the fills
    bad = None
    txns = obs["txns"]
    for t_close, (t_got, v_got) in zip(exp["closes"], obs["equity"]):
        s = stamp(t_close)
        cash = float(cfg.get("initial_cash", 1e6))
        qty = {}
        for (ft, asset, q, price, commission) in txns:
            if ft <= s:
                cash -= price * q + commission
                qty[asset] = qty.get(asset, 0) + q
        value = cash + sum(q * quotes.at(a, t_close) for a, q in qty.items() if q != 0)
        if not M.approx(v_got, value, rel=1e-9, abs_=1e-9):
            bad = ({"date": t_got, "equity": v_got}, {"date": s, "equity": value})
            break
    if bad is None and obs["equity"] and obs["equity"][-1][1] != obs["account_equity"]:
        bad = ({"last_point": obs["equity"][-1][1]}, {"account_total_equity_master": obs["account_equity"]})
    if bad is None and "error" not in obs["equity_df"]:
        col = [r[0] for r in obs["equity_df"]["rows"]]
        if col != [e[1] for e in obs["equity"]]:
            bad = ({"get_equity_curve": col[:3]}, {"equity_curve": [e[1] for e in obs["equity"]][:3]})
    res.append(("equity-equals-marked-account-equity", bad is None, bad and bad[0], bad and bad[1]))

    # 6. allocation table = forward fill of the rebalance rows onto the equity dates (>= burn-in)
    if obs["alloc_rows"]:
        rows = [(dt.date(int(r[0][0:4]), int(r[0][5:7]), int(r[0][8:10])), dict(r[1])) for r in obs["alloc_rows"]]
        columns, table = ffill_table(rows, [t.date() for t in exp["closes"]], exp["burn"])
        df = obs["alloc_df"]
        ok, o, e = True, None, None
        if "error" in df:
            ok, o, e = False, df["error"], "a table with %d rows" % len(table)
        elif df["index"] != [r[0] for r in table] or sorted(df["columns"]) != sorted(columns):
            ok, o, e = False, {"index_n": len(df["index"]), "first": df["index"][:1], "columns": df["columns"]}, \
                {"index_n": len(table), "first": [r[0] for r in table][:1], "columns": columns}
        else:
            for (day, w), got in zip(table, df["rows"]):
                g = dict(zip(df["columns"], got))
                if any(not _same_float(g[c], w[c]) for c in columns):
                    ok, o, e = False, {"date": day, "row": g}, {"date": day, "row": w}
                    break
        res.append(("allocation-table-ffill", ok, o, e))
    if obs2 is not None:
        want2 = [stamp(t) for t in oracle(cfg2)["rebalances"]]
        got2 = None if obs2["error"] is not None else [r[0] for r in obs2["alloc_rows"]]
        res.append(("later-session-in-the-same-process-unaffected", got2 == want2 and obs2["qts_calls"] == want2,
                    {"error": obs2["error"], "allocation_row_dates": got2 and got2[:4], "n": got2 and len(got2)},
                    {"allocation_row_dates": want2[:4], "n": len(want2)}))
    return {"case": case, "results": res, "n_rebalances": len(obs["alloc_rows"]), "n_fills": len(obs["fills"])}


def _worker(args):
    case = gen_case(*args)
    try:
        return check_case(case)
    except Exception as exc:  # noqa: BLE001  (never raise out of run(): report it against every clause)
        why = "check could not be evaluated: %s: %s" % (type(exc).__name__, exc)
        return {"case": case, "results": [(c, False, why, None) for c in CLAUSES], "n_rebalances": 0, "n_fills": 0}


def run(tier="quick", seed=0, budget_s=60.0, jobs=1):
    budget = M.Budget(budget_s)
    n = N_QUICK if tier == "quick" else N_THOROUGH
    tally = M.Tally(CLAUSES)
    seen, counts, samples = set(), {"ev": 0, "nt": 0, "zero": 0}, []
    done_all = True

    def absorb(rec):
        counts["ev"] += 1
        for clause, ok, o, e in rec["results"]:
            tally.check(clause, ok, rec["case"], o, e, size=M.case_size(rec["case"]))
        key = json.dumps(rec["case"], sort_keys=True)
        if rec["n_rebalances"] == 0:
            counts["zero"] += 1
        if key not in seen and rec["n_rebalances"] > 0 and rec["n_fills"] > 0:
            counts["nt"] += 1
            if len(samples) < 4:
                samples.append({"case": rec["case"], "n_rebalances": rec["n_rebalances"], "n_fills": rec["n_fills"]})
        seen.add(key)

    for rec in M.pool_iter(_worker, [(seed, i) for i in range(n)], 1 if tier == "quick" else jobs):
        absorb(rec)
        if budget.left() < 1.0 and counts["ev"] < n:
            done_all = False
            break
    return {
        "evaluations": counts["ev"], "distinct_nontrivial": counts["nt"],
        "rule": ("case i = gen_case(seed, i) (see BOUND); one evaluation = one real session; distinct = distinct "
                 "(market spec, configuration) JSON; non-trivial = at least one rebalance executed and at least one "
                 "fill. %d run(s) had no executed rebalance (burn-in after the only instant / no month end): they "
                 "are checked against the first five clauses only. %s"
                 % (counts["zero"], "all %d cases of the tier ran" % n if done_all else "stopped early on budget_s")),
        "samples": samples, "exhaustive": False, "clauses": tally.clauses,
        "n_failures": tally.n_failures, "failures": tally.kept_failures(),
    }


def replay(case):
    clause = case.get("clause") if "cfg" not in case else None     # a whole failure record is accepted too
    inner = case.get("case", case)
    rec = check_case({"market": inner["market"], "cfg": inner["cfg"]})
    bad = [(c, o, e) for c, ok, o, e in rec["results"] if not ok and (clause is None or c == clause)]
    if not bad:
        return {"reproduced": False, "clause": clause or "", "observed": None, "expected": None}
    return {"reproduced": True, "clause": bad[0][0], "observed": bad[0][1], "expected": bad[0][2]}


if __name__ == "__main__":
    tier = sys.argv[1] if len(sys.argv) > 1 else "quick"
    out = run(tier=tier, seed=int(sys.argv[2]) if len(sys.argv) > 2 else 0,
              budget_s=25.0 if tier == "quick" else 900.0, jobs=1 if tier == "quick" else 16)
    print(json.dumps(out, indent=1, default=str))
