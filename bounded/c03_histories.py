"""C03 bounded part: long random fill histories in FLOATING POINT through the real Position / Portfolio classes against an
independent ledger (the real-valued claim itself is proved deductively; this is the 'long random sequences in floating
point' half of the quantifier).  Also serves C01/C02 (cash and holdings against the same ledger)."""
import math
import os
import random
import time

PROPERTIES = ['C03', 'C01', 'C02']
PROPERTY = 'C03'
BOUND = ("quick: 300 random histories of 1-60 fills; thorough: 10,000 histories of 1-200 fills, 1-3 assets, integer quantities of either "
         "sign (including closes to exactly zero, flips through zero and re-opens), prices in [0.5, 500] with 0-4 decimals, commissions 0 or "
         "a percentage, interleaved price marks, round trips back to the quantity held two fills earlier; figures read after every step on "
         "half of the histories, after about a third of the steps and at the end on the other half; relative tolerance 1e-9 scaled by the "
         "gross traded value.")


def _ledger_check(acc, seed, nmax, failures, samples):
    import pandas as pd
    from qstrader.broker.portfolio.portfolio import Portfolio
    from qstrader.broker.transaction.transaction import Transaction
    rng = random.Random(seed)
    t = pd.Timestamp('2020-01-02 14:30', tz='UTC')
    pf = Portfolio(t, starting_cash=1e6, portfolio_id='p')
    assets = ['EQ:A', 'EQ:B_1', 'EQ:C'][:rng.randint(1, 3)]
    led = {a: dict(q=0, Gb=0.0, Gs=0.0, comm=0.0, last=None) for a in assets}
    cash = 1e6
    n = rng.randint(1, nmax)
    steps = []
    gross = 1.0
    orng = random.Random('observe:%s' % seed)
    sparse = orng.random() < 0.5
    mirror = len(assets) >= 2 and rng.random() < 0.3       # two assets with EQUAL quantities, prices and market values for a while
    for i in range(n):
        t = t + pd.Timedelta(minutes=rng.choice([0, 1, 30, 390]))
        a = rng.choice(assets)
        if mirror and i < 2:
            a = assets[i]
        L = led[a]
        if mirror and i < 2:
            q, p, k = 100, 20.0, 0.0
            pf.transact_asset(Transaction(a, q, t, p, 'oid', commission=k))
            L.update(Gb=p * q, Gs=0.0, comm=0.0, q=q, last=p)
            cash -= p * q
            gross += abs(p * q)
            steps.append(('fill', a, q, p, k))
        elif rng.random() < 0.25 and L['q'] != 0:
            m = round(rng.uniform(0.5, 500), rng.choice([0, 2, 4]))
            pf.update_market_value_of_asset(a, m, t)
            L['last'] = m
            steps.append(('mark', a, m))
        else:
            mode = rng.random()
            if mode < 0.15 and L['q'] != 0:
                q = -L['q']                              # close to exactly zero
            elif mode < 0.30 and L['q'] != 0:
                q = -L['q'] - int(math.copysign(rng.randint(1, 200), L['q']))   # flip through zero
            elif mode < 0.45 and L.get('prevq') and L['q'] != 0 and L['q'] - L['prevq'] != 0:
                q = -L['prevq']                          # a round trip: back to the net quantity held two fills ago, at another price
            else:
                q = rng.choice([-1, 1]) * rng.randint(1, 500)
            L['prevq'] = q
            p = round(rng.uniform(0.5, 500), rng.choice([0, 2, 4]))
            k = rng.choice([0.0, round(abs(p * q) * rng.choice([0.001, 0.0025]), rng.choice([2, 6]))])
            was_flat = L['q'] == 0
            pf.transact_asset(Transaction(a, q, t, p, 'oid', commission=k))
            if was_flat:
                L.update(Gb=0.0, Gs=0.0, comm=0.0)      # "since the position was opened"
            if q > 0:
                L['Gb'] += p * q
            else:
                L['Gs'] += -p * q
            L['comm'] += k
            L['q'] += q
            L['last'] = p
            cash -= p * q + k
            gross += abs(p * q)
            steps.append(('fill', a, q, p, k))
        # observe after every step (a stale cached figure must show) - or, on every other history, only now and then and at the end
        # (a figure remembered at one reading must not survive the fills made before the next one)
        if sparse and i < n - 1 and orng.random() < 0.65:
            continue
        tol = 1e-9 * gross
        held = pf.pos_handler.positions

        def chk(clause, ok, detail):
            c = acc.setdefault(clause, [0, 0])
            c[0] += 1
            if not ok:
                c[1] += 1
                if len(failures) < 25:
                    failures.append({'clause': clause, 'case': {'seed': seed, 'nmax': nmax, 'step': i}, 'observed': detail, 'expected': 'see clause'})
        chk('cash-equals-ledger', abs(pf.cash - cash) <= tol, [pf.cash, cash])
        for b in assets:
            Lb = led[b]
            chk('held-iff-net-nonzero', (b in held) == (Lb['q'] != 0), [b, b in held, Lb['q']])
            if b in held:
                pos = held[b]
                mv = Lb['last'] * Lb['q']
                chk('quantity-is-sum-of-fills', pos.net_quantity == Lb['q'], [pos.net_quantity, Lb['q']])
                chk('market-value-at-latest-price', abs(pos.market_value - mv) <= tol, [pos.market_value, mv])
                want = mv - (Lb['Gb'] - Lb['Gs']) - Lb['comm']
                chk('total-pnl-is-mv-minus-cashflow-minus-commission', abs(pos.total_pnl - want) <= tol, [pos.total_pnl, want])
                chk('total-is-realised-plus-unrealised', abs(pos.total_pnl - (pos.realised_pnl + pos.unrealised_pnl)) <= tol, [pos.total_pnl, pos.realised_pnl, pos.unrealised_pnl])
        # portfolio-level figures are the sums over the positions held NOW (a closed position contributes nothing)
        open_ = [held[b] for b in assets if b in held]
        for name, agg, parts in (('total_market_value', pf.total_market_value, [x.market_value for x in open_]),
                                 ('total_unrealised_pnl', pf.total_unrealised_pnl, [x.unrealised_pnl for x in open_]),
                                 ('total_realised_pnl', pf.total_realised_pnl, [x.realised_pnl for x in open_]),
                                 ('total_pnl', pf.total_pnl, [x.total_pnl for x in open_])):
            chk('portfolio-figure-is-sum-over-held-positions', abs(agg - sum(parts)) <= tol, [name, agg, sum(parts)])
        chk('total-is-realised-plus-unrealised', abs(pf.total_pnl - (pf.total_realised_pnl + pf.total_unrealised_pnl)) <= tol,
            ['portfolio', pf.total_pnl, pf.total_realised_pnl, pf.total_unrealised_pnl])
        eq = cash + sum(led[b]['last'] * led[b]['q'] for b in assets if led[b]['q'] != 0)
        chk('equity-is-cash-plus-market-value', abs(pf.total_equity - eq) <= tol, [pf.total_equity, eq])
    if len(samples) < 4:
        samples.append({'seed': seed, 'steps': steps[:6], 'n_steps': n})
    return n


def run(tier='quick', seed=0, budget_s=60.0, jobs=1):
    import qstrader
    from qstrader import settings
    assert os.path.realpath(qstrader.__file__).startswith(os.path.realpath(os.environ.get('QSTRADER_ROOT', '/repo')))
    settings.PRINT_EVENTS = os.environ.get("PYVC_AMBIENT") == "1"
    t0 = time.time()
    nh, nmax = (300, 60) if tier == 'quick' else (10000, 200)
    acc, failures, samples = {}, [], []
    done = steps = 0
    for i in range(nh):
        if tier == 'quick' and time.time() - t0 > min(budget_s, 20.0):
            break
        steps += _ledger_check(acc, seed * 1000003 + i, nmax, failures, samples)
        done += 1
    return {'evaluations': steps, 'distinct_nontrivial': done, 'exhaustive': False,
            'rule': 'a case = one random history (seeded); evaluations = observed steps; non-trivial = every history has >= 1 fill; distinct by seed',
            'samples': samples, 'clauses': {k: {'checked': v[0], 'failed': v[1]} for k, v in acc.items()},
            'n_failures': sum(v[1] for v in acc.values()), 'failures': failures}


def replay(case):
    acc, failures, samples = {}, [], []
    _ledger_check(acc, case['seed'], case['nmax'], failures, samples)
    return {'reproduced': bool(failures), 'clause': failures[0]['clause'] if failures else None,
            'observed': failures[0]['observed'] if failures else None, 'expected': 'ledger'}


if __name__ == '__main__':
    import json
    import sys
    print(json.dumps(run(sys.argv[1] if len(sys.argv) > 1 else 'quick'), default=str)[:3000])
