"""C18 (bounded): identical inputs give identical results.

The same REAL backtest is repeated (a) in the same process with fresh objects, (b) in the same process
on a data-source object that already served that session, a different session and a batch of ad-hoc
price queries, (c) in fresh interpreters started with PYTHONHASHSEED = 0..k; fills (order ids never
appear in what is compared), equity curve, allocation rows / table and their column order are compared
bit for bit.  There is no oracle beyond equality of the runs.
"""
import datetime as dt
import json
import os
import random
import subprocess
import sys
import tempfile

if __package__ in (None, ""):
    sys.path.insert(0, os.path.dirname(os.path.dirname(os.path.abspath(__file__))))
    __package__ = "bounded"

from . import _market as M  # noqa: E402

PROPERTY = "C18"
CLAUSES = ["same-process-repeat", "shared-datasource-repeat", "hash-seed-independent", "allocation-column-order"]
N_QUICK, K_QUICK = 6, 2
N_THOROUGH, K_THOROUGH = 320, 15
BOUND = (
    "Sampled, not exhaustive. Case i = gen_case(seed, i) from random.Random('c18:<seed>:<i>'): 3-6 assets, synthetic "
    "random-walk market, 4-9 week range; configuration cycling with i mod 4 through (0) dynamic universe in which three "
    "assets enter at the same instant + top-N momentum, (1) SMA crossover, (2) inverse volatility on a dynamic "
    "universe, (3) fixed weights; weekly (any weekday) / daily / end_of_month schedules, long-only or long/short, "
    "zero or percentage fees, burn-in on 1 case in 3. Per case: the same configuration on a different market (same "
    "symbols and dates, own directory and objects), then run A and run B with fresh objects; run C, then an "
    "unrelated session plus 200 ad-hoc bid/ask queries, then run D, all on ONE CSVDailyBarDataSource object; "
    "fresh interpreters with PYTHONHASHSEED = 0..k each re-running the case. Compared bit for bit: history events "
    "of type asset_transaction (dt, description, debit, credit, balance) and the recorded transactions (time, "
    "asset, quantity, price, commission), the equity curve and get_equity_curve(), the allocation rows and "
    "get_target_allocations() (values by column name under the three run clauses; key order of every row and the "
    "table's column order under allocation-column-order). quick: %d cases, k=%d; thorough: %d cases, k=%d."
    % (N_QUICK, K_QUICK, N_THOROUGH, K_THOROUGH))

SYMS = ["AAA", "BBB", "CCC", "DDD", "EEE", "FFF"]
KINDS = [("weekly", "MON"), ("weekly", "TUE"), ("weekly", "WED"), ("weekly", "THU"), ("weekly", "FRI"),
         ("daily", None), ("end_of_month", None)]


def gen_case(seed, i):
    rng = random.Random("c18:%s:%s" % (seed, i))
    flavour = i % 4
    n = rng.choice([3, 4, 5, 6]) if flavour != 0 else rng.choice([4, 5, 6])
    symbols = SYMS[:n]
    start_day = dt.date(2018, 1, 1) + dt.timedelta(days=rng.randrange(0, 1400))
    kind, weekday = KINDS[(i // 4) % 7] if flavour else rng.choice(KINDS[:6])
    weeks = rng.randint(4, 9)
    if kind == "end_of_month":
        weeks = max(weeks, 7)
    end_day = start_day + dt.timedelta(days=7 * weeks - 1)
    days = M.business_days(start_day, end_day)
    long_only = rng.random() < 0.5
    universe = {"kind": "static"}
    if flavour == 0:
        entry = "%s 00:00" % days[rng.randrange(4, 10)].isoformat()
        universe = {"kind": "dynamic", "dates": {symbols[-1]: entry, symbols[-2]: entry, symbols[1]: entry}}
        alpha = {"kind": "momentum", "lookback": rng.choice([2, 3, 5]), "top_n": rng.choice([2, 3])}
    elif flavour == 1:
        alpha = {"kind": "sma", "short": 2, "long": rng.choice([4, 5])}
    elif flavour == 2:
        entry = "%s 00:00" % days[rng.randrange(4, 10)].isoformat()
        universe = {"kind": "dynamic", "dates": {symbols[0]: entry, symbols[-1]: entry}}
        alpha = {"kind": "vol", "lookback": rng.choice([3, 5])}
    else:
        ws = {s: (rng.choice([0.2, 0.5, 1.0]) if long_only else rng.choice([-1.0, -0.5, 0.5, 1.0])) for s in symbols}
        alpha = {"kind": "fixed", "weights": ws}
    burn = None
    if i % 3 == 0:
        burn = "%s 14:30" % days[rng.randrange(3, 9)].isoformat()
    cfg = {
        "symbols": symbols, "start": "%s %s" % (start_day.isoformat(), rng.choice(["00:00", "14:30"])),
        "end": "%s 23:59" % end_day.isoformat(), "burn_in": burn, "rebalance": kind, "weekday": weekday,
        "long_only": long_only, "cash_buffer": rng.choice([0.0, 0.05]), "gross_leverage": rng.choice([1.0, 2.0]),
        "fee": rng.choice([None, [0.001, 0.0005]]), "initial_cash": 1e6, "universe": universe, "alpha": alpha,
    }
    market = {"seed": rng.randrange(10 ** 9), "symbols": symbols, "first": M.add_bdays(start_day, -8).isoformat(),
              "last": (end_day + dt.timedelta(days=5)).isoformat(), "gap_prob": 0.0, "adjust": True, "sigma": 0.03}
    return {"market": market, "cfg": cfg}


def other_cfg(cfg):
    """An unrelated session over the same data (used to give the shared data source a history)."""
    out = dict(cfg)
    out["rebalance"], out["weekday"] = "daily", None
    out["long_only"] = not cfg["long_only"]
    out["burn_in"] = None
    out["universe"] = {"kind": "static"}
    out["alpha"] = {"kind": "fixed", "weights": {s: 1.0 for s in cfg["symbols"][::-1]}}
    out["fee"] = [0.002, 0.0]
    return out


def parts(obs):
    """Digests of the three compared results (values keyed by name) + the literal key / column orders."""
    alloc_rows = [(r[0], sorted(r[1])) for r in obs["alloc_rows"]]
    df = obs.get("alloc_df") or {}
    table = None
    if "rows" in df:
        table = [(i, sorted(zip(df["columns"], r))) for i, r in zip(df["index"], df["rows"])]
    else:
        table = df.get("error")
    return {
        "error": obs["error"] and [obs["error"]["type"], obs["error"]["at"]],
        "fills": M.digest([obs["fills"], obs["txns"]]),
        "equity": M.digest([obs["equity"], obs.get("equity_df")]),
        "allocations": M.digest([alloc_rows, table]),
        "n": [len(obs["fills"]), len(obs["equity"]), len(obs["alloc_rows"])],
        "order": _order([r[2] for r in obs["alloc_rows"]], df.get("columns")),
    }


def _order(row_keys, table_columns):
    distinct = []
    for keys in row_keys:
        if keys not in distinct:
            distinct.append(keys)
    return {"all_row_key_orders": M.digest(row_keys), "distinct_row_key_orders": distinct[:6],
            "table_columns": table_columns}


def values_equal(a, b):
    return all(a[k] == b[k] for k in ("error", "fills", "equity", "allocations"))


def diff(a, b):
    return {k: (a[k], b[k]) for k in ("error", "fills", "equity", "allocations", "n") if a[k] != b[k]}


def in_process(case):
    """runs A, B (fresh), C, D (shared data source with a history in between)."""
    market = M.gen_market(case["market"])
    cfg = case["cfg"]
    with tempfile.TemporaryDirectory(prefix="c18_") as d:
        M.write_market(d, market)
        # first a session over DIFFERENT prices for the same symbols and dates, with its own directory and objects:
        # runs A-D all happen in a process that has already served other data; the fresh interpreters have not
        with tempfile.TemporaryDirectory(prefix="c18x_") as d2:
            M.write_market(d2, M.gen_market(dict(case["market"], seed=case["market"]["seed"] + 1)))
            M.run_session(d2, cfg)
        a = parts(M.run_session(d, cfg))
        b = parts(M.run_session(d, cfg))
        shared = M.make_data_source(d, cfg["symbols"])
        c = parts(M.run_session(d, cfg, data_source=shared))
        M.run_session(d, other_cfg(cfg), data_source=shared)
        rng = random.Random("q:%s" % case["market"]["seed"])
        first = M.parse_day(case["market"]["first"])
        for _ in range(200):
            day = first + dt.timedelta(days=rng.randrange(-5, 90))
            when = M.ts("%s %02d:%02d" % (day.isoformat(), rng.randrange(0, 24), rng.choice([0, 29, 30, 31, 59])))
            asset = M.asset_of(rng.choice(cfg["symbols"]))
            (shared.get_bid if rng.random() < 0.5 else shared.get_ask)(when, asset)
        dd = parts(M.run_session(d, cfg, data_source=shared))
    return a, b, c, dd


def child_run(cases):
    out = []
    for case in cases:
        market = M.gen_market(case["market"])
        with tempfile.TemporaryDirectory(prefix="c18c_") as d:
            M.write_market(d, market)
            out.append(parts(M.run_session(d, case["cfg"])))
    return out


def spawn(hash_seed, errfile):
    env = dict(os.environ)
    env["PYTHONHASHSEED"] = str(hash_seed)
    return subprocess.Popen([sys.executable, os.path.abspath(__file__), "--child"], stdin=subprocess.PIPE,
                            stdout=subprocess.PIPE, stderr=errfile, env=env, text=True)


def check_cases(cases, k):
    """All four clauses for a batch of cases.  Returns one record per case."""
    procs = []
    for h in range(k + 1):
        errfile = tempfile.TemporaryFile(mode="w+")
        p = spawn(h, errfile)
        p.stdin.write(json.dumps({"cases": cases}))
        p.stdin.close()
        procs.append((p, errfile))
    local = [in_process(case) for case in cases]
    remote = []
    for p, errfile in procs:
        out = p.stdout.read()
        p.wait()
        errfile.seek(0)
        err = errfile.read()
        errfile.close()
        if p.returncode != 0:
            remote.append([{"error": ["ChildFailed", err[-400:]], "fills": None, "equity": None, "allocations": None,
                            "n": None, "order": None} for _ in cases])
        else:
            remote.append(json.loads(out.strip().splitlines()[-1]))
    recs = []
    for ci, case in enumerate(cases):
        a, b, c, d = local[ci]
        res = [("same-process-repeat", values_equal(a, b), diff(a, b), "run B == run A")]
        ok_s = values_equal(a, c) and values_equal(a, d)
        res.append(("shared-datasource-repeat", ok_s, {"first_use": diff(a, c), "after_history": diff(a, d)},
                    "runs on the shared data source == run A"))
        orders = [("B", b["order"]), ("C", c["order"]), ("D", d["order"])]
        for h in range(k + 1):
            r = remote[h][ci]
            res.append(("hash-seed-independent", values_equal(a, r), dict(diff(a, r), PYTHONHASHSEED=h),
                        "fresh interpreter == run A"))
            orders.append(("PYTHONHASHSEED=%d" % h, r["order"]))
        for name, o in orders:
            res.append(("allocation-column-order", o == a["order"], {"run": name, "order": _brief(o)},
                        {"run": "A", "order": _brief(a["order"])}))
        recs.append({"case": dict(case, k=k), "results": res, "n": a["n"], "error": a["error"]})
    return recs


def _brief(order):
    return order


def _worker(args):
    seed, lo, hi, k = args
    cases = [gen_case(seed, i) for i in range(lo, hi)]
    try:
        return check_cases(cases, k)
    except Exception as exc:  # noqa: BLE001  (never raise out of run(): report it against every clause)
        why = "check could not be evaluated: %s: %s" % (type(exc).__name__, exc)
        return [{"case": dict(case, k=k), "results": [(c, False, why, None) for c in CLAUSES], "n": [0, 0, 0],
                 "error": why} for case in cases]


def run(tier="quick", seed=0, budget_s=60.0, jobs=1):
    budget = M.Budget(budget_s)
    n, k = (N_QUICK, K_QUICK) if tier == "quick" else (N_THOROUGH, K_THOROUGH)
    tally = M.Tally(CLAUSES)
    seen, counts, samples = set(), {"ev": 0, "nt": 0, "runs": 0}, []
    done_all = True

    def absorb(recs):
        for rec in recs:
            counts["ev"] += 1
            counts["runs"] += 6 + (k + 1)
            for clause, ok, o, e in rec["results"]:
                tally.check(clause, ok, rec["case"], o, e, size=M.case_size(rec["case"]))
            key = json.dumps(rec["case"], sort_keys=True)
            if key not in seen and rec["error"] is None and rec["n"][0] > 0 and rec["n"][2] > 0:
                counts["nt"] += 1
                if len(samples) < 4:
                    samples.append({"case": rec["case"], "fills_equity_points_allocation_rows": rec["n"]})
            seen.add(key)

    if tier == "quick":
        # one batch (k+1 interpreter start-ups in all); a small budget shrinks the batch (~3 s of CPU per case)
        m = min(n, max(2, int(budget_s / 3.5)))
        done_all = m == n
        absorb(_worker((seed, 0, m, k)))
    elif jobs <= 1:
        chunk = 5
        for lo in range(0, n, chunk):
            if budget.left() < 6.0 and lo > 0:
                done_all = False
                break
            absorb(_worker((seed, lo, min(n, lo + chunk), k)))
    else:
        chunk = 5
        tasks = [(seed, lo, min(n, lo + chunk), k) for lo in range(0, n, chunk)]
        done = 0                            # every worker also keeps k+1 child interpreters busy
        for recs in M.pool_iter(_worker, tasks, max(1, (jobs + 1) // 2)):
            absorb(recs)
            done += 1
            if budget.left() < 10.0 and done < len(tasks):
                done_all = False
                break
    return {
        "evaluations": counts["ev"], "distinct_nontrivial": counts["nt"],
        "rule": ("case i = gen_case(seed, i) (see BOUND); one evaluation = one case = %d real sessions (decoy, A, B, C, "
                 "unrelated, D in process + %d fresh interpreters), %d sessions in total; distinct = distinct (market "
                 "spec, configuration) JSON; non-trivial = run A completed with at least one fill and one allocation "
                 "row. %s" % (6 + k + 1, k + 1, counts["runs"],
                              "all %d cases of the tier ran" % n if done_all else "stopped early on budget_s")),
        "samples": samples, "exhaustive": False, "clauses": tally.clauses,
        "n_failures": tally.n_failures, "failures": tally.kept_failures(),
    }


def replay(case):
    clause = case.get("clause") if "cfg" not in case else None     # a whole failure record is accepted too
    inner = case.get("case", case)
    recs = check_cases([{"market": inner["market"], "cfg": inner["cfg"]}], int(inner.get("k", K_QUICK)))
    bad = [(c, o, e) for c, ok, o, e in recs[0]["results"] if not ok and (clause is None or c == clause)]
    if not bad:
        return {"reproduced": False, "clause": clause or "", "observed": None, "expected": None}
    return {"reproduced": True, "clause": bad[0][0], "observed": bad[0][1], "expected": bad[0][2]}


if __name__ == "__main__":
    if len(sys.argv) > 1 and sys.argv[1] == "--child":
        payload = json.loads(sys.stdin.read())
        sys.stdout.write(json.dumps(child_run(payload["cases"])) + "\n")
        sys.exit(0)
    tier = sys.argv[1] if len(sys.argv) > 1 else "quick"
    out = run(tier=tier, seed=int(sys.argv[2]) if len(sys.argv) > 2 else 0,
              budget_s=25.0 if tier == "quick" else 900.0, jobs=1 if tier == "quick" else 16)
    print(json.dumps(out, indent=1, default=str))
