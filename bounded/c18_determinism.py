"""C18 (bounded): identical inputs give identical results.

The same REAL backtest is repeated (a) in the same process with fresh objects, (b) in the same process
on a data-source object that already served that session, a different session and a batch of ad-hoc
price queries, (c) in fresh interpreters started with PYTHONHASHSEED = 0..k; fills (order ids never
appear in what is compared), equity curve, allocation rows / table and their column order are compared
bit for bit.  There is no oracle beyond equality of the runs.

A second, much cheaper family of cases (clause ``sizers-and-pcm-hash-seed-independent``) calls the REAL order
sizers and the REAL PortfolioConstructionModel directly (stub broker / price source) on weight dictionaries
built to be sensitive to the order of a float summation and to sit on the integer boundaries of the sizers'
floor / ceil / int(), in fresh interpreters with PYTHONHASHSEED = 0..h; target quantities, the full asset list,
the allocation row and the order list are compared bit for bit between the interpreters.
"""
import datetime as dt
import itertools
import json
import os
import random
import subprocess
import sys
import tempfile

if __package__ in (None, ""):
    sys.path.insert(0, os.path.dirname(os.path.dirname(os.path.abspath(__file__))))
    __package__ = "bounded"

from . import _market as M  # noqa: E402

PROPERTY = "C18"
SESSION_CLAUSES = ["same-process-repeat", "shared-datasource-repeat", "hash-seed-independent", "allocation-column-order",
                   "default-datasource-repeat"]
MICRO = "sizers-and-pcm-hash-seed-independent"
CLAUSES = SESSION_CLAUSES + [MICRO]
N_QUICK, K_QUICK = 6, 2
N_THOROUGH, K_THOROUGH = 320, 15
M_QUICK, H_QUICK = 400, 6            # direct sizer / PCM cases, interpreters (PYTHONHASHSEED = 0..H-1)
M_THOROUGH, H_THOROUGH = 3000, 32
BOUND = (
    "Sampled, not exhaustive. Case i = gen_case(seed, i) from random.Random('c18:<seed>:<i>'): 3-6 assets, synthetic "
    "random-walk market, 4-9 week range; configuration cycling with i mod 4 through (0) dynamic universe in which three "
    "assets enter at the same instant + top-N momentum, (1) SMA crossover, (2) inverse volatility on a dynamic "
    "universe, (3) fixed weights; weekly (any weekday) / daily / end_of_month schedules, long-only or long/short, "
    "zero or percentage fees, burn-in on 1 case in 3. Per case: the same configuration on a different market (same "
    "symbols and dates, own directory and objects), then run A and run B with fresh objects; run C, then an "
    "unrelated session plus 200 ad-hoc bid/ask queries, then run D, all on ONE CSVDailyBarDataSource object; "
    "fresh interpreters with PYTHONHASHSEED = 0..k each re-running the case; for the fixed-weight configurations also "
    "run E on the session's own default data source (no handler passed, environment variable unset, current "
    "directory read) straight after such a session in another directory holding another market under the same file "
    "names and modification times. Compared bit for bit: history events "
    "of type asset_transaction (dt, description, debit, credit, balance) and the recorded transactions (time, "
    "asset, quantity, price, commission), the equity curve and get_equity_curve(), the allocation rows and "
    "get_target_allocations() (values by column name under the three run clauses; key order of every row and the "
    "table's column order under allocation-column-order). quick: %d cases, k=%d; thorough: %d cases, k=%d. "
    "Clause sizers-and-pcm-hash-seed-independent (also sampled): direct case j = gen_micro(seed, j) from "
    "random.Random('c18m:<seed>:<j>'), j mod 4 -> LongShortLeveragedOrderSizer (0, 1), "
    "DollarWeightedCashBufferedOrderSizer (2), PortfolioConstructionModel._obtain_full_asset_list + __call__ around "
    "one of the two sizers with a real StaticUniverse / FixedSignalsAlphaModel / FixedWeightPortfolioOptimiser and "
    "0-4 held assets of which some are outside the universe (3); stub broker (fixed total equity, real ZeroFeeModel or "
    "PercentFeeModel(0.001, 0.0005) on 1 case in 5) and stub price source. Weight dictionaries: 3-6 assets on the "
    "main side, 1-6 on the other (long/short) or 3-6 positive weights (long only), magnitudes either a ladder "
    "u, 2u, .., nu, or k*u with k in {1,2,3,4,6,7} and u in {0.1, 0.2, 0.3, 0.7, 1/3, 1e-3, 0.05, 0.15}, or drawn "
    "from {0.1, 0.2, 0.3, 0.7, 1/3, 1e-3, 0.6, 0.4, 0.15, 0.05, 1.0, 2.5e-3}; a single opposite asset balances the "
    "book (dollar neutral); a zero weight on 1 case in 5; shuffled insertion order; asset names 'EQ:AAA'..'EQ:HHH' "
    "and 48 fixed random-looking tickers of 3-8 characters; equity in {1e6, 3e5, 123456.0}, prices in {100.0, 50.0, "
    "12.5, 1.0}, gross leverage in {1, 2, 0.5}, cash buffer in {0, 0.05}. Every case is evaluated in every one of h "
    "fresh interpreters (PYTHONHASHSEED = 0..h-1, one interpreter per hash seed for the whole list) and the results "
    "(target quantities in the order of the returned dict; for PCM cases also the full asset list, the allocation "
    "row with its key order, and the (asset, quantity) order list in order) are compared with those of "
    "PYTHONHASHSEED=0. quick: %d cases, h=%d; thorough: %d cases, h=%d."
    % (N_QUICK, K_QUICK, N_THOROUGH, K_THOROUGH, M_QUICK, H_QUICK, M_THOROUGH, H_THOROUGH))

SYMS = ["AAA", "BBB", "CCC", "DDD", "EEE", "FFF"]
KINDS = [("weekly", "MON"), ("weekly", "TUE"), ("weekly", "WED"), ("weekly", "THU"), ("weekly", "FRI"),
         ("daily", None), ("end_of_month", None)]


def gen_case(seed, i):
    rng = random.Random("c18:%s:%s" % (seed, i))
    flavour = i % 4
    n = rng.choice([3, 4, 5, 6]) if flavour != 0 else rng.choice([4, 5, 6])
    symbols = SYMS[:n]
    start_day = dt.date(2018, 1, 1) + dt.timedelta(days=rng.randrange(0, 1400))
    kind, weekday = KINDS[(i // 4) % 7] if flavour else rng.choice(KINDS[:6])
    if i % 6 == 5:
        kind, weekday = "end_of_month", None        # (one month-end schedule in every six cases, hence in the quick tier too)
    weeks = rng.randint(4, 9)
    if kind == "end_of_month":
        weeks = max(weeks, 7)
    end_day = start_day + dt.timedelta(days=7 * weeks - 1)
    days = M.business_days(start_day, end_day)
    long_only = rng.random() < 0.5
    universe = {"kind": "static"}
    if flavour == 0:
        entry = "%s 00:00" % days[rng.randrange(4, 10)].isoformat()
        universe = {"kind": "dynamic", "dates": {symbols[-1]: entry, symbols[-2]: entry, symbols[1]: entry}}
        alpha = {"kind": "momentum", "lookback": rng.choice([2, 3, 5]), "top_n": rng.choice([2, 3])}
    elif flavour == 1:
        alpha = {"kind": "sma", "short": 2, "long": rng.choice([4, 5])}
    elif flavour == 2:
        entry = "%s 00:00" % days[rng.randrange(4, 10)].isoformat()
        universe = {"kind": "dynamic", "dates": {symbols[0]: entry, symbols[-1]: entry}}
        alpha = {"kind": "vol", "lookback": rng.choice([3, 5])}
    else:
        ws = {s: (rng.choice([0.2, 0.5, 1.0]) if long_only else rng.choice([-1.0, -0.5, 0.5, 1.0])) for s in symbols}
        alpha = {"kind": "fixed", "weights": ws}
    burn = None
    if i % 3 == 0:
        burn = "%s 14:30" % days[rng.randrange(3, 9)].isoformat()
    cfg = {
        "symbols": symbols, "start": "%s %s" % (start_day.isoformat(), rng.choice(["00:00", "14:30"])),
        "end": "%s 23:59" % end_day.isoformat(), "burn_in": burn, "rebalance": kind, "weekday": weekday,
        "long_only": long_only, "cash_buffer": rng.choice([0.0, 0.05]), "gross_leverage": rng.choice([1.0, 2.0]),
        "fee": rng.choice([None, [0.001, 0.0005]]), "initial_cash": 1e6, "universe": universe, "alpha": alpha,
    }
    market = {"seed": rng.randrange(10 ** 9), "symbols": symbols, "first": M.add_bdays(start_day, -8).isoformat(),
              "last": (end_day + dt.timedelta(days=5)).isoformat(), "gap_prob": 0.0, "adjust": True, "sigma": 0.03}
    return {"market": market, "cfg": cfg}


def other_cfg(cfg):
    """An unrelated session over the same data (used to give the shared data source a history)."""
    out = dict(cfg)
    out["rebalance"], out["weekday"] = ("daily" if cfg["rebalance"] != "daily" else "end_of_month"), None
    out["long_only"] = not cfg["long_only"]
    out["burn_in"] = None
    out["universe"] = {"kind": "static"}
    out["alpha"] = {"kind": "fixed", "weights": {s: 1.0 for s in cfg["symbols"][::-1]}}
    out["fee"] = [0.002, 0.0]
    return out


def parts(obs):
    """Digests of the three compared results (values keyed by name) + the literal key / column orders."""
    alloc_rows = [(r[0], sorted(r[1])) for r in obs["alloc_rows"]]
    df = obs.get("alloc_df") or {}
    table = None
    if "rows" in df:
        table = [(i, sorted(zip(df["columns"], r))) for i, r in zip(df["index"], df["rows"])]
    else:
        table = df.get("error")
    return {
        "error": obs["error"] and [obs["error"]["type"], obs["error"]["at"]],
        "fills": M.digest([obs["fills"], obs["txns"]]),
        "equity": M.digest([obs["equity"], obs.get("equity_df")]),
        "allocations": M.digest([alloc_rows, table]),
        "n": [len(obs["fills"]), len(obs["equity"]), len(obs["alloc_rows"])],
        "order": _order([r[2] for r in obs["alloc_rows"]], df.get("columns")),
    }


def _order(row_keys, table_columns):
    distinct = []
    for keys in row_keys:
        if keys not in distinct:
            distinct.append(keys)
    return {"all_row_key_orders": M.digest(row_keys), "distinct_row_key_orders": distinct[:6],
            "table_columns": table_columns}


def values_equal(a, b):
    return all(a[k] == b[k] for k in ("error", "fills", "equity", "allocations"))


def diff(a, b):
    return {k: (a[k], b[k]) for k in ("error", "fills", "equity", "allocations", "n") if a[k] != b[k]}


def in_process(case):
    """runs A, B (fresh), C, D (shared data source with a history in between)."""
    market = M.gen_market(case["market"])
    cfg = case["cfg"]
    with tempfile.TemporaryDirectory(prefix="c18_") as d:
        M.write_market(d, market)
        # first a session over DIFFERENT prices for the same symbols and dates, with its own directory and objects:
        # runs A-D all happen in a process that has already served other data; the fresh interpreters have not
        with tempfile.TemporaryDirectory(prefix="c18x_") as d2:
            M.write_market(d2, M.gen_market(dict(case["market"], seed=case["market"]["seed"] + 1)))
            # ... preceded by a DIFFERENTLY configured session over the same dates (daily schedule, other sizer, other weights)
            M.run_session(d2, other_cfg(cfg))
            M.run_session(d2, cfg)
        a = parts(M.run_session(d, cfg))
        b = parts(M.run_session(d, cfg))
        shared = M.make_data_source(d, cfg["symbols"])
        c = parts(M.run_session(d, cfg, data_source=shared))
        M.run_session(d, other_cfg(cfg), data_source=shared)
        rng = random.Random("q:%s" % case["market"]["seed"])
        first = M.parse_day(case["market"]["first"])
        for _ in range(200):
            day = first + dt.timedelta(days=rng.randrange(-5, 90))
            when = M.ts("%s %02d:%02d" % (day.isoformat(), rng.randrange(0, 24), rng.choice([0, 29, 30, 31, 59])))
            asset = M.asset_of(rng.choice(cfg["symbols"]))
            (shared.get_bid if rng.random() < 0.5 else shared.get_ask)(when, asset)
        dd = parts(M.run_session(d, cfg, data_source=shared))
        e = None
        if cfg["alpha"]["kind"] in ("fixed", "universe_fixed"):
            # the session's OWN default data source (no handler passed; QSTRADER_CSV_DATA_DIR unset, so the current directory
            # is read): first from a directory holding another market under the same file names and modification times,
            # then from this one - the same back-test as run A
            with tempfile.TemporaryDirectory(prefix="c18y_") as d3:
                M.write_market(d3, M.gen_market(dict(case["market"], seed=case["market"]["seed"] + 2)))
                for dirname in (d, d3):
                    for fn in os.listdir(dirname):
                        os.utime(os.path.join(dirname, fn), (1600000000, 1600000000))
                cwd, env = os.getcwd(), os.environ.pop("QSTRADER_CSV_DATA_DIR", None)
                try:
                    os.chdir(d3)
                    M.run_session(d3, cfg, default_handler=True)
                    os.chdir(d)
                    e = parts(M.run_session(d, cfg, default_handler=True))
                finally:
                    os.chdir(cwd)
                    if env is not None:
                        os.environ["QSTRADER_CSV_DATA_DIR"] = env
    return a, b, c, dd, e


def child_run(cases):
    out = []
    for case in cases:
        market = M.gen_market(case["market"])
        with tempfile.TemporaryDirectory(prefix="c18c_") as d:
            M.write_market(d, market)
            out.append(parts(M.run_session(d, case["cfg"])))
    return out


def spawn(hash_seed, errfile):
    env = dict(os.environ)
    env["PYTHONHASHSEED"] = str(hash_seed)
    return subprocess.Popen([sys.executable, os.path.abspath(__file__), "--child"], stdin=subprocess.PIPE,
                            stdout=subprocess.PIPE, stderr=errfile, env=env, text=True)


def check_cases(cases, k):
    """All four clauses for a batch of cases.  Returns one record per case."""
    procs = []
    for h in range(k + 1):
        errfile = tempfile.TemporaryFile(mode="w+")
        p = spawn(h, errfile)
        p.stdin.write(json.dumps({"cases": cases}))
        p.stdin.close()
        procs.append((p, errfile))
    local = [in_process(case) for case in cases]
    remote = []
    for p, errfile in procs:
        out = p.stdout.read()
        p.wait()
        errfile.seek(0)
        err = errfile.read()
        errfile.close()
        if p.returncode != 0:
            remote.append([{"error": ["ChildFailed", err[-400:]], "fills": None, "equity": None, "allocations": None,
                            "n": None, "order": None} for _ in cases])
        else:
            remote.append(json.loads(out.strip().splitlines()[-1]))
    recs = []
    for ci, case in enumerate(cases):
        a, b, c, d, e = local[ci]
        res = [("same-process-repeat", values_equal(a, b), diff(a, b), "run B == run A")]
        if e is not None:
            res.append(("default-datasource-repeat", values_equal(a, e), diff(a, e),
                        "run on the session's default data source, after one from another directory, == run A"))
        ok_s = values_equal(a, c) and values_equal(a, d)
        res.append(("shared-datasource-repeat", ok_s, {"first_use": diff(a, c), "after_history": diff(a, d)},
                    "runs on the shared data source == run A"))
        orders = [("B", b["order"]), ("C", c["order"]), ("D", d["order"])]
        for h in range(k + 1):
            r = remote[h][ci]
            res.append(("hash-seed-independent", values_equal(a, r), dict(diff(a, r), PYTHONHASHSEED=h),
                        "fresh interpreter == run A"))
            orders.append(("PYTHONHASHSEED=%d" % h, r["order"]))
        for name, o in orders:
            res.append(("allocation-column-order", o == a["order"], {"run": name, "order": _brief(o)},
                        {"run": "A", "order": _brief(a["order"])}))
        recs.append({"case": dict(case, k=k), "results": res, "n": a["n"], "error": a["error"]})
    return recs


def _brief(order):
    return order


def _worker(args):
    seed, lo, hi, k = args
    cases = [gen_case(seed, i) for i in range(lo, hi)]
    try:
        return check_cases(cases, k)
    except Exception as exc:  # noqa: BLE001  (never raise out of run(): report it against every clause)
        why = "check could not be evaluated: %s: %s" % (type(exc).__name__, exc)
        return [{"case": dict(case, k=k), "results": [(c, False, why, None) for c in SESSION_CLAUSES], "n": [0, 0, 0],
                 "error": why} for case in cases]


# --------------------------------------------------------------------------------------------------
# direct sizer / PCM cases (clause sizers-and-pcm-hash-seed-independent)
# --------------------------------------------------------------------------------------------------
NAMES_SHORT = ["EQ:%s" % (c * 3) for c in "ABCDEFGH"]
UNITS = [0.1, 0.2, 0.3, 0.7, 1.0 / 3.0, 1e-3, 0.05, 0.15]
POOL = [0.1, 0.2, 0.3, 0.7, 1.0 / 3.0, 1e-3, 0.6, 0.4, 0.15, 0.05, 1.0, 2.5e-3]
EQUITIES = [1e6, 3e5, 123456.0]
PRICES = [100.0, 50.0, 12.5, 1.0]
MICRO_DT = "2020-01-15 14:30"
MICRO_KEPT = 5                      # failure records kept for the clause (all of them are counted)


def _tickers():
    rng = random.Random("c18m:tickers")
    letters, out = "ABCDEFGHIJKLMNOPQRSTUVWXYZ", []
    while len(out) < 48:
        n = rng.choice([3, 4, 4, 5, 6, 8])
        t = "".join(rng.choice(letters if j in (0, n - 1) else letters + "0123456789.-") for j in range(n))
        if "EQ:%s" % t not in out and "EQ:%s" % t not in NAMES_SHORT:
            out.append("EQ:%s" % t)
    return out


TICKERS = _tickers()


def _dec(x):
    """x as the nearest short decimal literal (0.1 * 3 -> 0.3)."""
    return float("%.10g" % x)


def _mags(rng, n, style, u):
    """n positive magnitudes and, for the structured styles, the integer multipliers behind them."""
    if style == "pool":
        return [rng.choice(POOL) for _ in range(n)], None
    ks = list(range(1, n + 1)) if style == "ladder" else [rng.choice([1, 2, 3, 4, 6, 7]) for _ in range(n)]
    exact = style == "ladder" or rng.random() < 0.5
    return [(_dec(k * u) if exact else k * u) for k in ks], ks


def _pick_names(rng, n):
    pool = [NAMES_SHORT, TICKERS, NAMES_SHORT + TICKERS][rng.randrange(3)]
    if n > len(pool):
        pool = NAMES_SHORT + TICKERS
    return rng.sample(pool, n)


def gen_micro(seed, j):
    rng = random.Random("c18m:%s:%s" % (seed, j))
    kind = ("long_short", "long_short", "dollar_weighted", "pcm")[j % 4]
    sizer = kind if kind != "pcm" else rng.choice(["long_short", "long_short", "dollar_weighted"])
    style = rng.choice(["ladder", "ladder", "ladder", "multiples", "multiples", "multiples", "pool", "pool"])
    u = rng.choice([0.1, 0.1, 0.1, 0.05, 1e-3, 0.2]) if style == "ladder" else rng.choice(UNITS)
    n_main = rng.choice([3, 3, 4, 5, 6])
    main, ks = _mags(rng, n_main, style, u)
    signed = []
    if sizer == "long_short":
        n_other = rng.choice([1, 1, 1, 2, 3, 4, 5, 6])
        if n_other == 1 and ks is not None:
            other = [_dec(sum(ks) * u)]                       # one asset balances the book (dollar neutral)
        else:
            other = _mags(rng, n_other, style, u)[0]
        sign = -1.0 if rng.random() < 0.75 else 1.0           # the side of 3+ assets is mostly the short one
        signed = [sign * m for m in main] + [-sign * m for m in other]
    else:
        signed = list(main)
    if rng.random() < 0.2:
        signed.append(0.0)
    extra = rng.choice([0, 1, 2]) if kind == "pcm" else 0     # held assets that are not in the universe
    names = _pick_names(rng, len(signed) + extra)
    items = list(zip(names, signed))
    order = rng.randrange(3)
    if order == 0:
        rng.shuffle(items)
    elif order == 1:
        items.sort()
    case = {
        "id": j, "kind": kind, "sizer": sizer, "weights": {a: w for a, w in items}, "equity": rng.choice(EQUITIES),
        "gross_leverage": rng.choice([1.0, 1.0, 2.0, 0.5]), "cash_buffer": rng.choice([0.0, 0.05]),
        "fee": [0.001, 0.0005] if rng.random() < 0.2 else None,
    }
    flat = rng.random() < 0.4
    case["prices"] = {a: (100.0 if flat else rng.choice(PRICES)) for a in sorted(names)}
    if kind == "pcm":
        universe = [a for a, _ in items]
        rng.shuffle(universe)
        held = names[len(signed):] + rng.sample(universe, rng.choice([0, 1, 2]))
        rng.shuffle(held)
        lo = 1 if sizer == "dollar_weighted" else -5000
        case["universe"] = universe
        case["holdings"] = {a: rng.choice([rng.randint(lo, 5000), 100, 2500]) for a in held}
    return case


def order_sensitive(weights):
    """True when the left-to-right double sum of the magnitudes of one side (3+ assets) depends on their order."""
    for side in ([w for w in weights.values() if w > 0.0], [-w for w in weights.values() if w < 0.0]):
        if len(side) < 3:
            continue
        first = None
        for perm in itertools.permutations(side):
            total = 0.0
            for x in perm:
                total = total + x
            if first is None:
                first = total
            elif total != first:
                return True
    return False


class _StubBroker(object):
    def __init__(self, equity, fee, holdings):
        self.equity, self.holdings = equity, holdings
        self.fee_model = M.ZeroFeeModel() if fee is None else M.PercentFeeModel(commission_pct=fee[0], tax_pct=fee[1])

    def get_portfolio_total_equity(self, portfolio_id):
        return self.equity

    def get_portfolio_as_dict(self, portfolio_id):
        return {a: {"quantity": q} for a, q in self.holdings.items()}


class _StubPrices(object):
    def __init__(self, prices):
        self.prices = prices

    def get_asset_latest_ask_price(self, dt, asset):
        return self.prices[asset]


def _quantities(target):
    return [[a, repr(d["quantity"])] for a, d in target.items()]


def micro_eval(case):
    """One direct case on the REAL sizer / PCM.  Everything observed is text (repr / float.hex) in its own order."""
    from qstrader.portcon.order_sizer.dollar_weighted import DollarWeightedCashBufferedOrderSizer
    from qstrader.portcon.order_sizer.long_short import LongShortLeveragedOrderSizer
    from qstrader.portcon.optimiser.fixed_weight import FixedWeightPortfolioOptimiser
    from qstrader.portcon.pcm import PortfolioConstructionModel
    try:
        when = M.ts(MICRO_DT)
        broker = _StubBroker(case["equity"], case["fee"], dict(case.get("holdings") or {}))
        prices = _StubPrices(dict(case["prices"]))
        if case["sizer"] == "long_short":
            sizer = LongShortLeveragedOrderSizer(broker, M.PORTFOLIO_ID, prices, gross_leverage=case["gross_leverage"])
        else:
            sizer = DollarWeightedCashBufferedOrderSizer(broker, M.PORTFOLIO_ID, prices,
                                                         cash_buffer_percentage=case["cash_buffer"])
        weights = dict(case["weights"])
        if case["kind"] != "pcm":
            return {"target": _quantities(sizer(when, weights))}
        targets = []

        def recording_sizer(dt_, ws):
            target = sizer(dt_, ws)
            targets.append(_quantities(target))
            return target

        pcm = PortfolioConstructionModel(
            broker, M.PORTFOLIO_ID, M.StaticUniverse(list(case["universe"])), recording_sizer,
            FixedWeightPortfolioOptimiser(data_handler=prices), alpha_model=M.FixedSignalsAlphaModel(weights),
            data_handler=prices)
        full = list(pcm._obtain_full_asset_list(when))
        stats = {"target_allocations": []}
        orders = pcm(when, stats=stats)
        row = stats["target_allocations"][-1]
        return {"full_assets": full,
                "allocation_row": [[k, float(v).hex()] for k, v in row.items() if k != "Date"],
                "target": targets[-1], "orders": [[o.asset, repr(o.quantity)] for o in orders]}
    except Exception as exc:  # noqa: BLE001  (an exception is a result too: it must not depend on the hash seed)
        return {"error": "%s: %s" % (type(exc).__name__, exc)}


class MicroRun(object):
    """One fresh interpreter per hash seed, each evaluating the whole list of cases; at most `width` at a time.
    Input, output and stderr go through files of one TemporaryDirectory (removed by finish())."""

    def __init__(self, cases, hash_seeds, width):
        self.cases, self.hash_seeds = cases, list(hash_seeds)
        self.tmp = tempfile.TemporaryDirectory(prefix="c18m_")
        self.pending, self.running, self.results = list(self.hash_seeds), [], {}
        try:
            with open(os.path.join(self.tmp.name, "cases.json"), "w") as fh:
                json.dump({"cases": cases}, fh)
            for _ in range(max(1, width)):
                self._launch()
        except BaseException:
            self.abort()
            raise

    def _launch(self):
        if not self.pending:
            return
        h = self.pending.pop(0)
        env = dict(os.environ)
        env["PYTHONHASHSEED"] = str(h)
        base = os.path.join(self.tmp.name, "seed%d" % h)
        with open(os.path.join(self.tmp.name, "cases.json")) as fin, open(base + ".out", "w") as fout, \
                open(base + ".err", "w") as ferr:
            p = subprocess.Popen([sys.executable, os.path.abspath(__file__), "--micro-child"], stdin=fin, stdout=fout,
                                 stderr=ferr, env=env, text=True)
        self.running.append((h, p, base))

    def finish(self):
        """{hash seed: [result per case]} or {hash seed: {"child_failed": text}}."""
        try:
            while self.running:
                h, p, base = self.running.pop(0)
                p.wait()
                self._launch()
                with open(base + ".out") as fh:
                    out = fh.read()
                res = None
                if p.returncode == 0:
                    try:
                        res = json.loads(out.strip().splitlines()[-1])
                    except (ValueError, IndexError):
                        res = None
                if not isinstance(res, list) or len(res) != len(self.cases):
                    with open(base + ".err") as fh:
                        res = {"child_failed": "exit status %s; stderr: %s" % (p.returncode, fh.read()[-400:])}
                self.results[h] = res
            return self.results
        finally:
            self.abort()

    def abort(self):
        for _, p, _ in self.running:
            try:
                p.kill()
                p.wait()
            except OSError:
                pass
        self.running = []
        self.tmp.cleanup()


def micro_records(cases, results):
    """One (ok, case, observed, expected, size) per case (all interpreters against the lowest hash seed), preceded
    by one failing record per interpreter that did not deliver."""
    recs = []
    good = [h for h in sorted(results) if isinstance(results[h], list)]
    for h in sorted(results):
        if h not in good:
            recs.append((False, {"micro": None, "seeds": [h]}, results[h], "a result list from the interpreter", 0))
    if not good:
        return recs
    ref = good[0]
    for ci, case in enumerate(cases):
        expected = results[ref][ci]
        bad = [h for h in good[1:] if results[h][ci] != expected]
        seeds = [ref, bad[0]] if bad else [ref, good[-1]]
        observed = results[bad[0]][ci] if bad else expected
        recs.append((not bad, {"micro": case, "seeds": seeds},
                     dict(observed, PYTHONHASHSEED=seeds[1], differing_hash_seeds=bad[:8]),
                     dict(expected, PYTHONHASHSEED=ref), len(case["weights"]) + len(case.get("holdings") or {})))
    return recs


def micro_tally(tally, recs):
    """All records are counted; only the MICRO_KEPT smallest failures are kept as records (they would otherwise push
    every session-level failure out of the 25 kept ones)."""
    failing = sorted([r for r in recs if not r[0]], key=lambda r: r[4])
    kept = set(id(r) for r in failing[:MICRO_KEPT])
    for r in recs:
        ok, case, observed, expected, size = r
        if ok or id(r) in kept:
            tally.check(MICRO, ok, case, observed, expected, size=size)
        else:
            tally.clauses[MICRO]["checked"] += 1
            tally.clauses[MICRO]["failed"] += 1
            tally.n_failures += 1


def run(tier="quick", seed=0, budget_s=60.0, jobs=1):
    budget = M.Budget(budget_s)
    n, k = (N_QUICK, K_QUICK) if tier == "quick" else (N_THOROUGH, K_THOROUGH)
    tally = M.Tally(CLAUSES)
    seen, counts, samples = set(), {"ev": 0, "nt": 0, "runs": 0}, []
    m_n, m_h = (M_QUICK, H_QUICK) if tier == "quick" else (M_THOROUGH, H_THOROUGH)
    m_cases = [gen_micro(seed, j) for j in range(m_n)]
    # the direct sizer / PCM interpreters work while the sessions run (quick: all of them at once)
    micro = MicroRun(m_cases, range(m_h), m_h if tier == "quick" else max(4, jobs))
    try:
        _sessions(tier, seed, budget_s, jobs, budget, n, k, tally, seen, counts, samples)
        done_all = counts.pop("done_all")
    except BaseException:
        micro.abort()
        raise
    m_recs = micro_records(m_cases, micro.finish())
    micro_tally(tally, m_recs)
    m_keys = set(json.dumps(c, sort_keys=True) for c in m_cases)
    m_nt = [c for c in m_cases if order_sensitive(c["weights"])]
    m_nt_keys = set(json.dumps(c, sort_keys=True) for c in m_nt)
    for kind in ("long_short", "pcm"):
        samples.extend([{"direct_case": c} for c in m_nt if c["kind"] == kind][:1])
    return {
        "evaluations": counts["ev"] + len(m_cases), "distinct_nontrivial": counts["nt"] + len(m_nt_keys),
        "rule": ("case i = gen_case(seed, i) (see BOUND); one evaluation = one case = %d real sessions (decoy, A, B, C, "
                 "unrelated, D in process + %d fresh interpreters), %d sessions in total; distinct = distinct (market "
                 "spec, configuration) JSON; non-trivial = run A completed with at least one fill and one allocation "
                 "row. %s. Plus %d direct sizer / PCM cases j = gen_micro(seed, j) (%d distinct JSON), each evaluated in "
                 "%d fresh interpreters (PYTHONHASHSEED = 0..%d) = %d real sizer / PCM calls, counted as one evaluation "
                 "each; such a case is non-trivial when one side has 3+ assets and the left-to-right double sum of its "
                 "magnitudes takes different values for different orders of the addends (%d of them). evaluations = "
                 "%d session cases + %d direct cases; distinct_nontrivial = %d + %d"
                 % (6 + k + 1, k + 1, counts["runs"],
                    "all %d cases of the tier ran" % n if done_all else "stopped early on budget_s",
                    len(m_cases), len(m_keys), m_h, m_h - 1, len(m_cases) * m_h, len(m_nt_keys),
                    counts["ev"], len(m_cases), counts["nt"], len(m_nt_keys))),
        "samples": samples, "exhaustive": False, "clauses": tally.clauses,
        "n_failures": tally.n_failures, "failures": tally.kept_failures(),
    }


def _sessions(tier, seed, budget_s, jobs, budget, n, k, tally, seen, counts, samples):
    """The session-level cases (four clauses); leaves counts["done_all"]."""
    done_all = True

    def absorb(recs):
        for rec in recs:
            counts["ev"] += 1
            counts["runs"] += 6 + (k + 1)
            for clause, ok, o, e in rec["results"]:
                tally.check(clause, ok, rec["case"], o, e, size=M.case_size(rec["case"]))
            key = json.dumps(rec["case"], sort_keys=True)
            if key not in seen and rec["error"] is None and rec["n"][0] > 0 and rec["n"][2] > 0:
                counts["nt"] += 1
                if len(samples) < 4:
                    samples.append({"case": rec["case"], "fills_equity_points_allocation_rows": rec["n"]})
            seen.add(key)

    if tier == "quick":
        # one batch (k+1 interpreter start-ups in all); a small budget shrinks the batch (~3 s of CPU per case)
        m = min(n, max(2, int(budget_s / 3.5)))
        done_all = m == n
        absorb(_worker((seed, 0, m, k)))
    elif jobs <= 1:
        chunk = 5
        for lo in range(0, n, chunk):
            if budget.left() < 6.0 and lo > 0:
                done_all = False
                break
            absorb(_worker((seed, lo, min(n, lo + chunk), k)))
    else:
        chunk = 5
        tasks = [(seed, lo, min(n, lo + chunk), k) for lo in range(0, n, chunk)]
        done = 0                            # every worker also keeps k+1 child interpreters busy
        for recs in M.pool_iter(_worker, tasks, max(1, (jobs + 1) // 2)):
            absorb(recs)
            done += 1
            if budget.left() < 10.0 and done < len(tasks):
                done_all = False
                break
    counts["done_all"] = done_all


def replay(case):
    clause = case.get("clause") if "cfg" not in case else None     # a whole failure record is accepted too
    inner = case.get("case", case)
    if "micro" in inner:
        return replay_micro(inner)
    recs = check_cases([{"market": inner["market"], "cfg": inner["cfg"]}], int(inner.get("k", K_QUICK)))
    bad = [(c, o, e) for c, ok, o, e in recs[0]["results"] if not ok and (clause is None or c == clause)]
    if not bad:
        return {"reproduced": False, "clause": clause or "", "observed": None, "expected": None}
    return {"reproduced": True, "clause": bad[0][0], "observed": bad[0][1], "expected": bad[0][2]}


def replay_micro(inner):
    """Just that direct case again, in two fresh interpreters with the two recorded hash seeds."""
    seeds = [int(h) for h in inner.get("seeds") or [0, 1]]
    if inner.get("micro") is None:                                  # "an interpreter did not deliver": all of them again
        cases, seeds = [gen_micro(0, j) for j in range(8)], sorted(set(seeds + [0]))
    else:
        cases = [inner["micro"]]
    recs = micro_records(cases, MicroRun(cases, seeds, len(seeds)).finish())
    bad = [r for r in recs if not r[0]]
    if not bad:
        return {"reproduced": False, "clause": MICRO, "observed": None, "expected": None}
    return {"reproduced": True, "clause": MICRO, "observed": M.jsonable(bad[0][2]), "expected": M.jsonable(bad[0][3])}


if __name__ == "__main__":
    if len(sys.argv) > 1 and sys.argv[1] == "--micro-child":
        payload = json.loads(sys.stdin.read())
        sys.stdout.write(json.dumps([micro_eval(c) for c in payload["cases"]]) + "\n")
        sys.exit(0)
    if len(sys.argv) > 1 and sys.argv[1] == "--child":
        payload = json.loads(sys.stdin.read())
        sys.stdout.write(json.dumps(child_run(payload["cases"])) + "\n")
        sys.exit(0)
    tier = sys.argv[1] if len(sys.argv) > 1 else "quick"
    out = run(tier=tier, seed=int(sys.argv[2]) if len(sys.argv) > 2 else 0,
              budget_s=25.0 if tier == "quick" else 900.0, jobs=1 if tier == "quick" else 16)
    print(json.dumps(out, indent=1, default=str))
